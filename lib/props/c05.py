"""C05 — arrays are values: no mutation is ever visible through another name.

Three streams over generated programs, all run through the real pipeline (`nsverif lang`,
configurations nn pn nf pf = with/without optimisation plan x with/without frame arena):

 S  structured alias programs built by `ProgGen` below: arrays (numbers, short and > 256 byte
    strings, booleans, null, nested arrays) are copied to a new variable / into another array /
    through parameters / through return values, then each side is mutated at every depth through
    every l-value route (`a[i] get v`, `a[i][j] get v`, `a.push`, `a[i].push`, `a.pop()`,
    `a[i].reverse()` ...) inside and outside loops and functions, and after every mutation ALL
    array variables in scope are printed.
    ORACLE (independent of the Coq model): `Ref`, a small Python interpreter with value
    semantics (every read deep-copies) for exactly the statement shapes ProgGen emits.  The
    implementation's ending and printed values must equal Ref's in all four configurations.
 G  generic programs of lib/langgen.py (alias_heavy) extended by `AliasGen` with alias probes:
    `make c get a / shout(c) / <mutate a> / shout(c)` between marker lines (and the symmetric
    and stored-in-array forms).  ORACLE: the two printed values of a probe are equal, in every
    configuration, and the four configurations print the same.
 MODEL TIE for both: the extracted Lang.run_impl on the dumped AST (langcheck.compare).

A program counts as non-trivial only if Ref saw an array copied from one variable slot to
another and, later, a mutation through one of the two (S), or at least one probe completed (G)."""
import json
import os
import struct

import common
import langcheck
import langgen
import langrun

TRUSTED_EXTRA = [
    "C05: the Python reference interpreter `Ref` in lib/props/c05.py (value semantics: deep copy on every read; "
    "error kinds and evaluation order of indexed assignment / push / pop / reverse as documented) is the property oracle",
    "C05: the theorems are about Lang.run_impl; Rust-level storage sharing (Vec buffers, arenas, pool slots) is outside the "
    "model and is covered only by the four-configuration oracle runs (frame arena on/off, debug and release)",
]
ASSUMPTIONS = [
    "programs are accepted by the static checker; runs ending in resource exhaustion (stack overflow, timeout, model fuel) are not compared",
    "statement-level frame theorems are relative to the state after operand evaluation; the versions relative to the state before "
    "the statement assume call-free index expressions and argument",
]
CAN_RUN_WITHOUT_MODEL = True
CFGS = ["nn", "pn", "nf", "pf"]


# =====================================================================================
# canonical values (same text as harness/src/lang.rs value_repr)

def canon(v):
    if isinstance(v, bool):
        return "b:1" if v else "b:0"
    if v is None:
        return "z"
    if isinstance(v, float):
        return "n:%016x" % struct.unpack(">Q", struct.pack(">d", v))[0]
    if isinstance(v, str):
        b = v.encode("utf-8")
        return "s:" + (b.hex() if b else "-")
    return "a[" + ",".join(canon(x) for x in v) + "]"


def deep(v):
    return [deep(x) for x in v] if isinstance(v, list) else v


def vsize(v):
    return 1 + sum(vsize(x) for x in v) if isinstance(v, list) else 1


def vdepth(v):
    return 1 + max([vdepth(x) for x in v] + [0]) if isinstance(v, list) else 0


# =====================================================================================
# pretty printer of the mini-AST

def p_expr(e):
    k = e[0]
    if k == "num":
        return e[1]
    if k == "str":
        return '"%s"' % e[1]
    if k == "bool":
        return "true" if e[1] else "false"
    if k == "null":
        return "null"
    if k == "arr":
        return "[%s]" % ", ".join(p_expr(x) for x in e[1])
    if k == "var":
        return e[1]
    if k == "idx":
        return "%s[%s]" % (p_expr(e[1]), p_expr(e[2]))
    if k == "call":
        return "%s(%s)" % (e[1], ", ".join(p_expr(x) for x in e[2]))
    if k == "pop":
        return "%s.pop()" % p_lv(e[1])
    if k == "len":
        return "%s.len()" % p_expr(e[1])
    if k == "bin":
        a, b = p_expr(e[2]), p_expr(e[3])
        if e[2][0] == "bin":
            a = "(%s)" % a
        if e[3][0] == "bin":
            b = "(%s)" % b
        return "%s %s %s" % (a, e[1], b)
    raise ValueError(e)


def p_lv(lv):
    return lv[0] + "".join("[%s]" % p_expr(i) for i in lv[1])


def p_stmts(ss, ind=0):
    out = []
    pad = "  " * ind
    for s in ss:
        k = s[0]
        if k == "make":
            out.append("%smake %s get %s" % (pad, s[1], p_expr(s[2])))
        elif k == "set":
            out.append("%s%s get %s" % (pad, s[1], p_expr(s[2])))
        elif k == "setidx":
            out.append("%s%s get %s" % (pad, p_lv(s[1]), p_expr(s[2])))
        elif k == "push":
            out.append("%s%s.push(%s)" % (pad, p_lv(s[1]), p_expr(s[2])))
        elif k == "popst":
            out.append("%s%s.pop()" % (pad, p_lv(s[1])))
        elif k == "rev":
            out.append("%s%s.reverse()" % (pad, p_lv(s[1])))
        elif k == "shout":
            out.append("%sshout(%s)" % (pad, p_expr(s[1])))
        elif k == "expr":
            out.append("%s%s" % (pad, p_expr(s[1])))
        elif k == "ret":
            out.append("%sreturn%s" % (pad, "" if s[1] is None else " " + p_expr(s[1])))
        elif k == "if":
            out.append("%sif to say (%s) start" % (pad, p_expr(s[1])))
            out += p_stmts(s[2], ind + 1)
            out.append("%send" % pad)
            if s[3] is not None:
                out.append("%sif not so start" % pad)
                out += p_stmts(s[3], ind + 1)
                out.append("%send" % pad)
        elif k == "while":
            out.append("%sjasi (%s) start" % (pad, p_expr(s[1])))
            out += p_stmts(s[2], ind + 1)
            out.append("%send" % pad)
        elif k == "block":
            out.append("%sstart" % pad)
            out += p_stmts(s[1], ind + 1)
            out.append("%send" % pad)
        elif k == "fun":
            out.append("%sdo %s(%s) start" % (pad, s[1], ", ".join(s[2])))
            out += p_stmts(s[3], ind + 1)
            out.append("%send" % pad)
        else:
            raise ValueError(s)
    return out


def program_text(items):
    return "\n".join(p_stmts(items)) + "\n"


# =====================================================================================
# reference interpreter: value semantics

class RtErr(Exception):
    pass


class Ret(Exception):
    def __init__(self, v, prov):
        self.v, self.prov = v, prov


class Box:
    __slots__ = ("v", "rel", "ident")
    counter = 0

    def __init__(self, v):
        self.v = v
        self.rel = set()
        Box.counter += 1
        self.ident = Box.counter


E_OOB, E_INV, E_TYPE = "err:Index_out_of_bounds", "err:Invalid_index", "err:Type_mismatch"


class Ref:
    """Value semantics for the shapes ProgGen emits.  `prov` (set of Box) follows array values
    that came out of a variable read, only to *measure* copy-then-mutate coverage."""

    def __init__(self, limit=400000):
        self.out = []
        self.steps = 0
        self.limit = limit
        self.stats = {}
        self.fdepth = 0
        self.ldepth = 0

    def stat(self, k, n=1):
        self.stats[k] = self.stats.get(k, 0) + n

    def tick(self):
        self.steps += 1
        if self.steps > self.limit:
            raise RtErr("limit")

    # ---- running
    def run(self, items):
        glob = {}
        self.globals = glob
        try:
            self.block(items, [glob], {}, new_scope=False)
            ending = "ok"
        except RtErr as ex:
            ending = ex.args[0]
        except Ret:
            ending = "ok"       # never generated at top level
        return ending, " ".join(self.out)

    def lookup(self, name, chain):
        for sc in reversed(chain):
            if name in sc:
                return sc[name]
        raise AssertionError("reference: unbound " + name)

    def block(self, ss, chain, fenv, new_scope=True):
        if new_scope:
            chain = chain + [{}]
        fenv = dict(fenv)
        for s in ss:                                  # hoisting
            if s[0] == "fun":
                fenv[s[1]] = (s[2], s[3], chain, fenv)
        for s in ss:
            self.stmt(s, chain, fenv)

    def relate(self, dst, prov):
        for b in prov:
            if b is not dst:
                dst.rel.add(b)
                b.rel.add(dst)
                self.stat("copy_events")

    def mutated(self, box, kind, depth):
        self.stat("mut_" + kind)
        self.stat("mut_depth_%d" % min(depth, 3))
        if self.fdepth:
            self.stat("mut_in_function")
        if self.ldepth:
            self.stat("mut_in_loop")
        if box.rel:
            self.stat("mut_after_copy")
            if self.fdepth:
                self.stat("mut_after_copy_in_function")
            if self.ldepth:
                self.stat("mut_after_copy_in_loop")
            if depth >= 1:
                self.stat("mut_after_copy_nested")

    def stmt(self, s, chain, fenv):
        self.tick()
        k = s[0]
        if k == "make":
            v, prov = self.eval(s[2], chain, fenv)
            sc = chain[-1]
            if s[1] in sc:
                sc[s[1]].v = v
                b = sc[s[1]]
            else:
                b = sc[s[1]] = Box(v)
            if prov:
                self.stat("copy_make")
            self.relate(b, prov)
        elif k == "set":
            v, prov = self.eval(s[2], chain, fenv)
            b = self.lookup(s[1], chain)
            b.v = v
            if prov:
                self.stat("copy_assign")
            self.relate(b, prov)
        elif k == "setidx":
            v, prov = self.eval(s[2], chain, fenv)
            name, idx = s[1]
            path = [self.index_value(i, chain, fenv) for i in idx]
            box = self.lookup(name, chain)
            slot = box.v
            for n, i in enumerate(path):
                if not isinstance(slot, list):
                    raise RtErr(E_INV)
                if i >= len(slot):
                    raise RtErr(E_OOB)
                if n + 1 == len(path):
                    slot[i] = v
                else:
                    slot = slot[i]
            if prov:
                self.stat("copy_store_index")
            self.relate(box, prov)
            self.mutated(box, "setidx", len(path) - 1)
        elif k == "push":
            v, prov = self.eval(s[2], chain, fenv)
            box, arr, depth = self.mut_array(s[1], chain, fenv)
            arr.append(v)
            if prov:
                self.stat("copy_store_push")
            self.relate(box, prov)
            self.mutated(box, "push", depth)
        elif k == "popst":
            box, arr, depth = self.mut_array(s[1], chain, fenv)
            if arr:
                arr.pop()
            self.mutated(box, "pop", depth)
        elif k == "rev":
            box, arr, depth = self.mut_array(s[1], chain, fenv)
            arr.reverse()
            self.mutated(box, "reverse", depth)
        elif k == "shout":
            v, _ = self.eval(s[1], chain, fenv)
            self.out.append(canon(v))
            self.stat("shouts")
        elif k == "expr":
            self.eval(s[1], chain, fenv)
        elif k == "ret":
            if s[1] is None:
                raise Ret(None, set())
            v, prov = self.eval(s[1], chain, fenv)
            raise Ret(v, prov)
        elif k == "if":
            if self.truthy(s[1], chain, fenv):
                self.block(s[2], chain, fenv)
            elif s[3] is not None:
                self.block(s[3], chain, fenv)
        elif k == "while":
            self.ldepth += 1
            try:
                while self.truthy(s[1], chain, fenv):
                    self.tick()
                    self.block(s[2], chain, fenv)
            finally:
                self.ldepth -= 1
        elif k == "block":
            self.block(s[1], chain, fenv)
        elif k == "fun":
            pass
        else:
            raise ValueError(s)

    def truthy(self, e, chain, fenv):
        v, _ = self.eval(e, chain, fenv)
        if isinstance(v, bool):
            return v
        if v is None:
            return False
        raise RtErr(E_TYPE)

    def index_value(self, e, chain, fenv):
        v, _ = self.eval(e, chain, fenv)
        if isinstance(v, bool) or not isinstance(v, float):
            raise RtErr(E_INV)
        if v != v or v in (float("inf"), float("-inf")) or v != int(v):
            raise RtErr(E_INV)
        if v < 0:
            raise RtErr(E_OOB)
        return int(v)

    def mut_array(self, lv, chain, fenv):
        """get_mutable_array: -> (root box, the list to mutate, depth)"""
        name, idx = lv
        if not idx:
            box = self.lookup(name, chain)
            if not isinstance(box.v, list):
                raise RtErr(E_TYPE)
            return box, box.v, 0
        path = [self.index_value(i, chain, fenv) for i in idx]
        box = self.lookup(name, chain)
        slot = box.v
        for i in path:
            if not isinstance(slot, list):
                raise RtErr(E_INV)
            if i >= len(slot):
                raise RtErr(E_OOB)
            slot = slot[i]
        if not isinstance(slot, list):
            raise RtErr(E_TYPE)
        return box, slot, len(path)

    def eval(self, e, chain, fenv):
        """-> (fresh value, provenance)"""
        self.tick()
        k = e[0]
        if k == "num":
            return float(e[1]), set()
        if k == "str":
            return e[1], set()
        if k == "bool":
            return e[1], set()
        if k == "null":
            return None, set()
        if k == "arr":
            vs, prov = [], set()
            for x in e[1]:
                v, p = self.eval(x, chain, fenv)
                vs.append(v)
                prov |= p
            return vs, prov
        if k == "var":
            b = self.lookup(e[1], chain)
            return deep(b.v), ({b} if isinstance(b.v, list) else set())
        if k == "idx":
            av, prov = self.eval(e[1], chain, fenv)
            iv, _ = self.eval(e[2], chain, fenv)
            if not isinstance(av, list):
                raise RtErr(E_TYPE)
            if isinstance(iv, bool) or not isinstance(iv, float):
                raise RtErr(E_INV)
            if iv != iv or iv in (float("inf"), float("-inf")) or iv != int(iv):
                raise RtErr(E_INV)
            if iv < 0 or iv >= len(av):
                raise RtErr(E_OOB)
            r = av[int(iv)]
            return r, (prov if isinstance(r, list) else set())
        if k == "len":
            v, _ = self.eval(e[1], chain, fenv)
            if isinstance(v, list):
                return float(len(v)), set()
            if isinstance(v, str):
                return float(len(v)), set()
            raise RtErr(E_TYPE)
        if k == "pop":
            box, arr, depth = self.mut_array(e[1], chain, fenv)
            r = arr.pop() if arr else None
            self.mutated(box, "pop", depth)
            return r, ({box} if isinstance(r, list) else set())
        if k == "bin":
            a, _ = self.eval(e[2], chain, fenv)
            b, _ = self.eval(e[3], chain, fenv)
            op = e[1]
            if isinstance(a, float) and isinstance(b, float):
                if op == "add":
                    return a + b, set()
                if op == "minus":
                    return a - b, set()
                if op == "pass":
                    return a > b, set()
                if op == "small pass":
                    return a < b, set()
                if op == "na":
                    return abs(a - b) <= 1e-12, set()
            raise AssertionError("reference: operator outside the generated shapes")
        if k == "call":
            params, body, dchain, dfenv = fenv[e[1]]
            # call by value, arguments strictly left to right: each argument is evaluated (and
            # deep-copied: self.eval returns a fresh value) at ITS OWN point in that order, so a
            # later argument whose evaluation mutates the array an earlier argument named does not
            # reach the earlier parameter, and an earlier mutation is seen by a later argument
            args = []
            for x in e[2]:
                args.append(self.eval(x, chain, fenv))
            assert len(args) == len(params)
            psc = {}
            for p, (v, prov) in zip(params, args):
                psc[p] = Box(v)
                if prov:
                    self.stat("copy_param")
                self.relate(psc[p], prov)
            self.fdepth += 1
            if self.fdepth > 60:
                raise RtErr("limit")
            saved_l = self.ldepth
            self.ldepth = 0
            try:
                self.block(body, dchain + [psc], dfenv)
                rv, rprov = None, set()
            except Ret as r:
                rv, rprov = r.v, r.prov
            finally:
                self.fdepth -= 1
                self.ldepth = saved_l
            if rprov:
                self.stat("copy_return")
            return rv, rprov
        raise ValueError(e)


def reference(items):
    r = Ref()
    ending, vals = r.run(items)
    return ending, vals, r


# =====================================================================================
# structured generator

WORDS = ["a", "b", "ab", "abc", "hello", "wor ld", "naija", "x", "", "UPPER", "0123456789", "zz top", "e", "q"]
NUMS = ["0", "1", "2", "3", "7", "10", "0.5", "2.25", "100", "3.14159", "1000000", "0.1", "255"]
STR_SIZES = [7, 8, 9, 15, 16, 17, 31, 32, 33, 127, 128, 129, 160, 161, 255, 256, 257, 300, 520]


def N(i):
    return ("num", str(i))


class ProgGen:
    def __init__(self, rng, size):
        self.r = rng
        self.size = size
        self.items = []
        self.counter = 0
        self.funcs = []           # dicts: name, params (list of kinds), need
        self.state = {}           # global name -> value after the program so far
        self.long_strings = rng.random() < 0.35
        self.kinds = {}

    def note(self, k):
        self.kinds[k] = self.kinds.get(k, 0) + 1

    def fresh(self, p):
        self.counter += 1
        return "%s%d" % (p, self.counter)

    # ---- literals
    def scalar(self):
        r = self.r
        k = r.random()
        if k < 0.35:
            return ("num", r.choice(NUMS))
        if k < 0.70:
            if self.long_strings and r.random() < 0.3:
                n = r.choice(STR_SIZES)
                unit = r.choice(["a", "xy", "abc", "0123456789", "Naija "])
                return ("str", (unit * (n // len(unit) + 1))[:n])
            return ("str", r.choice(WORDS))
        if k < 0.85:
            return ("bool", r.random() < 0.5)
        return ("null",)

    def arr_lit(self, depth):
        r = self.r
        n = r.choice([0, 1, 2, 2, 3, 3, 4])
        xs = []
        for _ in range(n):
            if depth < 3 and r.random() < (0.55 if depth == 1 else 0.3):
                xs.append(self.arr_lit(depth + 1))
            else:
                xs.append(self.scalar())
        return ("arr", xs)

    # ---- shapes
    def arrays(self):
        return [n for n, v in self.state.items() if isinstance(v, list)]

    MAXPATH = 4       # l-value chains a[i][j][k][l] at most

    @staticmethod
    def array_paths(v, pre=()):
        out = [pre]
        if len(pre) < ProgGen.MAXPATH:
            for i, x in enumerate(v):
                if isinstance(x, list):
                    out += ProgGen.array_paths(x, pre + (i,))
        return out

    @staticmethod
    def elem_paths(v, pre=()):
        out = []
        for i, x in enumerate(v):
            out.append(pre + (i,))
            if isinstance(x, list) and len(pre) + 1 < ProgGen.MAXPATH:
                out += ProgGen.elem_paths(x, pre + (i,))
        return out

    def small_arrays(self):
        """array variables small enough to be copied into another array (keeps programs from exploding)"""
        return [n for n in self.arrays() if vsize(self.state[n]) <= 60 and vdepth(self.state[n]) <= 4]

    def pick_deep(self, paths):
        """bias to deeper paths"""
        r = self.r
        if not paths:
            return None
        mx = max(len(p) for p in paths)
        if mx >= 2 and r.random() < 0.55:
            paths = [p for p in paths if len(p) >= 2]
        elif mx >= 1 and r.random() < 0.5:
            paths = [p for p in paths if len(p) >= 1]
        return r.choice(paths)

    def idx_exprs(self, path):
        out = []
        for i in path:
            if i in (0, 1) and self.r.random() < 0.15 and ("k%d" % i) in self.state:
                out.append(("var", "k%d" % i))
            else:
                out.append(N(i))
        return out

    def chain_expr(self, name, path):
        e = ("var", name)
        for i in self.idx_exprs(path):
            e = ("idx", e, i)
        return e

    def rhs(self):
        """value stored by a mutation: literal, or a copy of (part of) some array variable"""
        r = self.r
        arrs = self.small_arrays()
        k = r.random()
        if arrs and k < 0.35:
            a = r.choice(arrs)
            self.note("rhs_var")
            return ("var", a)
        if arrs and k < 0.5:
            a = r.choice(arrs)
            ps = self.elem_paths(self.state[a])
            if ps:
                self.note("rhs_elem")
                return self.chain_expr(a, r.choice(ps))
        if k < 0.75:
            return self.scalar()
        return self.arr_lit(2)

    def shout_all(self, extra=()):
        names = list(extra) + [n for n in self.arrays() if n not in extra]
        if len(names) > 6:
            keep = names[:2] + self.r.sample(names[2:], 4)
            names = [n for n in names if n in keep]
        return [("shout", ("var", n)) for n in names]

    # ---- mutations through a known-shape variable
    def mutation(self, name, val, robust=False):
        """one mutating statement through `name` (+ statements printing what it returned)"""
        r = self.r
        k = r.random()
        if k < 0.34:
            p = self.pick_deep(self.elem_paths(val))
            if p is not None:
                self.note("m_setidx_d%d" % min(len(p), 3))
                return [("setidx", (name, self.idx_exprs(p)), self.rhs())]
        ap = self.pick_deep(self.array_paths(val))
        lv = (name, self.idx_exprs(ap))
        d = min(len(ap), 3)
        if k < 0.62:
            self.note("m_push_d%d" % d)
            return [("push", lv, self.rhs())]
        if k < 0.82:
            self.note("m_pop_d%d" % d)
            m = r.random()
            if m < 0.4:
                return [("shout", ("pop", lv))]
            if m < 0.7:
                t = self.fresh("t")
                return [("make", t, ("pop", lv)), ("shout", ("var", t))]
            return [("popst", lv)]
        self.note("m_reverse_d%d" % d)
        return [("rev", lv)]

    # ---- mutations through a variable of unknown shape (function bodies)
    def mutation_unknown(self, name, nested=False):
        r = self.r
        k = r.random()
        v = ("var", name)
        if nested and k < 0.5:
            # caller guarantees name[0] is an array
            m = r.random()
            lv = (name, [N(0)])
            if m < 0.35:
                return [("push", lv, self.scalar_or_arr())]
            if m < 0.5:
                return [("rev", lv)]
            if m < 0.65:
                return [("shout", ("pop", lv))]
            return [("if", ("bin", "pass", ("len", ("idx", v, N(0))), N(0)),
                     [("setidx", (name, [N(0), N(0)]), self.scalar_or_arr())], None)]
        if k < 0.35:
            return [("push", (name, []), self.scalar_or_arr())]
        if k < 0.5:
            return [("rev", (name, []))]
        if k < 0.65:
            return [("shout", ("pop", (name, [])))] if r.random() < 0.6 else [("popst", (name, []))]
        i = r.choice([0, 0, 1, 2])
        return [("if", ("bin", "pass", ("len", v), N(i)),
                 [("setidx", (name, [N(i)]), self.scalar_or_arr())], None)]

    def scalar_or_arr(self):
        return self.arr_lit(2) if self.r.random() < 0.3 else self.scalar()

    # ---- functions
    def new_function(self):
        r = self.r
        name = self.fresh("f")
        globs = self.arrays()
        cap = r.sample(globs, min(len(globs), r.randint(0, 2)))
        kind = r.choice(["mutret", "mutnoret", "retglobal", "local", "looppush", "rec", "two", "nested", "mutret", "local"])
        if kind == "retglobal" and not globs:
            kind = "mutret"
        p, q, kk = name + "p", name + "q", name + "k"
        sh_cap = [("shout", ("var", g)) for g in cap]
        body, params, need = [], [], []
        if kind == "mutret":
            params, need = [p], [0]
            body = self.mutation_unknown(p) + [("shout", ("var", p))] + sh_cap
            if r.random() < 0.5:
                body += self.mutation_unknown(p) + [("shout", ("var", p))]
            body += [("ret", ("var", p))]
        elif kind == "mutnoret":
            params, need = [p], [0]
            body = self.mutation_unknown(p) + self.mutation_unknown(p) + [("shout", ("var", p))] + sh_cap
            if r.random() < 0.5:
                body += [("ret", ("len", ("var", p)))]
        elif kind == "retglobal":
            g = r.choice(globs)
            params, need = [], []
            if r.random() < 0.6:
                body += [r.choice([("push", (g, []), self.scalar_or_arr()), ("rev", (g, []))]), ("shout", ("var", g))]
            body += [("ret", ("var", g))]
        elif kind == "local":
            params, need = [p], [0]
            l = name + "l"
            body = [("make", l, ("var", p))] + self.mutation_unknown(l) + [("shout", ("var", l)), ("shout", ("var", p))]
            body += self.mutation_unknown(p) + [("shout", ("var", l)), ("shout", ("var", p))] + sh_cap
            body += [("ret", r.choice([("var", l), ("arr", [("var", l), ("var", p)]), ("var", p)]))]
        elif kind == "looppush":
            params, need = [p, kk], [0, "k"]
            i = name + "i"
            inner = [("set", i, ("bin", "add", ("var", i), N(1))),
                     ("push", (p, []), r.choice([("var", i), ("arr", [("var", i), self.scalar()]), self.scalar()]))]
            if r.random() < 0.5:
                t = name + "t"
                inner += [("make", t, ("var", p))] + self.mutation_unknown(t) + [("shout", ("var", t))]
            if r.random() < 0.4:
                inner += [("shout", ("var", p))]
            body = [("make", i, N(0)), ("while", ("bin", "small pass", ("var", i), ("var", kk)), inner),
                    ("shout", ("var", p))] + sh_cap + [("ret", ("var", p))]
        elif kind == "rec":
            params, need = [p, kk], [0, "k"]
            body = [("if", ("bin", "small pass", ("var", kk), N(1)), [("ret", ("var", p))], None),
                    ("push", (p, []), r.choice([("var", kk), ("arr", [("var", kk)]), ("var", p)]))]
            if r.random() < 0.5:
                body += [("shout", ("var", p))]
            body += [("ret", ("call", name, [("var", p), ("bin", "minus", ("var", kk), N(1))]))]
        elif kind == "two":
            params, need = [p, q], [0, 0]
            body = self.mutation_unknown(p) + self.mutation_unknown(q) + [("shout", ("var", p)), ("shout", ("var", q))] + sh_cap
            body += [("ret", r.choice([("arr", [("var", p), ("var", q)]), ("var", q)]))]
        elif kind == "nested":
            params, need = [p], [1]
            body = self.mutation_unknown(p, nested=True) + [("shout", ("var", p))] + sh_cap
            body += self.mutation_unknown(p, nested=True) + [("shout", ("var", p))]
            body += [("ret", r.choice([("idx", ("var", p), N(0)), ("var", p)]))]
        self.note("fn_" + kind)
        f = {"name": name, "params": params, "need": need, "kind": kind}
        return f, [("fun", name, params, body)]

    def call_expr(self, f):
        """-> (call expression, names passed) or None"""
        r = self.r
        args, passed = [], []
        for nd in f["need"]:
            if nd == "k":
                args.append(N(r.randint(0, 3)))
                continue
            cands = []
            for a in self.arrays():
                v = self.state[a]
                if nd == 0 or (v and isinstance(v[0], list)):
                    cands.append((a, ()))
                for ap in self.array_paths(v):
                    if ap:
                        sub = v
                        for i in ap:
                            sub = sub[i]
                        if nd == 0 or (sub and isinstance(sub[0], list)):
                            cands.append((a, ap))
            if not cands:
                return None
            whole = [c for c in cands if not c[1]]
            a, ap = r.choice(whole) if whole and r.random() < 0.7 else r.choice(cands)
            if passed and r.random() < 0.4:
                a, ap = passed[0], ()          # the same array twice
                if nd == 1 and not (self.state[a] and isinstance(self.state[a][0], list)):
                    return None
            args.append(self.chain_expr(a, ap))
            passed.append(a)
        return ("call", f["name"], args), passed

    # ---- same name, different variable: a callee writes a captured global through an index
    #      chain while a caller on the stack owns an unrelated local/parameter of that NAME
    def lit_of(self, v):
        if isinstance(v, bool):
            return ("bool", v)
        if v is None:
            return ("null",)
        if isinstance(v, float):
            return ("num", str(int(v)) if v == int(v) and abs(v) < 1e15 else repr(v))
        if isinstance(v, str):
            return ("str", v)
        return ("arr", [self.lit_of(x) for x in v])

    def chain_mutation(self, name, val):
        """a mutation of `name` through an index chain of length >= 1 (assign_index or the
        index arm of get_mutable_array)"""
        r = self.r
        aps = [p for p in self.array_paths(val) if p]
        k = r.random()
        if not aps or k < 0.4:
            p = self.pick_deep(self.elem_paths(val))
            if p is None:
                return []
            self.note("m_setidx_d%d" % min(len(p), 3))
            return [("setidx", (name, self.idx_exprs(p)), self.scalar_or_arr())]
        lv = (name, self.idx_exprs(self.pick_deep(aps)))
        if k < 0.65:
            return [("push", lv, self.scalar_or_arr())]
        if k < 0.85:
            return [("shout", ("pop", lv))] if r.random() < 0.6 else [("popst", lv)]
        return [("rev", lv)]

    def shadow_call(self):
        r = self.r
        cands = [a for a in self.arrays() if self.state[a]]
        if not cands:
            return None
        g = r.choice(cands)
        vg = self.state[g]
        callee, caller = self.fresh("f"), self.fresh("f")
        body = []
        for _ in range(r.randint(1, 3)):
            body += self.chain_mutation(g, vg)
        if not body:
            return None
        body += [("shout", ("var", g))]
        if r.random() < 0.4:
            body += [("ret", ("var", g))]
        defs = [("fun", callee, [], body)]
        # the caller's own, independent array of the same name: same shape (so that a misdirected
        # write would succeed silently), another variable's value, or any literal
        others = [a for a in self.small_arrays() if a != g]
        m = r.random()
        if m < 0.5 and vsize(vg) <= 80:
            init = self.lit_of(vg)
        elif others and m < 0.75:
            init = ("var", r.choice(others))
        else:
            init = self.arr_lit(1)
        call = r.choice([("expr", ("call", callee, [])), ("shout", ("call", callee, []))])
        own = self.mutation_unknown(g) if r.random() < 0.5 else []
        variant = r.choice(["param", "param", "local", "local_block", "rec"])
        kk = caller + "k"
        if variant == "param":
            cdef = ("fun", caller, [g], [("shout", ("var", g)), call, ("shout", ("var", g))] + own
                    + [("shout", ("var", g)), ("ret", ("var", g))])
            use = ("call", caller, [init])
        elif variant == "local":
            cdef = ("fun", caller, [], [("make", g, init), ("shout", ("var", g)), call, ("shout", ("var", g))] + own
                    + [("shout", ("var", g)), ("ret", ("var", g))])
            use = ("call", caller, [])
        elif variant == "local_block":
            cdef = ("fun", caller, [], [("block", [("make", g, init), call, ("shout", ("var", g))] + own + [("shout", ("var", g))]),
                                        call, ("shout", ("var", g)), ("ret", ("var", g))])
            use = ("call", caller, [])
        else:
            cdef = ("fun", caller, [g, kk],
                    [("if", ("bin", "small pass", ("var", kk), N(1)), [call, ("shout", ("var", g)), ("ret", ("var", g))], None),
                     ("push", (g, []), ("var", kk)), call, ("shout", ("var", g)),
                     ("ret", ("call", caller, [("var", g), ("bin", "minus", ("var", kk), N(1))]))])
            use = ("call", caller, [init, N(r.randint(0, 2))])
        self.last_shape = "shadow"
        self.note("shadow_" + variant)
        if variant == "param" and r.random() < 0.5:
            self.funcs.append({"name": caller, "params": [g], "need": [0], "kind": "shadow"})
        d = self.fresh("d")
        tail = [("make", d, use), ("shout", ("var", d))] if r.random() < 0.5 else [("shout", use)]
        return defs + [cdef] + tail + self.shout_all((g,))

    # ---- call by value x argument evaluation order: f(.., g, .., m(), ..) where evaluating another
    #      argument (a call of a function writing g, or g.pop() itself) mutates the array that an
    #      earlier / later argument names; every parameter must hold the value of ITS evaluation point
    def arg_order_call(self):
        r = self.r
        cands = [a for a in self.arrays() if self.state[a] and vsize(self.state[a]) <= 80]
        if not cands:
            return None
        g0 = r.choice(cands)
        vg = self.state[g0]
        wrap = r.random() < 0.25          # the array is a function local captured by nested functions
        g = self.fresh("l") if wrap else g0
        mname, rname = self.fresh("f"), self.fresh("f")
        # the mutator: every mutation form, through a captured variable
        k = r.random()
        others = [a for a in self.small_arrays() if a != g0]
        if k < 0.4:
            mb = self.chain_mutation(g, vg)
            form = "chain"
        elif k < 0.8:
            mb = self.mutation(g, vg)
            form = "any"
        elif others and k < 0.9:
            mb = [("set", g, ("var", r.choice(others)))]
            form = "reassign"
        else:
            mb = [("set", g, self.arr_lit(1))]
            form = "reassign"
        if not mb:
            return None
        ret = r.choice(["len", "arr", "num"])
        mret = {"len": ("len", ("var", g)), "arr": ("var", g), "num": N(r.randint(0, 9))}[ret]
        mdef = ("fun", mname, [], mb + [("ret", mret)])
        # argument positions
        n = r.choice([2, 2, 3, 3, 4])
        kinds = [None] * n
        pos = r.sample(range(n), 2)
        kinds[pos[0]] = r.choice(["var", "var", "var", "idx"])
        kinds[pos[1]] = r.choice(["mcall", "mcall", "mcall", "popexpr"])
        for i in range(n):
            if kinds[i] is None:
                kinds[i] = r.choice(["var", "idx", "mcall", "popexpr", "lit", "lit"])
        args, is_arr = [], []
        for kd in kinds:
            if kd == "var":
                args.append(("var", g))
                is_arr.append(True)
            elif kd == "idx":
                eps = self.elem_paths(vg)
                pth = r.choice(eps)
                args.append(self.chain_expr(g, pth))
                is_arr.append(False)
            elif kd == "mcall":
                args.append(("call", mname, []))
                is_arr.append(ret == "arr" and form != "reassign")
            elif kd == "popexpr":
                args.append(("pop", (g, self.idx_exprs(self.pick_deep(self.array_paths(vg))))))
                is_arr.append(False)
            else:
                args.append(self.scalar())
                is_arr.append(False)
        params = ["%sp%d" % (rname, i) for i in range(n)]
        rb = [("shout", ("var", q)) for q in params]
        for q, ia in zip(params, is_arr):
            if ia and r.random() < 0.7:
                rb += self.mutation_unknown(q) + [("shout", ("var", q))]
        rb += [("shout", ("var", g)), ("ret", ("arr", [("var", q) for q in params]))]
        rdef = ("fun", rname, params, rb)
        call = ("call", rname, args)
        self.last_shape = "argorder"
        self.note("argorder_%s_%s%s" % (form, "mut_after" if pos[1] > pos[0] else "mut_before", "_wrapped" if wrap else ""))
        for kd in set(kinds):
            self.note("argorder_arg_" + kd)
        if wrap:
            wname = self.fresh("f")
            d = self.fresh("d")
            wb = [("make", g, self.lit_of(vg)), mdef, rdef, ("make", d, call), ("shout", ("var", d)), ("shout", ("var", g))]
            if r.random() < 0.5:
                wb += [("shout", ("call", rname, list(reversed(args)) if n == len(args) else args)), ("shout", ("var", g))]
            wb += [("ret", ("var", g))]
            return [("fun", wname, [], wb), ("shout", ("call", wname, []))] + self.shout_all((g0,))
        d = self.fresh("d")
        tail = [("make", d, call), ("shout", ("var", d))] if r.random() < 0.5 else [("shout", call)]
        return [mdef, rdef] + tail + self.shout_all((g0,))

    # ---- nested rows of a PARAMETER grown inside the callee (loop / nested call / recursion), with
    #      frame churn between the pushes and the reads; the caller's argument must not change
    def row_growth_call(self):
        r = self.r
        t = self.fresh("a")

        def row():
            return ("arr", [self.scalar() for _ in range(r.randint(0, 3))])
        depth3 = r.random() < 0.4
        if depth3:
            shape = [r.randint(1, 3) for _ in range(r.randint(1, 3))]
            lit = ("arr", [("arr", [row() for _ in range(m)]) for m in shape])
            paths = [(i, j) for i, m in enumerate(shape) for j in range(m)] + [(i,) for i in range(len(shape))]
        else:
            m = r.randint(1, 4)
            lit = ("arr", [row() for _ in range(m)])
            paths = [(i,) for i in range(m)]
        grow = r.sample(paths, min(len(paths), r.randint(1, 3)))
        f = self.fresh("f")
        p, n, i, sc = f + "p", f + "n", f + "i", f + "s"
        variant = r.choice(["loop", "loop", "nested", "rec"])
        helper = None
        if variant == "nested":
            helper = self.fresh("f")
            hx = helper + "x"
            hdef = ("fun", helper, [hx], [("make", helper + "t", ("arr", [("var", hx), ("arr", [("var", hx), self.scalar()])])),
                                          ("ret", r.choice([("var", helper + "t"), ("var", hx)]))])

        def pushes(ix):
            out = []
            for pth in grow:
                for _ in range(r.choice([1, 1, 2])):
                    x = r.choice([ix, ("arr", [ix, self.scalar()]), self.scalar(), self.scalar()])
                    if helper and r.random() < 0.6:
                        x = ("call", helper, [ix])
                    out.append(("push", (p, [N(c) for c in pth]), x))
            return out

        def churn(name, ix):
            return [("make", name, ("arr", [ix, ("arr", [ix, self.scalar(), ix]), ("var", p) if r.random() < 0.4 else self.scalar()]))]

        def read():
            pth = r.choice(grow)
            e = ("var", p)
            for c in pth:
                e = ("idx", e, N(c))
            return ("shout", r.choice([e, ("var", p), ("idx", e, N(0)), ("len", e)]))
        if variant == "rec":
            cnt = r.choice([1, 2, 3, 5])
            inner = [("set", i, ("bin", "add", ("var", i), N(1)))] + churn(sc, ("var", i)) + pushes(("var", i))
            body = [("if", ("bin", "small pass", ("var", n), N(1)), [read(), ("ret", ("var", p))], None),
                    ("make", i, N(0)), ("while", ("bin", "small pass", ("var", i), N(r.choice([1, 2, 4]))), inner)]
            body += churn(sc + "2", ("var", n)) + [read(), ("ret", ("call", f, [("var", p), ("bin", "minus", ("var", n), N(1))]))]
        else:
            cnt = r.choice([1, 2, 4, 8, 16, 20])
            inner = [("set", i, ("bin", "add", ("var", i), N(1)))] + churn(sc, ("var", i)) + pushes(("var", i))
            if r.random() < 0.7:
                inner += [("if", ("bin", "na", ("var", i), N(r.randint(1, max(1, cnt)))), [read()], None)]
            if r.random() < 0.3:
                inner += churn(sc + "3", ("var", i))
            body = [("make", i, N(0)), ("while", ("bin", "small pass", ("var", i), ("var", n)), inner)]
            body += churn(sc + "2", ("var", n)) + [read(), ("shout", ("var", p)), ("ret", ("var", p))]
        defs = ([hdef] if helper else []) + [("fun", f, [p, n], body)]
        out = self.fresh("d")
        use = [("make", t, lit), ("make", out, ("call", f, [("var", t), N(cnt)])), ("shout", ("var", out)), ("shout", ("var", t))]
        if r.random() < 0.4:
            use += [("shout", ("call", f, [("var", out), N(r.choice([1, 2, 3]))])), ("shout", ("var", out)), ("shout", ("var", t))]
        self.last_shape = "rowgrowth"
        self.note("rowgrowth_%s_d%d" % (variant, 3 if depth3 else 2))
        self.note("rowgrowth_pushes_%d" % cnt)
        return defs + use + self.shout_all((t,))

    # ---- rows that START EMPTY (values that own no buffer yet: [], [[]], ""), installed through every
    #      store form in one frame context (top level / loop body / callee / nested call) and grown in
    #      place LATER in another one (other loop iterations, other calls), several rows alternately,
    #      then read after that context ended
    def empty_rows_call(self):
        r = self.r
        m = r.randint(2, 4)
        t = self.fresh("a")
        wrap = r.random() < 0.3                      # the table is a local of a function
        form = r.choice(["literal", "setidx", "setidx", "setidx", "nested_setidx", "nested_setidx", "push", "nested_push",
                         "reassign", "return", "param", "captured", "captured"])
        place = r.choice(["top", "loop", "callee", "nested"])
        pre, funs, suffix = [], [], ()
        E = ("arr", [])

        def filled(k):
            return ("arr", [("arr", [r.choice([N(7 + j), self.scalar()])]) for j in range(k)])

        def per_row(mk_stmt):
            """the statement for every row: unrolled, in a loop over a counter, in a callee writing the
            captured table, or in a callee called from another callee"""
            if place == "loop":
                i = self.fresh("i")
                return [("make", i, N(0)), ("while", ("bin", "small pass", ("var", i), N(m)),
                                            [mk_stmt(("var", i)), ("set", i, ("bin", "add", ("var", i), N(1)))])]
            if place in ("callee", "nested"):
                f = self.fresh("f")
                body = [mk_stmt(N(j)) for j in range(m)]
                funs.append(("fun", f, [], body))
                if place == "nested":
                    f2 = self.fresh("f")
                    funs.append(("fun", f2, [], [("expr", ("call", f, [])), ("ret", N(0))]))
                    f = f2
                return [("expr", ("call", f, []))]
            return [mk_stmt(N(j)) for j in range(m)]
        if form == "literal":
            deep2 = r.random() < 0.4
            pre = [("make", t, ("arr", [("arr", [E]) if deep2 else r.choice([E, E, ("str", "")]) for _ in range(m)]))]
            if deep2:
                suffix = (0,)
            else:
                pre = [("make", t, ("arr", [E for _ in range(m)]))] if r.random() < 0.7 else pre
                if any(x[0] == "str" for x in pre[0][2][1]):
                    pre += per_row(lambda ix: ("setidx", (t, [ix]), E))
        elif form == "setidx":
            pre = [("make", t, filled(m))] + per_row(lambda ix: ("setidx", (t, [ix]), r.choice([E, E, E, ("arr", [E])])))
            if any(True for _ in ()):
                pass
        elif form == "nested_setidx":
            pre = [("make", t, ("arr", [("arr", [("arr", [N(j)]), self.scalar()]) for j in range(m)]))]
            pre += per_row(lambda ix: ("setidx", (t, [ix, N(0)]), E))
            suffix = (0,)
        elif form == "push":
            pre = [("make", t, E)] + per_row(lambda ix: ("push", (t, []), E))
        elif form == "nested_push":
            pre = [("make", t, filled(m))] + per_row(lambda ix: ("push", (t, [ix]), E))
            suffix = (1,)
        elif form == "reassign":
            pre = [("make", t, filled(1)), ("set", t, ("arr", [E for _ in range(m)]))]
        elif form == "return":
            f = self.fresh("f")
            if r.random() < 0.5:
                fb = [("ret", ("arr", [E for _ in range(m)]))]
            else:
                l = f + "l"
                fb = [("make", l, E)] + [("push", (l, []), E) for _ in range(m)] + [("ret", ("var", l))]
            funs.append(("fun", f, [], fb))
            pre = [("make", t, ("call", f, []))]
        elif form == "param":
            pre = [("make", t, ("arr", [E for _ in range(m)]))]
        else:   # captured: a function (re)installs the rows of the captured table
            pre = [("make", t, filled(m))]
            f = self.fresh("f")
            if r.random() < 0.5:
                fb = [("setidx", (t, [N(j)]), E) for j in range(m)]
            else:
                fb = [("set", t, ("arr", [E for _ in range(m)]))]
            funs.append(("fun", f, [], fb + [("ret", N(0))]))
            pre += [("expr", ("call", f, []))]
        # a row may have been installed as [[]] by the setidx form: grow its inner row then
        sfx = [N(c) for c in suffix]

        def val(ix):
            return r.choice([ix, ix, ("arr", [ix, self.scalar()]), self.scalar()])

        def churn(ix):
            return [("make", self.fresh("t"), ("arr", [ix, ("arr", [ix, self.scalar()]), self.scalar()]))] if r.random() < 0.5 else []
        gplace = r.choice(["loop_counter", "rounds", "rounds", "call", "call_loop", "callee_loop"] if form != "param" else ["callee_loop"])
        tv = t
        grow = []
        if gplace == "loop_counter":
            k = self.fresh("i")
            grow = [("make", k, N(0)), ("while", ("bin", "small pass", ("var", k), N(m)),
                                        churn(("var", k)) + [("push", (tv, [("var", k)] + sfx), val(("var", k))),
                                                             ("shout", ("idx", ("var", tv), N(0))),
                                                             ("set", k, ("bin", "add", ("var", k), N(1)))])]
        elif gplace == "rounds":
            k = self.fresh("i")
            rounds = r.choice([2, 3, 5, 9])
            order = list(range(m))
            r.shuffle(order)
            inner = churn(("var", k))
            for j in order:
                inner += [("push", (tv, [N(j)] + sfx), val(("var", k)))]
            inner += [("shout", ("idx", ("var", tv), N(order[0]))), ("set", k, ("bin", "add", ("var", k), N(1)))]
            grow = [("make", k, N(0)), ("while", ("bin", "small pass", ("var", k), N(rounds)), inner)]
        elif gplace in ("call", "call_loop"):
            g = self.fresh("f")
            gk = g + "k"
            funs.append(("fun", g, [gk], churn(("var", gk)) + [("push", (tv, [("var", gk)] + sfx), val(("var", gk))),
                                                               ("ret", ("len", ("var", tv)))]))
            if gplace == "call":
                for _ in range(r.choice([1, 2, 3])):
                    for j in range(m):
                        grow += [("expr", ("call", g, [N(j)]))]
                    grow += [("shout", ("idx", ("var", tv), N(0)))]
            else:
                k = self.fresh("i")
                grow = [("make", k, N(0)), ("while", ("bin", "small pass", ("var", k), N(m)),
                                            [("shout", ("call", g, [("var", k)])), ("shout", ("idx", ("var", tv), N(0))),
                                             ("set", k, ("bin", "add", ("var", k), N(1)))])]
        else:   # callee_loop: the table is passed, the callee grows its parameter's rows in its own loop
            g = self.fresh("f")
            gp, gi = g + "p", g + "i"
            rounds = r.choice([1, 2, 3, 5])
            inner = churn(("var", gi))
            for j in range(m):
                inner += [("push", (gp, [N(j)] + sfx), val(("var", gi)))]
            inner += [("shout", ("idx", ("var", gp), N(0))), ("set", gi, ("bin", "add", ("var", gi), N(1)))]
            funs.append(("fun", g, [gp], [("make", gi, N(0)), ("while", ("bin", "small pass", ("var", gi), N(rounds)), inner),
                                          ("shout", ("var", gp)), ("ret", ("var", gp))]))
            d = self.fresh("d")
            grow = [("make", d, ("call", g, [("var", tv)])), ("shout", ("var", d)), ("shout", ("var", tv)),
                    ("make", tv + "x", ("call", g, [("var", d)])), ("shout", ("var", tv + "x")), ("shout", ("var", d))]
        post = [("shout", ("var", tv))] + [("shout", ("idx", ("var", tv), N(j))) for j in range(m)]
        self.last_shape = "emptyrows"
        self.note("emptyrows_%s_%s_grow_%s%s" % (form, place if form in ("setidx", "nested_setidx", "push", "nested_push") else "-",
                                                  gplace, "_wrapped" if wrap else ""))
        if wrap:
            w = self.fresh("f")
            return [("fun", w, [], funs_after_make(pre, funs) + grow + post + [("ret", ("var", tv))]),
                    ("shout", ("call", w, []))] + self.shout_all()
        return funs_after_make(pre, funs) + grow + post + self.shout_all((t,))

    # ---- one top-level action -> candidate statement list
    def action(self, inner=False):
        r = self.r
        arrs = self.arrays()
        k = r.random()
        if not arrs or (k < 0.08 and len(arrs) < 7):
            n = self.fresh("a")
            self.note("new_array")
            return [("make", n, self.arr_lit(1))]
        a = r.choice(arrs)
        va = self.state[a]
        if k < 0.30:
            # ---- copies
            m = r.random()
            if m < 0.3:
                b = self.fresh("b")
                self.note("copy_make")
                return [("make", b, ("var", a))] + self.shout_all((b,))
            if m < 0.42:
                ps = [p for p in self.array_paths(va) if p]
                if ps:
                    b = self.fresh("b")
                    self.note("copy_make_sub")
                    return [("make", b, self.chain_expr(a, r.choice(ps)))] + self.shout_all((b,))
            if m < 0.56:
                b = r.choice(arrs)
                self.note("copy_assign" if b != a else "copy_self_assign")
                return [("set", b, ("var", a))] + self.shout_all()
            if m < 0.7:
                c = self.fresh("c")
                self.note("copy_into_literal")
                xs = [("var", a), self.scalar(), ("var", r.choice(arrs))]
                r.shuffle(xs)
                return [("make", c, ("arr", xs))] + self.shout_all((c,))
            c = r.choice(arrs)
            vc = self.state[c]
            if m < 0.85:
                ap = self.pick_deep(self.array_paths(vc))
                self.note("copy_push_into")
                return [("push", (c, self.idx_exprs(ap)), ("var", a))] + self.shout_all()
            p = self.pick_deep(self.elem_paths(vc))
            if p is not None:
                self.note("copy_store_into")
                return [("setidx", (c, self.idx_exprs(p)), ("var", a))] + self.shout_all()
            return [("push", (c, []), ("var", a))] + self.shout_all()
        if k < 0.56:
            return self.mutation(a, va) + self.shout_all()
        if k < 0.74 and not inner and r.random() < 0.5:
            sc = r.choice([self.shadow_call, self.arg_order_call, self.arg_order_call, self.row_growth_call, self.row_growth_call,
                           self.empty_rows_call, self.empty_rows_call, self.empty_rows_call])()
            if sc:
                return sc
        if k < 0.74 and not inner:
            # ---- functions: define and/or call
            if not self.funcs or (len(self.funcs) < 5 and r.random() < 0.45):
                f, defn = self.new_function()
                self.funcs.append(f)
                return defn
            f = r.choice(self.funcs)
            ce = self.call_expr(f)
            if ce is None:
                return None
            call, passed = ce
            self.note("call_" + f["kind"])
            m = r.random()
            if m < 0.5:
                d = self.fresh("d")
                return [("make", d, call), ("shout", ("var", d))] + self.shout_all()
            if m < 0.75:
                return [("shout", call)] + self.shout_all()
            return [("expr", call)] + self.shout_all()
        if k < 0.74 and inner and self.funcs:
            f = r.choice(self.funcs)
            ce = self.call_expr(f)
            if ce is None:
                return None
            self.note("call_inner_" + f["kind"])
            return [("shout", ce[0])] + self.shout_all()
        if k < 0.84 and not inner:
            # ---- loop: copy + mutate inside
            i = self.fresh("i")
            n = r.randint(1, 3)
            body = [("set", i, ("bin", "add", ("var", i), N(1)))]
            for _ in range(r.randint(1, 3)):
                m = r.random()
                if m < 0.3:
                    t = self.fresh("t")
                    body += [("make", t, ("var", a))] + self.mutation(t, va) + [("shout", ("var", t)), ("shout", ("var", a))]
                    self.note("loop_local_copy")
                elif m < 0.4 and va and len(va) >= n:
                    body += [("setidx", (a, [("bin", "minus", ("var", i), N(1))]), self.rhs())] + self.shout_all()
                    self.note("loop_counter_index")
                else:
                    st = self.action(inner=True)
                    if st:
                        body += st
            self.note("loop")
            return [("make", i, N(0)), ("while", ("bin", "small pass", ("var", i), N(n)), body)] + self.shout_all()
        if k < 0.92 and not inner:
            cond = ("bin", "pass", ("len", ("var", a)), N(r.randint(0, 3)))
            th = self.action(inner=True) or []
            el = (self.action(inner=True) or []) if r.random() < 0.5 else None
            self.note("if")
            return [("if", cond, th, el)] + self.shout_all()
        if not inner:
            t = self.fresh("t")
            self.note("block_local_copy")
            return [("block", [("make", t, ("var", a))] + self.mutation(t, va) + [("shout", ("var", t)), ("shout", ("var", a))]
                     + self.mutation(a, va) + [("shout", ("var", t)), ("shout", ("var", a))])]
        return self.mutation(a, va) + self.shout_all()

    def refresh(self, items):
        ending, vals, ref = reference(items)
        st = {n: b.v for n, b in ref.globals.items()}
        return ending, st

    def build(self):
        r = self.r
        self.items = [("make", "k0", N(0)), ("make", "k1", N(1))]
        for _ in range(r.randint(1, 3)):
            self.items.append(("make", self.fresh("a"), self.arr_lit(1)))
        _, self.state = self.refresh(self.items)
        tries = actions = 0
        while actions < self.size and tries < self.size * 4:
            tries += 1
            self.last_shape = None
            cand = self.action()
            if not cand:
                continue
            ending, st = self.refresh(self.items + cand)
            if ending == "limit" or any(isinstance(v, list) and (vsize(v) > 1500 or vdepth(v) > 9) for v in st.values()):
                names = {c[1] for c in cand if c[0] == "fun"}
                self.funcs = [f for f in self.funcs if f["name"] not in names]
                continue
            if ending != "ok":
                # mostly drop statements that stop the program; keep a few to exercise the error paths
                if r.random() < 0.04:
                    self.items += cand
                    self.note("ends_with_error")
                    break
                names = {c[1] for c in cand if c[0] == "fun"}
                self.funcs = [f for f in self.funcs if f["name"] not in names]
                continue
            self.items += cand
            self.state = st
            actions += 1
            if self.last_shape:
                self.note("kept_" + self.last_shape)
        if r.random() < 0.15:
            self.items += self.error_tail()
        return self.items

    def error_tail(self):
        """a last statement that must stop the program with a definite error: index >= length
        (Index out of bounds), negative index (Index out of bounds), fractional index or an index
        chain through a non-array (Invalid index), push/pop/reverse on a non-array element (Type
        mismatch) -- at a random depth; nothing after it may be printed"""
        r = self.r
        arrs = self.arrays()
        if not arrs:
            return []
        a = r.choice(arrs)
        va = self.state[a]
        ap = r.choice(self.array_paths(va))
        sub = va
        for i in ap:
            sub = sub[i]
        scal = [p for p in self.elem_paths(va) if not isinstance(self.at(va, p), list) and len(p) < self.MAXPATH]
        k = r.random()
        self.note("error_tail")
        if k < 0.3:
            st = ("setidx", (a, self.idx_exprs(ap) + [N(len(sub) + r.choice([0, 0, 1, 5]))]), self.scalar())
        elif k < 0.4:
            st = ("push", (a, self.idx_exprs(ap) + [N(len(sub))]), self.scalar())
        elif k < 0.5:
            st = ("setidx", (a, self.idx_exprs(ap) + [("bin", "minus", N(0), N(1))]), self.scalar())
        elif k < 0.6:
            st = ("setidx", (a, self.idx_exprs(ap) + [("num", "0.5")]), self.scalar())
        elif scal and k < 0.8:
            p = r.choice(scal)
            st = ("setidx", (a, self.idx_exprs(p) + [N(0)]), self.scalar())
        elif scal:
            p = r.choice(scal)
            st = r.choice([("push", (a, self.idx_exprs(p)), self.scalar()), ("rev", (a, self.idx_exprs(p))),
                           ("shout", ("pop", (a, self.idx_exprs(p))))])
        else:
            st = ("shout", self.chain_expr(a, ap + (len(sub),)))
        return [st] + self.shout_all()

    @staticmethod
    def at(v, p):
        for i in p:
            v = v[i]
        return v


def funs_after_make(pre, funs):
    """the table is declared first (functions that capture it are defined after its declaration), then
    the function definitions, then the rest of the installation statements"""
    return pre[:1] + funs + pre[1:]


def gen_structured(rng, size):
    g = ProgGen(rng, size)
    items = g.build()
    return items, g.kinds


# =====================================================================================
# generic generator with alias probes

class AliasGen(langgen.Gen):
    """langgen.Gen plus probes.  A probe prints a witness value, mutates another name that was
    made from / stored with the same array, and prints the witness again, between markers.
    Witnesses are printed as `to_string(x)`: a text snapshot taken at that moment (the harness
    reads Runtime.output after the run, so a printed *array* that shared storage with a variable
    would change retroactively and the two prints would compare equal again)."""

    def __init__(self, rng, opts):
        super().__init__(rng, opts)
        self.probe_id = 0

    def lit_for(self, elem):
        if elem == langgen.STR:
            return self.r.choice(['"p"', '"probe"', '"' + "L" * self.r.choice([9, 33, 130, 260]) + '"'])
        if elem == langgen.BOOL:
            return self.r.choice(["true", "false"])
        if elem == langgen.ARR:
            return self.r.choice(["[1]", '["s", [2]]', "[]"])
        return str(self.r.randint(0, 9))

    def probe(self, ind, target=None):
        r = self.r
        pad = "  " * ind
        arrs = self.visible(langgen.ARR)
        if target is None and not arrs:
            return None
        a = target or r.choice(arrs)
        self.probe_id += 1
        k = self.probe_id
        self.counter += 1
        c = "c%d" % self.counter
        op, cl = '"@<%d"' % k, '"@>%d"' % k
        m = r.random()
        nested = a.elem == langgen.ARR and a.minlen > 0      # a[0] is an array: probe one level down too
        if m < 0.4:
            # mutate the source through a shape-preserving route, witness = the copy
            mk = r.random()
            scalar_elem = a.elem in (langgen.NUM, langgen.STR, langgen.BOOL)
            if nested and mk < 0.7:
                j = r.randrange(a.minlen)
                mut = r.choice(["%s[%d].push(%s)" % (a.name, j, self.lit_for(langgen.NUM)), "%s[%d].reverse()" % (a.name, j),
                                "if to say (%s[%d].len() pass 0) start %s[%d][0] get %s end" % (a.name, j, a.name, j, self.lit_for(langgen.NUM))])
            elif scalar_elem and mk < 0.45:
                mut = "%s.push(%s)" % (a.name, self.lit_for(a.elem))
            elif scalar_elem and a.minlen > 0 and mk < 0.8:
                mut = "%s[%d] get %s" % (a.name, r.randrange(a.minlen), self.lit_for(a.elem))
            else:
                mut = "%s.reverse()" % a.name
            self.stat("probe_mutate_source" + ("_nested" if nested and "[" in mut else ""))
            return ["%smake %s get %s" % (pad, c, a.name), "%sshout(%s)" % (pad, op), "%sshout(to_string(%s))" % (pad, c),
                    pad + mut, "%sshout(to_string(%s))" % (pad, c), "%sshout(%s)" % (pad, cl), "%sshout(%s)" % (pad, a.name)]
        if m < 0.8:
            # mutate the copy any way, witness = the source
            mk = r.random()
            if nested and mk < 0.6:
                j = r.randrange(a.minlen)
                mut = r.choice(["%s[%d].push(%s)" % (c, j, self.lit_for(r.choice([langgen.NUM, langgen.STR, langgen.ARR]))),
                                "%s[%d].reverse()" % (c, j), "%s[%d].pop()" % (c, j),
                                "if to say (%s[%d].len() pass 0) start %s[%d][0] get %s end" % (c, j, c, j, self.lit_for(r.choice([langgen.NUM, langgen.STR, langgen.ARR])))])
                self.stat("probe_mutate_copy_nested")
            elif mk < 0.3:
                mut = "%s.push(%s)" % (c, self.lit_for(r.choice([langgen.NUM, langgen.STR, langgen.ARR])))
            elif mk < 0.45:
                mut = "%s.reverse()" % c
            elif mk < 0.6:
                mut = "%s.pop()" % c
            elif mk < 0.8:
                mut = "if to say (%s.len() pass 0) start %s[0] get %s end" % (c, c, self.lit_for(r.choice([langgen.NUM, langgen.STR, langgen.ARR])))
            else:
                mut = "%s.push(%s)" % (c, a.name)
            self.stat("probe_mutate_copy")
            return ["%smake %s get %s" % (pad, c, a.name), "%sshout(%s)" % (pad, op), "%sshout(to_string(%s))" % (pad, a.name),
                    pad + mut, "%sshout(to_string(%s))" % (pad, a.name), "%sshout(%s)" % (pad, cl), "%sshout(%s)" % (pad, c)]
        # stored twice in another array: mutate one element, witnesses = the other element and the source
        muts = ["%s[0].push(%s)" % (c, self.lit_for(langgen.NUM)), "%s[0].reverse()" % c, "%s[0].pop()" % c,
                "%s[0] get [%s]" % (c, self.lit_for(langgen.STR))]
        if nested:
            muts += ["%s[0][0].push(%s)" % (c, self.lit_for(langgen.NUM)), "%s[0][0].reverse()" % c,
                     "%s[0][0] get %s" % (c, self.lit_for(langgen.STR))] * 2
        mut = r.choice(muts)
        self.stat("probe_stored")
        return ["%smake %s get [%s, %s]" % (pad, c, a.name, a.name), "%sshout(%s)" % (pad, op),
                "%sshout(to_string([%s[1], %s]))" % (pad, c, a.name), pad + mut,
                "%sshout(to_string([%s[1], %s]))" % (pad, c, a.name), "%sshout(%s)" % (pad, cl), "%sshout(%s)" % (pad, c)]

    def shadow_probe(self, g):
        """same name, different variable: a function writes the top-level array `g` through an index
        chain while its caller owns an independent parameter/local that is also called `g`; the
        caller's array is the witness (and the global is printed afterwards for the model tie)"""
        r = self.r
        self.probe_id += 1
        k = self.probe_id
        self.counter += 1
        callee, caller = "sg%d" % self.counter, "sh%d" % self.counter
        j = r.randrange(3)
        mut = r.choice(["%s[%d].push(%s)" % (g, j, self.lit_for(r.choice([langgen.NUM, langgen.STR, langgen.ARR]))),
                        "%s[%d].reverse()" % (g, j), "%s[%d].pop()" % (g, j),
                        "%s[%d][0] get %s" % (g, j, self.lit_for(r.choice([langgen.NUM, langgen.STR]))),
                        "%s[%d] get [%s]" % (g, j, self.lit_for(langgen.STR))])
        other = '[["p", 1, [2]], [3, 4, [5]], ["q", "%s"]]' % ("y" * r.choice([2, 20, 280]))
        core = ['shout("@<%d")' % k, "shout(to_string(%s))" % g, "%s()" % callee, "shout(to_string(%s))" % g, 'shout("@>%d")' % k]
        v = r.random()
        lines = ["do %s() start" % callee, "  " + mut, "end"]
        if v < 0.4:
            lines += ["do %s(%s) start" % (caller, g)] + ["  " + c for c in core] + ["  return %s" % g, "end",
                                                                                    "shout(%s(%s))" % (caller, other)]
            self.stat("probe_shadow_param")
        elif v < 0.7:
            lines += ["do %s() start" % caller, "  make %s get %s" % (g, other)] + ["  " + c for c in core] + ["  return %s" % g, "end",
                                                                                                              "shout(%s())" % caller]
            self.stat("probe_shadow_local")
        else:
            lines += ["do %s(%s, k) start" % (caller, g), "  if to say (k small pass 1) start"] + ["    " + c for c in core] + \
                     ["    return %s" % g, "  end", "  %s.push(k)" % g, "  return %s(%s, k minus 1)" % (caller, g), "end",
                      "shout(%s(%s, %d))" % (caller, other, r.randint(0, 2))]
            self.stat("probe_shadow_rec")
        return lines + ["shout(%s)" % g]

    def empty_rows_probe(self):
        """rows installed EMPTY (index assignment / push / literal / from a callee) and grown one value per
        loop iteration or per call, alternately; row j must end up as exactly [j] (x rounds) whatever
        happened to the frame between the pushes.  Witness: to_string(row) against the literal text."""
        r = self.r
        self.probe_id += 1
        k = self.probe_id
        self.counter += 1
        e, i, f = "er%d" % self.counter, "ei%d" % self.counter, "ef%d" % self.counter
        m = r.randint(2, 4)
        form = r.choice(["setidx", "setidx", "push", "literal", "callee"])
        if form == "setidx":
            lines = ["make %s get [%s]" % (e, ", ".join("[%d]" % (7 + j) for j in range(m)))] + ["%s[%d] get []" % (e, j) for j in range(m)]
        elif form == "push":
            lines = ["make %s get []" % e] + ["%s.push([])" % e for _ in range(m)]
        elif form == "literal":
            lines = ["make %s get [%s]" % (e, ", ".join("[]" for _ in range(m)))]
        else:
            lines = ["make %s get [%s]" % (e, ", ".join('["s"]' for _ in range(m))), "do %s() start" % f] + \
                    ["  %s[%d] get []" % (e, j) for j in range(m)] + ["end", "%s()" % f]
        rounds = r.choice([1, 2, 3])
        if r.random() < 0.5:
            lines += ["make %s get 0" % i, "jasi (%s small pass %d) start" % (i, m * rounds),
                      "  %s[%s mod %d].push(%s mod %d)" % (e, i, m, i, m), "  %s get %s add 1" % (i, i), "end"]
        else:
            lines += ["do %sg(j) start" % f, "  make %st get [j, [j, j]]" % f, "  %s[j].push(j)" % e, "end"]
            for _ in range(rounds):
                lines += ["%sg(%d)" % (f, j) for j in range(m)]
        j = r.randrange(m)
        want = "[" + ", ".join([str(j)] * rounds) + "]"
        lines += ['shout("@<%d")' % k, "shout(to_string(%s[%d]))" % (e, j), 'shout("%s")' % want, 'shout("@>%d")' % k, "shout(%s)" % e]
        self.stat("probe_empty_rows_" + form)
        return lines

    def argorder_probe(self, g):
        """call by value x evaluation order: `f(g, m())` / `f(m(), g)` where m() mutates the top-level
        array g.  The parameter bound to `g` must be g's value at the moment that argument was
        evaluated (left to right): the witness is a text snapshot of g taken before the call (g
        first) or after it (m() first), compared with the text of the parameter made in the callee."""
        r = self.r
        self.probe_id += 1
        k = self.probe_id
        self.counter += 1
        m, f = "am%d" % self.counter, "ar%d" % self.counter
        j = r.randrange(3)
        mut = r.choice(["%s[%d].push(%s)" % (g, j, self.lit_for(r.choice([langgen.NUM, langgen.STR, langgen.ARR]))),
                        "%s[%d].reverse()" % (g, j), "%s[%d].pop()" % (g, j), "%s.reverse()" % g,
                        "%s[%d][0] get %s" % (g, j, self.lit_for(r.choice([langgen.NUM, langgen.STR]))),
                        "%s.push([%s])" % (g, self.lit_for(langgen.NUM)), "%s[%d] get [%s]" % (g, j, self.lit_for(langgen.STR))])
        lines = ["do %s() start" % m, "  " + mut, "  return %s.len()" % g, "end"]
        extra = r.random() < 0.4           # a third argument: the array again, after the mutation
        if r.random() < 0.5:
            # g first, then the mutating call: the parameter is g as it was BEFORE the call
            lines += ["do %s(x, y%s) start" % (f, ", z" if extra else ""), "  return to_string(x)", "end",
                      'shout("@<%d")' % k, "shout(to_string(%s))" % g, "shout(%s(%s, %s()%s))" % (f, g, m, ", " + g if extra else ""),
                      'shout("@>%d")' % k]
            self.stat("probe_argorder_var_first")
        else:
            # the mutating call first: the parameter is g as it is AFTER the call
            lines += ["do %s(y, x%s) start" % (f, ", z" if extra else ""), "  return to_string(x)", "end",
                      'shout("@<%d")' % k, "shout(%s(%s(), %s%s))" % (f, m, g, ", " + m + "()" if extra else "")]
            if extra:
                # a second mutating call after g was evaluated must not reach x either: undo is not
                # possible, so take the witness from a copy made by the first mutator's caller instead
                lines = lines[:-1] + ["make cw%d get [0]" % k,
                                      "do %sw() start" % m, "  %s()" % m, "  cw%d get [to_string(%s)]" % (k, g), "  return 0", "end",
                                      "shout(%s(%sw(), %s, %s()))" % (f, m, g, m), "shout(cw%d[0])" % k, 'shout("@>%d")' % k]
            else:
                lines += ["shout(to_string(%s))" % g, 'shout("@>%d")' % k]
            self.stat("probe_argorder_call_first")
        return lines + ["shout(%s)" % g]

    def stmt(self, ind):
        if self.r.random() < 0.22:
            p = self.probe(ind)
            if p:
                return p
        return super().stmt(ind)

    def program(self):
        n = self.r.randint(3, self.o.max_stmts)
        lines = self.block(n, 0, new_scope=False)
        # probes that always run (unless the program stopped earlier): at top level, at the end,
        # on whatever arrays are visible and on a nested array made for the purpose
        self.counter += 1
        nm = "w%d" % self.counter
        lines.append('make %s get [[1, "s", [0]], [true, null, [2.5]], ["%s"]]' % (nm, "z" * self.r.choice([3, 40, 300])))
        w = self.declare(nm, langgen.ARR, langgen.ARR, 3)
        for _ in range(self.r.randint(1, 3)):
            lines += self.probe(0) or []
        for _ in range(self.r.randint(2, 3)):
            lines += self.probe(0, target=w)
        for _ in range(self.r.randint(1, 2)):
            lines += self.shadow_probe(nm)
        for _ in range(self.r.randint(1, 2)):
            lines += self.argorder_probe(nm)
        lines += self.empty_rows_probe()
        for v in self.visible()[:4]:
            if v.ty in (langgen.NUM, langgen.STR, langgen.BOOL, langgen.ARR, langgen.NULL):
                lines.append("shout(%s)" % v.name)
        return "\n".join(lines) + "\n"


def gen_generic(rng):
    o = langgen.Opts(alias_heavy=True, max_stmts=16, p_fn=0.22, p_loop=0.18, p_trap=0.01, p_unused=0.05, p_dead=0.04,
                     str_long=0.2, p_capture_write=0.0)
    if rng.random() < 0.3:
        # heavy name reuse: locals of functions and blocks shadow outer variables of the same name
        o.name_pool = ["va", "vb", "tab", "row", "arr", "acc"]
        o.p_shadow = 0.4
    g = AliasGen(rng, o)
    src = g.program()
    if o.name_pool:
        g.stat("name_pool_programs")
    return src, g.stats


def probe_check(vals):
    """-> (completed probes, list of violated probe ids).  vals: the printed values of one run."""
    toks = split_values(vals)
    done, bad = 0, []
    i = 0
    while i < len(toks):
        t = toks[i]
        if t.startswith("s:") and i + 3 < len(toks):
            try:
                txt = bytes.fromhex(t[2:]).decode("utf-8", "replace")
            except ValueError:
                txt = ""
            if txt.startswith("@<"):
                close = "s:" + ("@>" + txt[2:]).encode().hex()
                if toks[i + 3] == close:
                    done += 1
                    if toks[i + 1] != toks[i + 2]:
                        bad.append(txt[2:])
                    i += 4
                    continue
        i += 1
    return done, bad


def split_values(vals):
    """printed values are separated by single spaces; array values contain no spaces"""
    return vals.split(" ") if vals else []


# =====================================================================================
# the check

def oracle_structured(rec, exp_ending, exp_vals, cfgs):
    """-> list of (cfg, observed ending, observed values) that differ from the reference"""
    bad = []
    for cfg in cfgs:
        if cfg not in rec["runs"]:
            continue
        e, v = rec["runs"][cfg]
        c = langrun.ending_class(e)
        if c in ("err:Stack_overflow", "timeout"):
            continue
        if (c, v) != (exp_ending, exp_vals):
            bad.append((cfg, langrun.panic_text(e)[:200], v))
    return bad


def first_diff(a, b):
    ta, tb = split_values(a), split_values(b)
    for i, (x, y) in enumerate(zip(ta, tb)):
        if x != y:
            return {"index": i, "expected": x[:300], "observed": y[:300]}
    return {"index": min(len(ta), len(tb)), "expected_count": len(ta), "observed_count": len(tb)}


def run_one(env, name, src, cfgs, release=False):
    recs = langrun.run_impl(env, name, [("x", src)], cfgs, release=release, timeout=120)
    return recs.get("x")


def shrink_structured(env, items, cfgs, release):
    """greedy removal of top-level statements while the oracle still fails"""
    def failing(its):
        try:
            ending, vals, _ = reference(its)
        except (AssertionError, KeyError, ValueError):
            return False
        if ending == "limit":
            return False
        rec = run_one(env, "shrink", program_text(its), cfgs, release)
        if not rec or not rec.get("accepted"):
            return False
        return bool(oracle_structured(rec, ending, vals, cfgs))
    cur = list(items)
    budget = 120
    changed = True
    while changed and budget > 0:
        changed = False
        i = 0
        while i < len(cur) and budget > 0:
            cand = cur[:i] + cur[i + 1:]
            budget -= 1
            if failing(cand):
                cur = cand
                changed = True
            else:
                i += 1
    return cur


def run_model_robust(env, name, recs, order, skipped):
    """langrun.run_model, but a crash of the model executable (native stack overflow of the OCaml
    program on a generated program whose strings grow geometrically) only loses that one case:
    the records completed before the crash are kept, the case it died on is recorded in
    `skipped` (counted inconclusive), and the rest of the batch is run again."""
    out = {}
    remaining = list(order)
    part = 0
    while remaining:
        nm = "%s.m%d" % (name, part)
        part += 1
        try:
            out.update(langrun.run_model(env, nm, recs, remaining))
            break
        except RuntimeError as ex:
            fed = [c for c in remaining if recs.get(c) and recs[c].get("ast") and recs[c].get("plan")]
            path = os.path.join(env.work, nm + ".model")
            partial = langrun.parse_records(open(path).read().splitlines()) if os.path.exists(path) else {}
            died = None
            for c in fed:
                if c in partial and partial[c].get("complete"):
                    out[c] = partial[c]
                else:
                    died = c
                    break
            if died is None or part > 20:
                break
            skipped.append({"case": died, "reason": str(ex)[-160:].strip()})
            remaining = fed[fed.index(died) + 1:]
    return out


def correspond(env, searching=False, model=True):
    rng = env.rng
    thorough = env.tier == "thorough"
    n_struct = 8000 if thorough else 400
    n_generic = 5000 if thorough else 240
    if searching:
        n_struct, n_generic = n_struct * 2, n_generic * 2
    res = {"evaluations": 0, "distinct_nontrivial": 0,
           "rule": "structured: the reference interpreter saw an array value travel from one variable slot to another "
                   "(make/assign/store into an array/parameter/return) and later a mutation (index assignment, push, pop, "
                   "reverse) through one of the two slots, all array variables printed after it; generic: at least one alias "
                   "probe (witness printed, other name mutated, witness printed again) ran to completion; distinct by hash of the source",
           "samples": [], "failures": [], "disagreements": [], "extra": {}}
    profiles = [False] + ([True] if thorough else [])
    if thorough:
        ok, out = common.build_harness(release=True)
        if not ok:
            env.log("release harness build failed:\n" + out[-1500:])
            profiles = [False]

    # ---------------- structured stream
    cases, meta = [], {}
    kinds_total = {}
    for i in range(n_struct):
        size = rng.choice([6, 9, 12, 16, 20]) if not thorough else rng.choice([6, 9, 12, 16, 20, 28])
        items, kinds = gen_structured(rng, size)
        ending, vals, ref = reference(items)
        src = program_text(items)
        cid = "s%d" % i
        cases.append((cid, src))
        meta[cid] = (items, ending, vals, ref.stats)
        for k, v in kinds.items():
            kinds_total[k] = kinds_total.get(k, 0) + v
    ref_totals, seen = {}, set()
    rejected, endings = 0, {}
    model_status = {"agree": 0, "inconclusive": 0, "disagree": 0}
    model_skipped = []
    batch = 400
    for release in profiles:
        for b0 in range(0, len(cases), batch):
            part = cases[b0:b0 + batch]
            name = "c05s%s%d" % ("r" if release else "d", b0)
            recs = langrun.run_impl(env, name, part, CFGS, release=release, timeout=1200)
            mrecs = {}
            if model and not release:
                mrecs = run_model_robust(env, name, recs, [c for c, _ in part], model_skipped)
            for cid, src in part:
                rec = recs.get(cid)
                items, ending, vals, stats = meta[cid]
                if rec is None:
                    continue
                res["evaluations"] += 1
                if not rec.get("accepted"):
                    rejected += 1
                    if rejected <= 3:
                        res["extra"].setdefault("rejected_examples", []).append({"src": src[:1500], "diags": rec["diags"][:3]})
                    continue
                if not release:
                    endings[ending] = endings.get(ending, 0) + 1
                    for k, v in stats.items():
                        ref_totals[k] = ref_totals.get(k, 0) + v
                    if stats.get("mut_after_copy", 0) > 0:
                        h = common.chash(src)
                        if h not in seen:
                            seen.add(h)
                            res["distinct_nontrivial"] += 1
                            if len(res["samples"]) < 3:
                                res["samples"].append({"stream": "structured", "src": src[:1200], "expected": (ending, vals[:300])})
                bad = oracle_structured(rec, ending, vals, CFGS)
                if bad:
                    small = shrink_structured(env, items, CFGS, release) if len(res["failures"]) < 3 else items
                    e2, v2, _ = reference(small)
                    src2 = program_text(small)
                    rec2 = run_one(env, "final", src2, CFGS, release) or rec
                    bad2 = oracle_structured(rec2, e2, v2, CFGS) or bad
                    plan_only = all(c in ("pn", "pf") for c, _, _ in bad2)
                    res["failures"].append({
                        "key": ("c05-planonly-" if plan_only else "c05-ref-") + common.chash(src2),
                        "stream": "structured-vs-reference" + (" (only with the optimisation plan: pruning, see C03)" if plan_only else ""),
                        "profile": "release" if release else "debug",
                        "case": src2, "expected": {"ending": e2, "values": v2},
                        "observed": [{"cfg": c, "ending": e, "values": v[:4000]} for c, e, v in bad2],
                        "first_difference": first_diff(v2, bad2[0][2]), "original": src if src2 != src else None})
                if model and not release and cid in mrecs:
                    st, detail = langcheck.compare(rec, mrecs.get(cid), cfgs=CFGS)
                    model_status[st] += 1
                    if st == "disagree":
                        res["disagreements"].append({"stream": "model-vs-impl(structured)", "case": src, "detail": detail})
                elif model and not release:
                    model_status["inconclusive"] += 1

    # ---------------- generic stream with probes
    gcases, gstats = [], {}
    for i in range(n_generic):
        src, st = gen_generic(rng)
        gcases.append(("g%d" % i, src))
        for k, v in st.items():
            if k.startswith("probe") or k in ("name_pool_programs", "array_copy", "push", "pop", "reverse", "index_assign", "nested_index_assign"):
                gstats[k] = gstats.get(k, 0) + v
    g_accepted = g_probes = g_with_probe = 0
    for release in profiles:
        for b0 in range(0, len(gcases), batch):
            part = gcases[b0:b0 + batch]
            name = "c05g%s%d" % ("r" if release else "d", b0)
            recs = langrun.run_impl(env, name, part, CFGS, release=release, timeout=1200)
            mrecs = {}
            if model and not release:
                mrecs = run_model_robust(env, name, recs, [c for c, _ in part], model_skipped)
            for cid, src in part:
                rec = recs.get(cid)
                if rec is None:
                    continue
                res["evaluations"] += 1
                if not rec.get("accepted"):
                    continue
                if not release:
                    g_accepted += 1
                most = 0
                for cfg in CFGS:
                    if cfg not in rec["runs"]:
                        continue
                    e, v = rec["runs"][cfg]
                    done, bad = probe_check(v)
                    most = max(most, done)
                    if bad:
                        res["failures"].append({
                            "key": "c05-probe-" + common.chash(src), "stream": "alias-probe",
                            "profile": "release" if release else "debug", "case": src,
                            "observed": {"cfg": cfg, "ending": langrun.panic_text(e)[:200], "violated_probes": bad[:5]}})
                        break
                else:
                    # frame arena on/off must print the same (sharing bugs tend to depend on the arena mode);
                    # plan on/off is C03's oracle and is not repeated here
                    for x, y in (("nn", "nf"), ("pn", "pf")):
                        same = langcheck.same_behaviour(rec, x, y)
                        if same is False:
                            res["disagreements"].append({"stream": "configurations %s vs %s (generic)" % (x, y), "case": src,
                                                         "detail": {x: rec["runs"][x][1][:300], y: rec["runs"][y][1][:300]}})
                            break
                if not release:
                    g_probes += most
                    if most:
                        g_with_probe += 1
                        h = common.chash(src)
                        if h not in seen:
                            seen.add(h)
                            res["distinct_nontrivial"] += 1
                            if sum(1 for s in res["samples"] if s["stream"] == "generic") < 2:
                                res["samples"].append({"stream": "generic", "src": src[:1200]})
                if model and not release and cid in mrecs:
                    st, detail = langcheck.compare(rec, mrecs.get(cid), cfgs=CFGS)
                    model_status[st] += 1
                    if st == "disagree":
                        res["disagreements"].append({"stream": "model-vs-impl(generic)", "case": src, "detail": detail})
                elif model and not release:
                    model_status["inconclusive"] += 1

    res["extra"].update({
        "structured_programs": n_struct, "structured_rejected_by_checker": rejected,
        "structured_reference_endings": endings,
        "structured_reference_measurements": ref_totals,
        "structured_generator_actions": kinds_total,
        "generic_programs": n_generic, "generic_accepted": g_accepted, "generic_programs_with_completed_probe": g_with_probe,
        "generic_completed_probes": g_probes, "generic_generator_stats": gstats,
        "model_comparison": model_status, "model_executable_crashed_on": model_skipped[:10], "profiles": ["release" if p else "debug" for p in profiles],
        "configurations": CFGS,
    })
    env.log("C05: %d structured (%d rejected, endings %s), %d generic (%d accepted, %d probes); model %s; failures %d, disagreements %d" % (
        n_struct, rejected, endings, n_generic, g_accepted, g_probes, model_status, len(res["failures"]), len(res["disagreements"])))
    return res


def replay(env, payload):
    """0 = passes now, 1 = still failing"""
    common.build_harness()
    f = payload.get("case") or {}
    if payload.get("kind") == "obligation-no-longer-checks":
        rc = 0
        for d in payload.get("disagreements", []):
            src = d.get("case")
            if not src:
                continue
            rec = run_one(env, "replay", src, CFGS)
            if not rec or not rec.get("accepted"):
                continue
            try:
                m = langrun.run_model(env, "replay", {"x": rec}, ["x"]).get("x")
            except RuntimeError:
                m = None
            st, detail = langcheck.compare(rec, m, cfgs=CFGS)
            same = all(langcheck.same_behaviour(rec, x, y) is not False for x, y in (("nn", "nf"), ("pn", "pf")))
            print("replay: model comparison %s, configurations equal %s" % (st, same))
            if st == "disagree" or not same:
                rc = 1
        return rc
    src = f.get("case")
    if not src:
        print("replay: no case in payload")
        return 1
    release = f.get("profile") == "release"
    if release:
        common.build_harness(release=True)
    rec = run_one(env, "replay", src, CFGS, release)
    if not rec or not rec.get("accepted"):
        print("replay: program no longer accepted")
        return 0
    if f.get("stream") == "alias-probe":
        for cfg in CFGS:
            if cfg in rec["runs"]:
                done, bad = probe_check(rec["runs"][cfg][1])
                if bad:
                    print("replay: probe(s) %s still violated in %s" % (bad[:3], cfg))
                    return 1
        print("replay: all probes hold")
        return 0
    exp = f.get("expected", {})
    bad = oracle_structured(rec, exp.get("ending"), exp.get("values"), CFGS)
    for cfg, e, v in bad:
        print("replay: %s differs from the value-semantics reference: %s" % (cfg, json.dumps(first_diff(exp.get("values", ""), v))))
    return 1 if bad else 0
