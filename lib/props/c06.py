"""C06 — an accepted program can never crash the interpreter.

Streams (all through `nsverif lang`, i.e. the real Lexer -> Parser -> Resolver -> Runtime
pipeline, configurations nn/pn/nf/pf = without/with plan x without/with frame arena):

  product     the type-routing product, enumerated completely: every runtime type x every
              dynamic route x every operator / condition / loop condition / index /
              index assignment / method name of every built-in family (right and wrong
              argument types and counts) / global built-in
  extremes    numeric extremes (0, -0, +-0.5, len-1/len/len+1, 2^31, 2^32, 2^53, 2^63-1024, 2^63, 2^64,
              +-1e19, +-1e300, +-inf, NaN) at every position where a run-time number becomes an
              index or a size: `slice` bounds (ALL PAIRS, on empty / ASCII / multi-byte strings),
              array index read / assignment (flat, nested, empty), number methods and printing;
              find / replace / split / join / pop / len with empty and very long arguments;
              each through a literal and a dynamically typed route
  shapes      the structural shapes (`x.foo` without call, `f()()`, `f()[0] get 1`, method on a
              literal, wrong arities, early call of a hoisted function, loop control in a
              nested function, ...)
  generated   langgen compositions with type-changing redeclarations, and the same programs
              with literals replaced by dynamically typed values of another type
  values      the built-ins' own value spaces through scripts: substring search at the boundaries
              tw.rs branches on (lengths around the regenerated SIMD_THRESHOLD, absent needles with
              pieces of the needle at the very end, periodic / multi-byte needles), C13's generators
              (long needles, mixed scripts, case strings, numerals), boundary-size arrays
  reads       every way a variable can be read (or only written) x where the read sits relative to
              the declaration (same block, captured in a nested function, from an enclosing
              function, in a loop body, ...), each the ONLY use of a trap-free declaration, run with
              the real plan: the plan must never prune what still runs needs

ORACLE (implementation only): a program the checker accepted whose run panics, aborts or dies
by a signal in any configuration is a failure.  Its key names the CLASS:
    hoisted-call-before-captured-make   the panic is at a scoping site and the extracted
                                        WfScoped.wf_scoped rejects the program
                                        ALREADY WITHOUT A PLAN (KnownClass of Properties/C06.v, open
                                        known finding; the early-call shape is plan independent)
    plan-prunes-needed-declaration      scoping-site panic only under the plan, of a program that is
                                        wf_scoped without a plan and not wf_scoped for the real plan
    loopctl-in-nested-function / method-arity-dynamic-receiver /
    host-value-returned-under-frame-arena   the repaired defects, should they return
    accepted:<site key of translator/gen_panicsites.py | native:<rc>>   anything else
MODEL TIES (a break of any of them is a disagreement -> `no longer checks` -> search):
  (1) langcheck.compare: same ending class and same printed values in every configuration; in
      particular the model ends in `panic:<site>` exactly when the implementation panics, and
      <site> is the psite that translator/gen_panicsites.py maps the panic line to;
  (2) the extracted WfStatic.wf_static is true for every program the resolver accepts (so the
      hypothesis of C06_wf_static_never_panics_structural holds of what the checker lets
      through; a resolver that starts accepting a wrong arity / misplaced comot breaks this);
  (3) the theorem direction on the implementation: wf_static and wf_scoped (for the plan of
      that configuration) true  ==>  no panic at a modelled site in that configuration.
  (3b) plan obligation, on the REAL plan of every accepted program: wf_scoped without a plan ==>
      wf_scoped for the plan the analysis built (stream plan-breaks-wf_scoped);
wf_scoped is only a SUFFICIENT condition: accepted programs it rejects (early calls of
functions that do not actually use what is declared in between) are counted, not flagged.
"""
import importlib.util
import os
import re
import time

import common
import langcheck
import langgen
import langrun

TRUSTED_EXTRA = [
    "C06: the AST/plan dump of harness/src/lang.rs and the AST reader of coq/extract/mode_lang.ml / mode_langc06.ml (the model runs on the implementation's own resolved AST: parser and resolver are exercised, not modelled)",
    "C06: translator/gen_panicsites.py reads src/runtime.rs textually (macros, expect/unwrap, args.args[k]); other slice indexing is covered only by the debug-build crash oracle",
    "C06: wf_static/wf_scoped hold of accepted programs is a TESTED implication (every run), not a theorem about src/resolver.rs",
]
ASSUMPTIONS = [
    "process handles: `command(..)` values are routed through every position (crash oracle only; the model ends such runs with Unsupported); process_result values and read_line are not exercised here (C15/C16/C17)",
    "resource exhaustion (implementation `Stack overflow` error, arena out of memory = `memory allocation of N bytes failed` abort with the harness's 256 MiB arena, model fuel) is not a crash and is never compared; such runs are counted in extra.resource_exhaustion_runs",
    "inputs are programs of the sizes generated here; native stack overflow of the parser/checker on huge inputs is C08's subject",
]
COQ_TIMEOUT = 1500
CFGS = ["nn", "pn", "nf", "pf"]
SCOPING_SITES = ("PVarMissing", "PSegVar", "PAssignMissing", "PMutVarMissing", "PFuncMissing")

# --------------------------------------------------------------------------------------------
# the type-routing product

VALUES = [("num", "7"), ("str", '"ab"'), ("bool", "true"), ("null", "null"), ("arr", "[1, 2]"),
          ("nested", "[[1], [2]]"), ("cmd", 'command("true")')]
OTHER = {"num": ['"s"', "true", "[0]"], "str": ["0", "true", "[0]"], "bool": ["0", '"s"', "[0]"],
         "null": ["0", '"s"', "true", "[0]"], "arr": ["0", '"s"', "true"], "nested": ["0", '"s"', "true"],
         "cmd": ["0", '"s"', "[0]"]}
CONSTS = ["1", '"s"', "true", "null", "[1]"]
BINOPS = ["add", "minus", "times", "divide", "mod", "and", "or", "na", "pass", "small pass"]

STRING_M = [("len", []), ("slice", ["0", "1"]), ("to_uppercase", []), ("to_lowercase", []), ("find", ['"a"']),
            ("replace", ['"a"', '"b"']), ("trim", []), ("to_number", []), ("split", ['","'])]
ARRAY_M = [("len", []), ("push", ["1"]), ("pop", []), ("reverse", []), ("join", ['","'])]
NUMBER_M = [("abs", []), ("sqrt", []), ("floor", []), ("ceil", []), ("round", [])]
PROC_M = [("arg", ['"x"']), ("cwd", ['"."']), ("env", ['"A"', '"B"']), ("stdin_text", ['"x"']), ("stdin_inherit", []),
          ("stdin_null", []), ("stdout_capture", []), ("stdout_inherit", []), ("stdout_null", []),
          ("stderr_capture", []), ("stderr_inherit", []), ("stderr_null", []), ("timeout_ms", ["5"])]
RESULT_M = [("success", []), ("exit_code", []), ("stdout", []), ("stderr", [])]
ALL_METHODS = STRING_M + [m for m in ARRAY_M if m[0] != "len"] + NUMBER_M + PROC_M + RESULT_M + [("nosuch", [])]


def uses():
    """-> list of (tag, [statement templates with {X}], needs_var)"""
    out = []
    for op in BINOPS:
        for k in CONSTS:
            out.append(("bin:%s:X.%s" % (op, k), ["shout({X} %s %s)" % (op, k)], False))
            out.append(("bin:%s:%s.X" % (op, k), ["shout(%s %s {X})" % (k, op)], False))
        out.append(("bin:%s:X.X" % op, ["shout({X} %s {X})" % op], False))
    out.append(("un:not", ["shout(not {X})"], False))
    out.append(("un:neg", ["shout(minus {X})"], False))
    out.append(("cond:if", ["if to say ({X}) start", "  shout(1)", "end", "shout(2)"], False))
    out.append(("cond:ifelse", ["if to say ({X}) start", "  shout(1)", "end", "if not so start", "  shout(3)", "end"], False))
    out.append(("cond:loop", ["jasi ({X}) start", "  shout(1)", "  comot", "end", "shout(2)"], False))
    out.append(("idx:read", ["shout({X}[0])"], False))
    out.append(("idx:read2", ["shout({X}[0][0])"], False))
    out.append(("idx:readoob", ["shout({X}[5])"], False))
    out.append(("idx:as-index", ["make zz get [1, 2, 3]", "shout(zz[{X}])"], False))
    out.append(("idx:as-index-assign", ["make zz get [1, 2, 3]", "zz[{X}] get 9", "shout(zz)"], False))
    out.append(("idxassign:0", ["{X}[0] get 9", "shout({X})"], True))
    out.append(("idxassign:00", ["{X}[0][0] get 9", "shout({X})"], True))
    out.append(("idxassign:oob", ["{X}[7] get 9", "shout({X})"], True))
    out.append(("idxassign:value", ["make zz get [1, 2, 3]", "zz[0] get {X}", "shout(zz)"], False))
    out.append(("assign:copy", ["make zz get {X}", "shout(zz)", "shout(typeof(zz))"], False))
    out.append(("interp", ["make zz get {X}", 'shout("v={zz}!")'], False))
    for name, args in ALL_METHODS:
        out.append(("m:%s:ok" % name, ["shout({X}.%s(%s))" % (name, ", ".join(args))], False))
        # wrong counts: none (when some are needed) and one more
        if args:
            out.append(("m:%s:none" % name, ["shout({X}.%s())" % name], False))
            if len(args) > 1:
                out.append(("m:%s:fewer" % name, ["shout({X}.%s(%s))" % (name, args[0])], False))
        out.append(("m:%s:more" % name, ["shout({X}.%s(%s))" % (name, ", ".join(args + ["1"]))], False))
        # X in every argument position of the method, on a receiver of the right family
        recv = None
        if (name, args) in STRING_M:
            recv = '"a,b"'
        elif (name, args) in ARRAY_M:
            recv = "zq"
        if recv and args:
            for i in range(len(args)):
                a2 = list(args)
                a2[i] = "{X}"
                pre = ['make zq get ["a", "b"]'] if recv == "zq" else []
                out.append(("marg:%s:%d" % (name, i), pre + ["shout(%s.%s(%s))" % (recv, name, ", ".join(a2))] + (["shout(zq)"] if pre else []), False))
        # and on a dynamically typed receiver of the right family
        if recv and args:
            for i in range(len(args)):
                a2 = list(args)
                a2[i] = "{X}"
                pre = ['make zr get [["a", "b"], "a,b"]']
                r2 = "zr[0]" if recv == "zq" else "zr[1]"
                out.append(("dmarg:%s:%d" % (name, i), pre + ["shout(%s.%s(%s))" % (r2, name, ", ".join(a2)), "shout(zr)"], False))
    for b in ["shout", "typeof", "to_string", "command"]:
        out.append(("g:%s" % b, ["make zz get %s({X})" % b, "shout(typeof(zz))"], False))
    out.append(("call:as-callee", ["shout({X}())"], False))
    out.append(("member:nocall", ["shout({X}.len)"], False))
    out.append(("ret", ["do zf() start", "  return {X}", "end", "shout(zf())"], False))
    return out


def routes(vname, v):
    """-> list of (route tag, builder(use_lines, X needs var?) -> source or None)"""
    rs = []

    def ind(lines, n=1):
        return [("  " * n) + l for l in lines]

    def param(use, needs_var):
        return "\n".join(["do f(p) start"] + ind([u.replace("{X}", "p") for u in use]) + ["end", "f(%s)" % v]) + "\n"
    rs.append(("param", param))

    def elem(use, needs_var):
        return "\n".join(["make a get [%s]" % v] + [u.replace("{X}", "a[0]") for u in use]) + "\n"
    rs.append(("elem", elem))

    def pop(use, needs_var):
        return "\n".join(["make a get [%s]" % v, "make q get a.pop()"] + [u.replace("{X}", "q") for u in use]) + "\n"
    rs.append(("pop", pop))

    def result(use, needs_var):
        if needs_var:
            return None
        o = OTHER[vname][0]
        return "\n".join(["do g(c) start", "  if to say (c) start", "    return %s" % v, "  end", "  return %s" % o, "end"] +
                         [u.replace("{X}", "g(true)") for u in use]) + "\n"
    rs.append(("result", result))
    for o in OTHER[vname]:
        def reassigned(use, needs_var, o=o):
            return "\n".join(["make x get %s" % o, "x get %s" % v] + [u.replace("{X}", "x") for u in use]) + "\n"
        rs.append(("reassigned<%s" % o, reassigned))

        def redecl(use, needs_var, o=o):
            return "\n".join(["make x get %s" % o, "do h() start"] + ind([u.replace("{X}", "x") for u in use]) +
                             ["end", "make x get %s" % v, "h()"]) + "\n"
        rs.append(("redecl<%s" % o, redecl))
    return rs


def product_cases():
    cases = []
    us = uses()
    for vname, v in VALUES:
        for rtag, build in routes(vname, v):
            for utag, use, needs_var in us:
                src = build(use, needs_var)
                if src is None:
                    continue
                cases.append((("P/%s/%s/%s" % (vname, rtag, utag)).replace(" ", "_"), src))
    assert len(set(c for c, _ in cases)) == len(cases), "product ids must be unique"
    return cases


# --------------------------------------------------------------------------------------------
# numeric extremes: every position where a run-time number is converted to an index / size

BIG308 = "1" + "0" * 308
EXT_PRELUDE = ["make zbig get %s" % BIG308, "make zinf get zbig times 10", "make zninf get 0 minus zinf",
               "make znan get zinf minus zinf", "do zid(p) start", "  return p", "end"]
EXT_VALUES = [("0", "0"), ("-0", "(minus 0)"), ("0.5", "0.5"), ("-0.5", "(minus 0.5)"), ("1", "1"), ("-1", "(minus 1)"),
              ("2", "2"), ("-2", "(minus 2)"), ("3.9", "3.9"), ("-3.1", "(minus 3.1)"),
              ("2^31", "2147483648"), ("2^32", "4294967296"), ("2^53", "9007199254740992"),
              ("2^63-1024", "9223372036854774784"), ("2^63", "9223372036854775808"), ("-2^63", "(minus 9223372036854775808)"),
              ("-2^63-2048", "(minus 9223372036854777856)"), ("2^64", "18446744073709551616"),
              ("1e19", "10000000000000000000"), ("-1e19", "(minus 10000000000000000000)"),
              ("1e300", "1" + "0" * 300), ("-1e300", "(minus 1" + "0" * 300 + ")"),
              ("inf", "zinf"), ("-inf", "zninf"), ("nan", "znan")]
EXT_STRINGS = [("empty", '""', 0, 0), ("ascii", '"wahala dey"', 10, 10), ("multi", '"héllo 世界"', 8, 13)]
EXT_ARRAYS = [("empty", "[]", 0), ("flat", "[1, 2, 3]", 3), ("nested", "[[1, 2], [3]]", 2)]
LONG = '"' + "ab" * 48 + '"'
LONG_NEEDLE = '"' + "abababababababababab" + '"'          # 20 bytes: the two-way (long needle) search


def len_values(*lens):
    out = []
    for n in sorted(set(lens)):
        for d in (-1, 0, 1):
            k = n + d
            out.append(("len%+d=%d" % (d, k), str(k) if k >= 0 else "(minus %d)" % -k))
            out.append(("-(len%+d)=%d" % (d, -k), "(minus %d)" % k if k > 0 else str(-k)))
    seen, res = set(), []
    for t, e in out:
        if e not in seen:
            seen.add(e)
            res.append((t, e))
    return res


def extremes_cases(all_pairs_separately=False):
    """all_pairs_separately: one program per (start, end) pair of slice bounds (thorough);
    otherwise one program per start value printing the slice for EVERY end value (quick) —
    the same pairs are evaluated either way."""
    cases = []

    def add(cid, lines):
        body = "\n".join(lines)
        pre = []
        if re.search(r"\bz(inf|ninf|nan)\b", body):
            pre += EXT_PRELUDE[:4]
        if "zid(" in body:
            pre += EXT_PRELUDE[4:]
        cases.append((("X/" + cid).replace(" ", "_"), "\n".join(pre + lines) + "\n"))

    routes = [("lit", lambda e: e), ("dyn", lambda e: "zid(%s)" % e)]
    # slice: all PAIRS of bounds, on empty / ASCII / multi-byte strings, literal and dynamic route
    for sname, slit, clen, blen in EXT_STRINGS:
        vals = EXT_VALUES + [v for v in len_values(clen, blen) if v[1] not in [e for _, e in EXT_VALUES]]
        for rname, r in routes:
            recv = slit if rname == "lit" else "zid(%s)" % slit
            for ta, a in vals:
                if all_pairs_separately:
                    for tb, b in vals:
                        add("slice/%s/%s/%s,%s" % (sname, rname, ta, tb), ['shout("[" add %s.slice(%s, %s) add "]")' % (recv, r(a), r(b))])
                else:
                    # rows in both orders, so that each bound value leads a program once as start and once as end
                    add("slice-row/%s/%s/start=%s" % (sname, rname, ta),
                        ['shout("[" add %s.slice(%s, %s) add "]")' % (recv, r(a), r(b)) for _, b in vals])
                    add("slice-col/%s/%s/end=%s" % (sname, rname, ta),
                        ['shout("[" add %s.slice(%s, %s) add "]")' % (recv, r(b), r(a)) for _, b in reversed(vals)])
    # indexes: read, assignment, nested (either level)
    for aname, alit, alen in EXT_ARRAYS:
        vals = EXT_VALUES + [v for v in len_values(alen) if v[1] not in [e for _, e in EXT_VALUES]]
        for rname, r in routes:
            for tv, v in vals:
                add("idx-read/%s/%s/%s" % (aname, rname, tv), ["make a get %s" % alit, "shout(a[%s])" % r(v)])
                add("idx-assign/%s/%s/%s" % (aname, rname, tv), ["make a get %s" % alit, "a[%s] get 9" % r(v), "shout(a)"])
                if aname == "nested":
                    add("idx-read-inner/%s/%s" % (rname, tv), ["make a get %s" % alit, "shout(a[0][%s])" % r(v)])
                    add("idx-read-outer/%s/%s" % (rname, tv), ["make a get %s" % alit, "shout(a[%s][0])" % r(v)])
                    add("idx-assign-inner/%s/%s" % (rname, tv), ["make a get %s" % alit, "a[0][%s] get 9" % r(v), "shout(a)"])
                    add("idx-assign-outer/%s/%s" % (rname, tv), ["make a get %s" % alit, "a[%s][0] get 9" % r(v), "shout(a)"])
                    add("idx-push-inner/%s/%s" % (rname, tv), ["make a get %s" % alit, "a[%s].push(9)" % r(v), "shout(a)"])
    # numbers as receivers / printed / converted
    for rname, r in routes:
        for tv, v in EXT_VALUES:
            add("num/%s/%s" % (rname, tv), ["make n get %s" % r(v)] +
                ["shout(n.%s())" % m for m in ("abs", "sqrt", "floor", "ceil", "round")] +
                ["shout(to_string(n))", 'shout("v=" add n)', 'shout("v={n}")', "shout(n na n)", "shout(n mod 7)", "shout(typeof(n))"])
    # empty / very long arguments of the string and array built-ins
    strs = [("empty", '""'), ("a", '"a"'), ("multi", '"héé世"'), ("long", LONG), ("needle20", LONG_NEEDLE)]
    for rname, r in routes:
        for th, h in strs:
            for tn, n in strs:
                add("find/%s/%s/%s" % (rname, th, tn), ["shout(%s.find(%s))" % (r(h), r(n))])
                add("split/%s/%s/%s" % (rname, th, tn), ["shout(%s.split(%s))" % (r(h), r(n)), "shout(%s.split(%s).len())" % (r(h), r(n))])
                for tt, t in (("empty", '""'), ("x", '"x"'), ("long", LONG)):
                    add("replace/%s/%s/%s/%s" % (rname, th, tn, tt), ["shout(%s.replace(%s, %s).len())" % (r(h), r(n), r(t)),
                                                                      "shout(%s.replace(%s, %s))" % (r(h), r(n), r(t))])
            add("strmisc/%s/%s" % (rname, th), ["make s get %s" % r(h), "shout(s.len())", 'shout("[" add s.trim() add "]")',
                                                "shout(s.to_uppercase().len())", "shout(s.to_lowercase().len())"])
        for ta, a in (("empty", "[]"), ("nested-empty", "[[]]"), ("one", "[1]"), ("strs", '["a", ""]')):
            for tsep, sep in strs:
                add("join/%s/%s/%s" % (rname, ta, tsep), ["make a get %s" % r(a), 'shout("[" add a.join(%s) add "]")' % r(sep)])
            add("arrmisc/%s/%s" % (rname, ta), ["make a get %s" % a, "shout(a.len())", "shout(a.pop())", "shout(a.pop())", "shout(a.pop())",
                                                "shout(a.len())", "a.reverse()", "shout(a)", "a.push(1)", "shout(a.pop())", "shout(a)"])
    assert len(set(c for c, _ in cases)) == len(cases), "extremes ids must be unique"
    return cases


# --------------------------------------------------------------------------------------------
# the built-ins' own VALUE spaces, through scripts (wave 3, C06-c1): "no accepted program crashes"
# includes the branches the built-ins take on argument values, not only on argument types.
# Thresholds come from the regenerated tables (Generated.simd_threshold <- src/builtins/tw.rs);
# the random families are C13's generators (lib/props/c13.py), run here THROUGH SCRIPTS in the
# four configurations with the no-panic oracle and the model comparison.

def simd_threshold():
    m = re.search(r"simd_threshold\s*:\s*Z\s*:=\s*(\d+)", open(os.path.join(common.COQ, "theories", "Generated.v")).read())
    if not m:
        raise RuntimeError("Generated.v has no simd_threshold")
    return int(m.group(1))


def ns_lit(b):
    """bytes/str -> NaijaScript string literal, or None when the text cannot be spelled as a
    static literal (braces start an interpolation; raw control characters)"""
    s = b.decode("utf-8") if isinstance(b, bytes) else b
    out = []
    for ch in s:
        if ch in "{}":
            return None
        if ch == '"':
            out.append('\\"')
        elif ch == "\\":
            out.append("\\\\")
        elif ch == "\n":
            out.append("\\n")
        elif ch == "\t":
            out.append("\\t")
        elif ord(ch) < 0x20 or ord(ch) == 0x7f or 0xD800 <= ord(ch) <= 0xDFFF:
            return None
        else:
            out.append(ch)
    return '"' + "".join(out) + '"'


_C13 = None


def c13_module():
    global _C13
    if _C13 is None:
        spec = importlib.util.spec_from_file_location("c13_for_c06", os.path.join(common.VERIF, "lib", "props", "c13.py"))
        _C13 = importlib.util.module_from_spec(spec)
        spec.loader.exec_module(_C13)
    return _C13


def search_pairs(T):
    """(haystack, needle) byte pairs at the boundaries the substring search branches on: needle
    lengths around 1/2/3, T = SIMD_THRESHOLD and its multiples; all-distinct, periodic and
    single-odd-byte needles (different critical factorisations / pivot bytes), multi-byte
    needles; haystack empty / shorter / equal / longer; match at the start / the very end /
    twice / overlapping; ABSENT with every prefix, suffix and single byte of the needle at the very
    end of the haystack (a pivot byte found where the window no longer fits) and with
    near-misses of equal length."""
    alpha = b"abcdefghijklmnopqrstuvwxyz0123456789ABCDEFGHIJKLMNOPQRSTUVWXYZ"
    fill = b"#"
    lens = sorted(set([0, 1, 2, 3, 4, T - 1, T, T + 1, T + 2, 2 * T - 1, 2 * T, 2 * T + 1, 3 * T + 1]))
    pairs = []
    for L in lens:
        pats = [(alpha * 2)[:L], b"a" * L, (b"ab" * L)[:L], (b"aab" * L)[:L], (b"abcab" * L)[:L]]
        if L >= 2:
            pats += [b"a" * (L - 1) + b"b", b"b" + b"a" * (L - 1), b"a" * (L // 2) + b"b" + b"a" * (L - L // 2 - 1)]
            pats += [("é" * (L // 2)).encode() + b"x" * (L % 2), ("日" * (L // 3)).encode() + b"xy"[:L % 3]]
        seen = set()
        for n in pats:
            if n in seen:
                continue
            seen.add(n)
            cut = lambda k: n[:k].decode("utf-8", "ignore").encode()          # noqa: E731  (prefix on a char boundary)
            tail = lambda k: n[k:].decode("utf-8", "ignore").encode()          # noqa: E731
            hs = [b"", cut(L - 1), n, n + fill, fill + n, fill * T + n, n + fill * T, fill * (T + 1) + n + fill * 3, n + n,
                  cut(L - 1) + n, cut(L - 1) + fill, fill + tail(1), cut(L - 1) * 2, tail(1) * 2, fill * (3 * T)]
            js = list(range(1, L)) if L <= T + 2 else sorted(set([1, 2, 3, L // 3, L // 2, L // 2 + 1, 2 * L // 3, L - T, L - 3, L - 2, L - 1]))
            for j in js:
                if not 0 < j < L:
                    continue
                for d in ((0, 1) if L <= T + 2 else (0, T)):
                    hs.append(fill * (L - j + d) + cut(j))          # a PREFIX of the needle at the very end
                    hs.append(fill * (j + d) + tail(j))             # a SUFFIX of the needle at the very end
                if 2 * j < L:
                    hs.append(fill * L + n[j:L - j].decode("utf-8", "ignore").encode())     # an inner part
            dist = sorted(set(n))
            for c in dist[:4] + dist[-4:]:
                if c < 0x80:
                    hs.append(fill * max(L - 1, 0) + bytes([c]))
                    hs.append(fill * (L + T) + bytes([c]) + fill)
            hseen = set()
            for h in hs:
                if h not in hseen:
                    hseen.add(h)
                    pairs.append((h, n))
    return pairs


def values_cases(rng, quick=True):
    """-> list of (id, program).  Each program is a batch of calls; odd lines go through
    dynamically typed parameters, even lines use literals."""
    T = simd_threshold()
    c13 = c13_module()
    cases = []
    pre = ["do zfind(h, n) start", "  return h.find(n)", "end", "do zrepl(h, n, r) start", "  return h.replace(n, r)", "end",
           "do zsplit(h, n) start", "  return h.split(n)", "end", "do zid(p) start", "  return p", "end"]

    def flush(tag, lines, k, per):
        for i in range(0, len(lines), per):
            cases.append(("V/%s/%d" % (tag, k[0]), "\n".join(pre + lines[i:i + per]) + "\n"))
            k[0] += 1

    def search_lines(pairs, with_repl):
        lines = []
        for i, (h, n) in enumerate(pairs):
            hl, nl = ns_lit(h), ns_lit(n)
            if hl is None or nl is None:
                continue
            dyn = i % 2 == 1
            lines.append("shout(zfind(%s, %s))" % (hl, nl) if dyn else "shout(%s.find(%s))" % (hl, nl))
            if with_repl(i):
                r = [b"", b"X", n + n][i % 3]
                rl = ns_lit(r)
                lines.append("shout(zrepl(%s, %s, %s))" % (hl, nl, rl) if not dyn else "shout(%s.replace(%s, %s))" % (hl, nl, rl))
                lines.append("shout(zsplit(%s, %s))" % (hl, nl) if dyn else "shout(%s.split(%s).len())" % (hl, nl))
        return lines

    k = [0]
    flush("search-boundary", search_lines(search_pairs(T), lambda i: i % 3 == 0), k, 40)
    k = [0]
    flush("search-long", search_lines(c13.long_needles(rng, 400 if quick else 20000), lambda i: i % 4 == 0), k, 40)
    k = [0]
    ms = c13.mixed_script_cases(rng, 300 if quick else 15000)
    lines = []
    for i, (h, n, r) in enumerate(ms):
        hl, nl, rl = ns_lit(h), ns_lit(n), ns_lit(r)
        if hl is None or nl is None or rl is None:
            continue
        if i % 2:
            lines += ["shout(zfind(%s, %s))" % (hl, nl), "shout(%s.replace(%s, %s))" % (hl, nl, rl), "shout(zsplit(%s, %s))" % (hl, nl)]
        else:
            lines += ["shout(%s.find(%s))" % (hl, nl), "shout(zrepl(%s, %s, %s))" % (hl, nl, rl), "shout(%s.split(%s))" % (hl, nl)]
    flush("search-mixed-script", lines, k, 45)
    # case mapping / trim / len / slice over C13's case strings (the model leaves non-ASCII case
    # mapping unsupported: the crash oracle is what applies there, so small batches)
    k = [0]
    lines = []
    for i, t in enumerate(c13.case_strings(rng, 260 if quick else 8000)):
        tl = ns_lit(t)
        if tl is None:
            continue
        recv = "zid(%s)" % tl if i % 2 else tl
        lines.append("shout(%s.to_uppercase())" % recv)
        lines.append("shout(%s.to_lowercase().len())" % recv)
        if i % 3 == 0:
            lines.append('shout("[" add %s.trim() add "]")' % recv)
            lines.append("shout(%s.slice(1, %d))" % (recv, T))
    flush("case", lines, k, 12)
    k = [0]
    lines = []
    for i, t in enumerate(c13.tonum_cases(rng, 200 if quick else 6000)):
        tl = ns_lit(t)
        if tl is None:
            continue
        lines.append("shout(%s.to_number())" % ("zid(%s)" % tl if i % 2 else tl))
    flush("to_number", lines, k, 20)
    # arrays: sizes around 0/1/2 and the threshold; element kinds; separators
    k = [0]
    for size in sorted(set([0, 1, 2, 3, T - 1, T, T + 1, 4 * T + 1])):
        for ename, el in (("num", lambda j: str(j)), ("str", lambda j: '"s%d"' % j), ("mix", lambda j: ["1", '"a"', "true", "null", "[1]"][j % 5]),
                          ("nested", lambda j: "[%d, [%d]]" % (j, j))):
            arr = "[" + ", ".join(el(j) for j in range(size)) + "]"
            for rname, r in (("lit", lambda e: e), ("dyn", lambda e: "zid(%s)" % e)):
                lines = ["make a get %s" % r(arr), "shout(a.len())", 'shout("[" add a.join(%s) add "]")' % r('","'),
                         'shout(a.join(%s).len())' % r('""'), 'shout(a.join(%s).len())' % r('"' + "ab" * T + '"'),
                         "a.reverse()", "shout(a)", "a.push(%s)" % el(size), "shout(a.len())"] + \
                        ["shout(a.pop())"] * min(size + 2, 4) + ["shout(a.len())", "a.reverse()", "shout(a)"]
                cases.append(("V/array/%s/%d/%s" % (ename, size, rname), "\n".join(pre + lines) + "\n"))
    assert len(set(c for c, _ in cases)) == len(cases), "values ids must be unique"
    return cases


# --------------------------------------------------------------------------------------------
# every way a variable can be READ x where the read sits relative to the declaration (wave 3,
# C06-c2): the analysis that builds the plan and the runtime that skips pruned statements must
# agree on what a read is.  One program = one declaration with a trap-free initialiser whose ONLY
# use is one kind of read (or one write), placed in the same block, in a nested function (capture),
# in a block inside it, two functions deep, captured from an enclosing FUNCTION, or in a function
# defined in a loop body; run with the REAL plan (pn/pf) as well as without.  Obligations: no
# panic (oracle) and the extracted plan-aware WfScoped.wf_scoped holds for the real plan whenever
# it holds without a plan ("the plan never prunes a declaration something that runs still needs").

READ_KINDS = [
    # (tag, initialiser, lines with @X@, is an expression statement only valid in a function)
    ("var-shout", "7", ["shout(@X@)"]),
    ("var-return", "7", ["return @X@"]),
    ("bin-left", "7", ["shout(@X@ add 1)"]),
    ("bin-right", "7", ["shout(1 add @X@)"]),
    ("un-neg", "7", ["shout(minus @X@)"]),
    ("un-not", "true", ["shout(not @X@)"]),
    ("logic", "true", ["shout(false or @X@)"]),
    ("cond-if", "true", ["if to say (@X@) start", "  shout(1)", "end"]),
    ("cond-else", "false", ["if to say (@X@) start", "  shout(1)", "end", "if not so start", "  shout(2)", "end"]),
    ("cond-loop", "false", ["jasi (@X@) start", "  shout(1)", "end", "shout(2)"]),
    ("cond-cmp", "7", ["if to say (@X@ pass 1) start", "  shout(1)", "end"]),
    ("idx-base", "[1, 2]", ["shout(@X@[0])"]),
    ("idx-base2", "[[1], 2]", ["shout(@X@[0][0])"]),
    ("idx-index", "0", ["make za get [5, 6]", "shout(za[@X@])"]),
    ("idxassign-base", "[1, 2]", ["@X@[0] get 9"]),
    ("idxassign-base2", "[[1], 2]", ["@X@[0][0] get 9"]),
    ("idxassign-index", "0", ["make za get [5, 6]", "za[@X@] get 9", "shout(za)"]),
    ("idxassign-value", "7", ["make za get [5, 6]", "za[0] get @X@", "shout(za)"]),
    ("mut-push", "[1]", ["@X@.push(2)"]),
    ("mut-pop", "[1]", ["shout(@X@.pop())"]),
    ("mut-pop-stmt", "[1]", ["@X@.pop()"]),
    ("mut-reverse", "[1, 2]", ["@X@.reverse()"]),
    ("mut-nested", "[[1]]", ["@X@[0].push(2)"]),
    ("push-arg", "7", ["make za get [5]", "za.push(@X@)", "shout(za)"]),
    ("recv-len", '"abc"', ["shout(@X@.len())"]),
    ("recv-stmt", '"abc"', ["@X@.len()"]),
    ("method-arg", '"b"', ['shout("abc".find(@X@))']),
    ("call-arg", "7", ["shout(zid(@X@))"]),
    ("call-arg-stmt", "7", ["zid(@X@)"]),
    ("builtin-arg", "7", ["shout(typeof(@X@))"]),
    ("to_string", "7", ["shout(to_string(@X@))"]),
    ("array-elem", "7", ["shout([@X@, 1])"]),
    ("assign-rhs", "7", ["make zl get 0", "zl get @X@", "shout(zl)"]),
    ("make-rhs", "7", ["make zl get @X@", "shout(zl)"]),
    ("self-update", "7", ["@X@ get @X@ add 1"]),
    ("write-only", "7", ["@X@ get 8"]),
    ("expr-stmt", "7", ["@X@"]),
    ("interp", '"hi"', ['shout("{@X@}, ok")']),
    ("interp-num", "7", ['shout("n={@X@}")']),
    ("interp-arr", "[1, 2]", ['shout("a={@X@}")']),
    ("interp-twice", '"hi"', ['shout("{@X@} and {@X@}")']),
    ("interp-in-array", '"hi"', ['shout(["{@X@}", 1])']),
    ("interp-return", '"hi"', ['return "<{@X@}>"']),
    ("interp-call-arg", '"hi"', ['shout(zid("{@X@}"))']),
    ("interp-make", '"hi"', ['make zl get "{@X@}"', "shout(zl)"]),
    ("interp-assign", '"hi"', ['make zl get ""', 'zl get "{@X@}"', "shout(zl)"]),
    ("interp-cond", '"hi"', ['if to say ("{@X@}" na "hi") start', "  shout(1)", "end"]),
    ("interp-recv", '"hi"', ['shout("{@X@}".len())']),
    ("interp-method-arg", '"b"', ['shout("abc".find("{@X@}"))']),
    ("interp-index-assign", '"hi"', ["make za get [5]", 'za[0] get "{@X@}"', "shout(za)"]),
    ("interp-concat", '"hi"', ['shout("a" add "{@X@}")']),
]


def reads_cases():
    cases = []
    zid = ["do zid(p) start", "  return p", "end"]

    def ind(lines, n=1):
        return [("  " * n) + l for l in lines]

    for tag, init, use in READ_KINDS:
        body = [u.replace("@X@", "x") for u in use]
        has_ret = any(l.lstrip().startswith("return") for l in body)
        call = "shout(zr())" if has_ret else "zr()"
        decl = "make x get %s" % init
        layouts = []
        if not has_ret:
            layouts.append(("same", [decl] + body))
            layouts.append(("same-block", [decl, "if to say (true) start"] + ind(body) + ["end"]))
        layouts.append(("fn", [decl, "do zr() start"] + ind(body) + ["end", call]))
        layouts.append(("fn-def-first-call-twice", [decl, "do zr() start"] + ind(body) + ["end", call, call]))
        layouts.append(("fn-block", [decl, "do zr() start", "  if to say (true) start"] + ind(body, 2) + ["  end", "  return 0" if not has_ret else "  return 1",
                                     "end", "shout(zr())"]))
        layouts.append(("fn2", [decl, "do zo() start", "  do zr() start"] + ind(body, 2) + ["  end", "  " + call, "end", "zo()"]))
        layouts.append(("encl-fn", ["do zo() start", "  " + decl, "  do zr() start"] + ind(body, 2) + ["  end", "  " + call, "end", "zo()", "zo()"]))
        layouts.append(("encl-block", ["if to say (true) start", "  " + decl, "  do zr() start"] + ind(body, 2) + ["  end", "  " + call, "end"]))
        layouts.append(("loop-fn", ["make zi get 0", "jasi (zi small pass 2) start", "  " + decl, "  do zr() start"] + ind(body, 2) +
                        ["  end", "  " + call, "  zi get zi add 1", "end"]))
        layouts.append(("param-shadow-other", [decl, "do zr(q) start"] + ind(body) + ["end", call.replace("zr()", "zr(1)")]))
        layouts.append(("redeclared", [decl, "do zr() start"] + ind(body) + ["end", decl, call]))
        layouts.append(("reassigned", [decl, "do zr() start"] + ind(body) + ["end", "x get %s" % init, call]))
        for lname, lines in layouts:
            cases.append(("R/%s/%s" % (tag, lname), "\n".join(zid + lines) + "\n"))
    assert len(set(c for c, _ in cases)) == len(cases), "reads ids must be unique"
    return cases


# --------------------------------------------------------------------------------------------
# structural shapes and the corpus of repaired / known defects (stable ids)

SHAPES = [
    # known finding (DESIGN 7 row 8): hoisted function called before the `make` it captures
    ("early-call/read", "shout(f())\nmake x get 1\ndo f() start\n  return x\nend\n"),
    ("early-call/write", "f()\nmake x get 1\ndo f() start\n  x get 2\nend\nshout(x)\n"),
    ("early-call/interp", 'shout(f())\nmake x get 1\ndo f() start\n  return "v={x}"\nend\n'),
    ("early-call/push", "f()\nmake x get [1]\ndo f() start\n  x.push(2)\nend\nshout(x)\n"),
    ("early-call/idxassign", "f()\nmake x get [1]\ndo f() start\n  x[0] get 2\nend\nshout(x)\n"),
    ("early-call/via-callee", "shout(g())\nmake x get 1\ndo f() start\n  return x\nend\ndo g() start\n  return f()\nend\n"),
    ("early-call/in-block", "make t get true\nif to say (t) start\n  shout(f())\n  make x get 1\n  do f() start\n    return x\n  end\nend\n"),
    ("early-call/fine-no-capture", "shout(f(2))\nmake x get 1\ndo f(p) start\n  return p add 1\nend\nshout(x)\n"),
    # repaired (c4b68ec): loop control in a function defined inside a loop
    ("loopctl-nested-fn/comot", "make i get 0\njasi (i small pass 2) start\n  do g() start\n    comot\n  end\n  g()\n  i get i add 1\nend\n"),
    ("loopctl-nested-fn/next", "make i get 0\njasi (i small pass 2) start\n  i get i add 1\n  do g() start\n    next\n  end\n  g()\nend\n"),
    ("loopctl-nested-fn/if", "make i get 0\njasi (i small pass 2) start\n  i get i add 1\n  do g(c) start\n    if to say (c) start\n      comot\n    end\n  end\n  g(true)\nend\n"),
    ("loopctl/outside", "comot\n"),
    ("loopctl/fn-top", "do g() start\n  next\nend\ng()\n"),
    ("loopctl/ok-loop-in-fn", "do g() start\n  make i get 0\n  jasi (i small pass 3) start\n    i get i add 1\n    if to say (i pass 1) start\n      comot\n    end\n  end\n  return i\nend\nshout(g())\n"),
    # repaired (fa29849): argument count of a method on a receiver typed only at run time
    ("method-arity-dyn/slice", 'do f(p) start\n  return p.slice()\nend\nshout(f("abc"))\n'),
    ("method-arity-dyn/push", "make a get [[1]]\na[0].push()\nshout(a)\n"),
    ("method-arity-dyn/find", 'make a get ["x"]\nshout(a[0].find())\n'),
    ("method-arity-dyn/join", "make a get [[1]]\nshout(a[0].join())\n"),
    ("method-arity-dyn/replace1", 'make a get ["x"]\nshout(a[0].replace("x"))\n'),
    ("method-arity-dyn/split", 'make a get ["x"]\nshout(a[0].split())\n'),
    ("method-arity-dyn/proc-arg", 'do f(p) start\n  p.arg()\n  return 0\nend\nmake c get command("true")\nshout(f(c))\n'),
    ("method-arity-dyn/proc-env", 'do f(p) start\n  p.env("A")\n  return 0\nend\nmake c get command("true")\nshout(f(c))\n'),
    ("method-arity-dyn/uninferable", "do f() start\n  return [1]\nend\nf()().push()\n"),
    ("method-arity-dyn/extra-ok-len", 'do f(p) start\n  return p.len()\nend\nshout(f("abc"))\nshout(f([1, 2]))\n'),
    # repaired (641fa2a): type confusion and structural shapes that used to hit unreachable!/assert!
    ("confusion/str-minus-num", 'make x get 1\nx get "a"\nshout(x minus 1)\n'),
    ("confusion/num-condition", "do f(c) start\n  if to say (c) start\n    shout(1)\n  end\nend\nf(3)\n"),
    ("confusion/bool-method", "do f(b) start\n  return b.abs()\nend\nshout(f(true))\n"),
    ("shape/member-no-call", 'make x get "a"\nshout(x.len)\n'),
    ("shape/member-no-call-stmt", 'make x get "a"\nx.foo\n'),
    ("shape/call-of-call", "do f() start\n  return 1\nend\nshout(f()())\n"),
    ("shape/call-result-index-assign", "do f() start\n  return [1]\nend\nf()[0] get 1\n"),
    ("shape/literal-index-assign", "[1, 2][0] get 1\n"),
    ("shape/method-on-literal", 'shout("abc".len())\nshout([1, 2].len())\nshout(3.abs())\nshout((3).abs())\n'),
    ("shape/push-on-literal", "[1].push(2)\n"),
    ("shape/push-on-call", "do f() start\n  return [1]\nend\nf().push(2)\nshout(f().pop())\n"),
    ("shape/index-of-call", "do f() start\n  return [1, 2]\nend\nshout(f()[1])\nshout(f()[2])\n"),
    ("shape/arity-user-less", "do f(a, b) start\n  return a\nend\nshout(f(1))\n"),
    ("shape/arity-user-more", "do f(a) start\n  return a\nend\nshout(f(1, 2))\n"),
    ("shape/arity-builtin-0", "shout()\n"),
    ("shape/arity-builtin-2", "shout(1, 2)\n"),
    ("shape/arity-typeof-0", "shout(typeof())\n"),
    ("shape/builtin-as-value", "make x get shout\n"),
    ("shape/fn-as-value", "do f() start\n  return 1\nend\nmake x get f\nshout(x)\n"),
    ("shape/var-as-fn", "make x get 1\nshout(x())\n"),
    ("shape/shadow-fn-by-var", "do f() start\n  return 1\nend\nmake f get 2\nshout(f())\nshout(f)\n"),
    ("shape/recursion-shadow", "do f(n) start\n  if to say (n small pass 1) start\n    return 0\n  end\n  do f(m) start\n    return m\n  end\n  return f(n minus 1)\nend\nshout(f(3))\n"),
    ("shape/nested-fn-arity", "do f() start\n  do g(a) start\n    return a\n  end\n  return g(1)\nend\nshout(f())\ndo g() start\n  return 5\nend\nshout(g())\n"),
    ("shape/same-name-inner-arity", "do g() start\n  return 5\nend\ndo f() start\n  do g(a) start\n    return a\n  end\n  return g(1)\nend\nshout(f())\nshout(g())\n"),
    ("shape/return-top", "return 1\n"),
    ("shape/deep-index-assign", "make a get [[[1]]]\na[0][0][0] get 2\nshout(a)\na[0][0][0][0] get 3\n"),
    ("shape/index-assign-through-non-array", "make a get [1]\na[0][0] get 2\n"),
    ("shape/nested-push", "make a get [[1], 2]\na[0].push(3)\na[1].push(4)\n"),
    ("shape/param-push", "do f(p) start\n  p.push(1)\n  return p\nend\nshout(f([0]))\nshout(f(3))\n"),
    ("shape/interp-undeclared-later", 'do f() start\n  return "x={y}"\nend\nmake y get 1\nshout(f())\n'),
    ("shape/loop-var-fn", "make i get 0\njasi (i small pass 2) start\n  make k get i\n  do g() start\n    return k\n  end\n  shout(g())\n  i get i add 1\nend\n"),
    ("shape/call-before-def-in-loop", "make i get 0\njasi (i small pass 2) start\n  shout(g())\n  make k get i\n  do g() start\n    return k\n  end\n  i get i add 1\nend\n"),
]


# --------------------------------------------------------------------------------------------
# generated compositions

def dynamise(rng, src):
    """Replaces a few number literals of a generated program by a value of another type that
    travels through an identity function (statically Dynamic)."""
    # only values of ANOTHER type: a number in place of a loop increment or recursion decrement
    # could make the program non-terminating; every other type ends the statement with an error
    alts = ['zdyn("s")', "zdyn(true)", "zdyn(null)", "zdyn([1])", "zdyn([[1]])"] * 3 + ['zdyn(command("true"))']
    lines = src.split("\n")
    cands = []
    for i, l in enumerate(lines):
        if l.lstrip().startswith(("do ", "jasi", "end", "start")) or '"' in l:
            continue
        if "small pass 1) start return" in l:
            continue        # langgen's recursion guard: making it false would recurse until the stack budget

        for m in re.finditer(r"(?<![\w.\]])\d+(?![\w.\[])", l):
            cands.append((i, m.start(), m.end()))
    if not cands:
        return None
    rng.shuffle(cands)
    done = set()
    for i, a, b in cands[:rng.randint(1, 3)]:
        if i in done:
            continue
        done.add(i)
        lines[i] = lines[i][:a] + rng.choice(alts) + lines[i][b:]
    return "do zdyn(p) start\n  return p\nend\n" + "\n".join(lines)


def generated_cases(env, n):
    rng = env.rng
    cases = []
    stats = {}
    for i in range(n):
        opts = langgen.Opts(p_shadow=0.5, p_trap=0.12, p_forward_call=0.3, p_capture_write=0.6,
                            max_stmts=rng.choice([8, 12, 16]))
        src, st = langgen.generate(rng, opts)
        for k, v in st.items():
            stats[k] = stats.get(k, 0) + v
        cases.append(("G/%d" % i, src))
        d = dynamise(rng, src)
        if d is not None:
            cases.append(("D/%d" % i, d))
    return cases, stats


# --------------------------------------------------------------------------------------------
# running, oracle, ties

_SITES = None


def panic_sites():
    """line -> site key of translator/gen_panicsites.py for the current source"""
    global _SITES
    if _SITES is None:
        spec = importlib.util.spec_from_file_location("gen_panicsites", os.path.join(common.VERIF, "translator", "gen_panicsites.py"))
        gp = importlib.util.module_from_spec(spec)
        spec.loader.exec_module(gp)
        try:
            sites = gp.scan(common.REPO)
        except Exception:           # noqa
            sites = []
        _SITES = ({s["line"]: s for s in sites}, gp)
    return _SITES


def site_of_panic(text):
    """'<path>/src/runtime.rs:843: message' -> (site key, psite name or None)"""
    m = re.match(r"(.*?src/)?([\w/]+\.rs):(\d+): ?(.*)", text, flags=re.S)
    if not m:
        return "unlocated:" + common.chash(text), None
    f, line, msg = m.group(2), int(m.group(3)), m.group(4)
    by_line, gp = panic_sites()
    if f.endswith("runtime.rs"):
        for d in (0, -1, 1):
            s = by_line.get(line + d)
            if s:
                t = gp.target_of(s["base"], s["ord"])
                return "runtime.rs|" + s["key"], (t if isinstance(t, str) else None)
    msg = re.sub(r"\d+", "N", msg)[:80]
    return "%s|%s" % (f, msg), None


MODEL_TIMEOUTS = [150, 50, 20, 8]


def run_model_safe(env, name, impl_recs, order, depth=0):
    """langrun.run_model with a larger native stack, a memory cap and a time limit (the
    extracted evaluator computes binary64 on binary-positive numbers and can be thousands of
    times slower than the interpreter on a compute-heavy generated program).  When the model
    process dies or runs out of time the shard is split in four, with a shorter limit, down
    to single cases; what still fails gets no model record (counted as `no-model-record`,
    never compared, still subject to the crash oracle)."""
    inp = os.path.join(env.work, name + ".model.in")
    outp = os.path.join(env.work, name + ".model")
    with open(inp, "w") as f:
        for cid in order:
            r = impl_recs.get(cid)
            if not r or not r.get("ast") or not r.get("plan"):
                continue
            f.write("case %s\n%s\n%s\nend %s\n" % (cid, r["ast"], r["plan"], cid))
    # 1 GiB of stack, 6 GiB of address space: a runaway case kills only this process
    cmd = "ulimit -s 1048576 2>/dev/null; ulimit -v 6291456 2>/dev/null; exec '%s' lang %s '%s' '%s'" % (
        common.NSMODEL, langrun.eps_hex(), inp, outp)
    for attempt in range(8):
        rc, out = common.sh(["bash", "-c", cmd], timeout=MODEL_TIMEOUTS[min(depth, len(MODEL_TIMEOUTS) - 1)])
        if rc not in (126, 127) and os.path.exists(common.NSMODEL):
            break
        time.sleep(5)        # the model executable is being relinked by a concurrent check
    if rc == 0:
        return langrun.parse_records(open(outp).read().splitlines())
    if len(order) <= 1 or depth >= len(MODEL_TIMEOUTS) + 4:
        return {}
    k = max(1, (len(order) + 3) // 4)
    res = {}
    for j in range(0, len(order), k):
        res.update(run_model_safe(env, "%s_%d" % (name, j // k), impl_recs, order[j:j + k], depth + 1))
    return res


def run_wf(env, name, impl_recs, order):
    """extracted static checkers on the ASTs the implementation dumped -> id -> dict"""
    inp = os.path.join(env.work, name + ".wf.in")
    outp = os.path.join(env.work, name + ".wf")
    with open(inp, "w") as f:
        for cid in order:
            r = impl_recs.get(cid)
            if not r or not r.get("ast"):
                continue
            f.write("case %s\n%s\n%s\nend %s\n" % (cid, r["ast"], r.get("plan") or "plan none", cid))
    rc, out = common.sh([common.NSMODEL, "langc06", inp, outp], timeout=900)
    if rc != 0:
        raise RuntimeError("nsmodel langc06 failed: %s" % out[-500:])
    res = {}
    cur = None
    for l in open(outp).read().splitlines():
        if l.startswith("case "):
            cur = l[5:]
        elif l.startswith("wf ") and cur:
            t = l.split()
            res[cur] = dict(zip(t[0::2], t[1::2]))
        elif l.startswith("badast") and cur:
            res[cur] = {"badast": l}
    return res


def native_stderr(env, src, cfg, release):
    """first lines of what the harness prints when it dies natively on this program"""
    inp = os.path.join(env.work, "native.in")
    outp = os.path.join(env.work, "native.out")
    langrun.write_cases(inp, [("native", src)])
    if os.path.exists(outp):
        os.remove(outp)
    rc, out = common.sh([common.harness_bin(release), "lang", inp, outp, cfg], timeout=120,
                        env={"RUST_BACKTRACE": "0"})
    lines = [l for l in out.splitlines() if not l.startswith(("   ", "stack backtrace", "note:")) and
             not re.match(r"^\s*\d+:", l)]
    # program output (`shout` also prints) comes first: keep what looks like a runtime message
    keep = [l for l in lines if re.search(r"alloc|memory|overflow|panick|abort|signal|fatal|SIG", l)]
    return " / ".join(keep[-3:])[:300]


def judge(env, cid, src, rec, mrec, wf, out, release=False):
    """Applies the oracle and the ties to one case; appends to out[...]"""
    prof = "release" if release else "debug"
    if rec.get("crash") and rec["crash"][0] == "frontend":
        out["failures"].append({"key": "frontend-crash:" + common.chash(src), "case": src, "id": cid,
                                "observed": "front end died: %s" % (rec["crash"][1],), "profile": prof})
        return
    if not rec.get("accepted"):
        out["rejected"] += 1
        return
    out["accepted"] += 1
    crashed = langcheck.crashed(rec)
    w = wf.get(cid) or {}
    scoped_ok = {"n": w.get("scoped_n"), "p": w.get("scoped_p")}
    if crashed and all(t.startswith("crash") for _, t in crashed):
        # a native death: out of memory in the arena is resource exhaustion (like Stack overflow
        # / model fuel), not a crash in the sense of the property
        msg = native_stderr(env, src, crashed[0][0], release)
        if "memory allocation of" in msg:
            out["resource_exhaustion"] = out.get("resource_exhaustion", 0) + 1
            crashed = []
            # those configurations are not compared with the model either
            rec = dict(rec)
            rec["runs"] = {c: r for c, r in rec["runs"].items() if not r[0].startswith("crash")}
    if crashed:
        cfg, text = crashed[0]
        native = text.startswith("crash") or text.startswith("timeout")
        skey, psite = ("native:" + text, None) if native else site_of_panic(text)
        crashed_cfgs = sorted(c for c, _ in crashed)
        frame_only = all(c.endswith("f") for c in crashed_cfgs)
        if psite in SCOPING_SITES and scoped_ok["n"] == "0":
            # KnownClass of Properties/C06.v: not wf_scoped ALREADY WITHOUT A PLAN (the early-call shape is a
            # property of the program), and the panic is at a scoping site
            key = "hoisted-call-before-captured-make"
        elif psite in SCOPING_SITES and scoped_ok["n"] == "1" and scoped_ok["p"] == "0" and all(c.startswith("p") for c in crashed_cfgs):
            # the program is well scoped, the plan pruned a declaration that something which runs still needs
            key = "plan-prunes-needed-declaration"
        elif psite == "PBreakEscapes" and w.get("loopctl") == "0":
            key = "loopctl-in-nested-function"
        elif psite == "PArgIndex" and w.get("wf") == "0":
            key = "method-arity-dynamic-receiver"
        elif frame_only and "command(" in src:
            key = "host-value-returned-under-frame-arena"
        elif frame_only:
            key = "frame-arena-only:" + skey
        else:
            key = "accepted:" + skey
        if not any(f["key"] == key for f in out["failures"]):
            out["failures"].append({"key": key, "case": src, "id": cid, "profile": prof, "site": skey, "psite": psite,
                                    "observed": "accepted program, configuration(s) %s: %s" % (",".join(crashed_cfgs), text[:200]),
                                    "model": (mrec or {}).get("runs"), "wf": w})
        out["crash_keys"][key] = out["crash_keys"].get(key, 0) + 1
    if mrec is not None:
        st, detail = langcheck.compare(rec, mrec, cfgs=CFGS)
        out["compare"][st] = out["compare"].get(st, 0) + 1
        if st == "disagree":
            out["disagreements"].append({"stream": "lang-model", "id": cid, "case": src, "detail": detail, "profile": prof})
        # the model must name a site exactly when the implementation panics at the mapped site
        for cfg in CFGS:
            if cfg in rec["runs"] and rec["runs"][cfg][0].startswith("panic:"):
                skey, psite = site_of_panic(langrun.panic_text(rec["runs"][cfg][0]))
                em = mrec["runs"].get(langcheck.MODEL_CFG[cfg], ("", ""))[0]
                if em.startswith("panic:") and psite and em[6:] != psite:
                    out["disagreements"].append({"stream": "panic-site", "id": cid, "case": src, "impl_site": skey,
                                                 "mapped_to": psite, "model": em})
                elif psite is None and em.startswith("panic:"):
                    out["disagreements"].append({"stream": "panic-site-unmapped", "id": cid, "case": src,
                                                 "impl_site": skey, "model": em})
    elif rec.get("ast"):
        out["compare"]["no-model-record"] = out["compare"].get("no-model-record", 0) + 1
    if w:
        if "badast" in w:
            out["disagreements"].append({"stream": "wf-badast", "id": cid, "case": src, "detail": w["badast"]})
        else:
            if w.get("wf") != "1":
                out["disagreements"].append({"stream": "wf_static-rejects-accepted", "id": cid, "case": src, "wf": w})
            # theorem direction: all checkers true => no panic in the matching configuration
            for cfg, text in crashed:
                mc = langcheck.MODEL_CFG.get(cfg)
                if text.startswith(("crash", "timeout")) or site_of_panic(text)[1] is None:
                    continue        # not a modelled site (memory / native): the oracle above reports it
                if mc and w.get("wf") == "1" and scoped_ok[mc] == "1":
                    out["disagreements"].append({"stream": "checkers-pass-but-crash", "id": cid, "case": src, "cfg": cfg,
                                                 "observed": text[:200]})
            for mc in ("n", "p"):
                if scoped_ok[mc] is not None:
                    out["scoped"][mc + scoped_ok[mc]] = out["scoped"].get(mc + scoped_ok[mc], 0) + 1
            # the plan-aware obligation, on the REAL plan of every accepted program: a plan must not turn a
            # well-scoped program into one that is not (wf_scoped skips exactly what the runtime skips)
            if not release and scoped_ok["n"] is not None and scoped_ok["p"] is not None:
                po = out.setdefault("plan_obligation", {})
                jk = "noplan=%s plan=%s" % (scoped_ok["n"], scoped_ok["p"])
                po[jk] = po.get(jk, 0) + 1
                if scoped_ok["n"] == "1" and scoped_ok["p"] == "0":
                    out["disagreements"].append({"stream": "plan-breaks-wf_scoped", "id": cid, "case": src, "plan": rec.get("plan"),
                                                 "observed": "wf_scoped holds without a plan and fails for the plan the analysis built: "
                                                             "the plan prunes a declaration (or function) that a statement which still runs refers to"})


def run_stream(env, name, cases, out, model=True, release=False, reuse=None):
    """-> (impl records, model records, checker records); `reuse` = (model records, checker
    records) of an earlier run of the same cases (the release pass reuses the debug pass's:
    the model does not depend on the build profile)."""
    order = [c for c, _ in cases]
    srcs = dict(cases)
    recs = langrun.run_impl(env, name, cases, CFGS, release=release, timeout=300)
    mrecs, wf = {}, {}
    if reuse is not None:
        mrecs, wf = reuse
    elif model:
        mrecs = run_model_safe(env, name, recs, order)
        wf = run_wf(env, name, recs, order)
    lost = [cid for cid in order if cid not in recs]
    if lost:
        raise RuntimeError("%d of %d cases of shard %s have no implementation record (first: %s)" % (len(lost), len(order), name, lost[0]))
    for cid in order:
        rec = recs.get(cid)
        if rec is None:
            continue
        out["evaluations"] += 1
        judge(env, cid, srcs[cid], rec, mrecs.get(cid) if (model or reuse is not None) else None, wf, out, release)
        if rec.get("accepted"):
            ends = tuple(sorted(set(langrun.ending_class(e) for e, _ in rec["runs"].values())))
            out["endings"][",".join(ends)] = out["endings"].get(",".join(ends), 0) + 1
            if ends != ("ok",):
                out["nontrivial"].add(common.chash(srcs[cid]))
    return recs, mrecs, wf


def private_workdir(env):
    """Env wipes BUILD/work/C06 on construction: a second `bin/check C06` started while this
    one runs (the coordinator's mutation tests do that) would delete our files mid-run."""
    import shutil
    import atexit
    d = "%s.%d" % (env.work.rstrip("/"), os.getpid())
    os.makedirs(d, exist_ok=True)
    env.work = d
    atexit.register(lambda: shutil.rmtree(d, ignore_errors=True))


def correspond(env, searching=False, model=True):
    private_workdir(env)
    quick = env.tier == "quick"
    out = {"evaluations": 0, "accepted": 0, "rejected": 0, "failures": [], "disagreements": [], "compare": {},
           "endings": {}, "crash_keys": {}, "nontrivial": set(), "scoped": {}}
    samples = []
    shapes = list(SHAPES)
    corpus = os.path.join(common.VERIF, "gen", "corpus", "C06")
    if os.path.isdir(corpus):
        for fn in sorted(os.listdir(corpus)):
            shapes.append(("corpus/" + fn, open(os.path.join(corpus, fn)).read()))
    prod = product_cases()
    ngen = 250 if quick else 6000
    if searching:
        ngen *= 2
    gen, gstats = generated_cases(env, ngen)
    ext = extremes_cases(all_pairs_separately=not quick)
    vals = values_cases(env.rng, quick)
    reads = reads_cases()
    streams = [("shapes", shapes), ("product", prod), ("extremes", ext), ("values", vals), ("reads", reads), ("generated", gen)]
    per_stream = {}
    cache = {}
    for name, cases in streams:
        before = (out["evaluations"], out["accepted"])
        shard = 4000 if name != "generated" else 1000
        for s0 in range(0, len(cases), shard):
            _, m_, w_ = run_stream(env, "%s%d" % (name, s0), cases[s0:s0 + shard], out, model=model)
            cache[(name, s0)] = (m_, w_)
        per_stream[name] = {"cases": out["evaluations"] - before[0], "accepted": out["accepted"] - before[1]}
    profiles = ["debug"]
    if not quick:
        ok, o = common.build_harness(release=True)
        if not ok:
            raise RuntimeError("release harness build failed")
        profiles.append("release")
        for name, cases in streams:
            shard = 4000 if name != "generated" else 1000
            for s0 in range(0, len(cases), shard):
                run_stream(env, "r%s%d" % (name, s0), cases[s0:s0 + shard], out, model=model, release=True,
                           reuse=cache.get((name, s0)) if model else None)
    for cid, src in (shapes[:2] + prod[1000:1002]):
        samples.append({"id": cid, "program": src})
    return {
        "evaluations": out["evaluations"],
        "distinct_nontrivial": len(out["nontrivial"]),
        "rule": "one evaluation = one program through the real pipeline in 4 configurations (plan x frame arena), the extracted Lang.run_impl on the "
                "implementation's own AST/plan, and the extracted wf_static/wf_scoped; non-trivial = distinct ACCEPTED program whose run does not simply "
                "end ok in every configuration (runtime error, panic or crash somewhere), i.e. a dynamically typed value actually reached a position it does not fit",
        "samples": samples,
        "failures": out["failures"],
        "disagreements": out["disagreements"],
        "extra": {"exhaustive": True,
                  "exhaustive_what": "type-routing product: %d values x routes x %d uses = %d programs, all run" % (len(VALUES), len(uses()), len(prod)),
                  "extremes_what": "numeric extremes: %d programs; slice with ALL PAIRS of %d bound values on empty/ASCII/multi-byte strings, "
                                   "array index read/assign (flat, nested either level, empty), number methods/printing, find/replace/split/join/pop/len "
                                   "with empty and very long arguments; literal and dynamically typed route each" % (len(ext), len(EXT_VALUES)),
                  "values_what": "built-in value spaces through scripts: %d batch programs; substring search at the boundaries of tw.rs "
                                 "(needle lengths around 1/2/3 and SIMD_THRESHOLD=%d and its multiples, periodic / all-distinct / odd-byte / multi-byte needles, "
                                 "absent needles with every prefix, suffix and byte of the needle at the very end), C13's long_needles / mixed_script_cases / "
                                 "case_strings / tonum_cases, arrays of the boundary sizes; literal and dynamically typed route" % (len(vals), simd_threshold()),
                  "reads_what": "%d programs: %d kinds of read (every expression position incl. interpolation segments, index bases, mutating receivers, "
                                "conditions, write-only) x 10-12 placements (same block, captured in a nested function / a block in it / two deep / from an "
                                "enclosing function / in a loop body, redeclared, reassigned); obligation: wf_scoped(real plan) whenever wf_scoped(no plan)" % (
                                    len(reads), len(READ_KINDS)),
                  "plan_obligation": out.get("plan_obligation", {}),
                  "streams": per_stream, "accepted": out["accepted"], "rejected_by_checker": out["rejected"],
                  "ending_histogram_accepted": out["endings"], "model_compare": out["compare"],
                  "crash_keys": out["crash_keys"], "wf_scoped_histogram": out["scoped"],
                  "resource_exhaustion_runs": out.get("resource_exhaustion", 0),
                  "generator_stats": gstats, "profiles": profiles, "configurations": CFGS},
    }


def replay(env, payload):
    private_workdir(env)
    common.refresh_tables()
    common.build_nsmodel()
    case = payload.get("case") or (payload.get("disagreements") or [{}])[0]
    src = case.get("case")
    if not src:
        print("replay: no concrete program in this file (obligations: %s)" % payload.get("no_longer_checks"))
        return 1
    out = {"evaluations": 0, "accepted": 0, "rejected": 0, "failures": [], "disagreements": [], "compare": {},
           "endings": {}, "crash_keys": {}, "nontrivial": set(), "scoped": {}}
    recs, _, _ = run_stream(env, "replay", [("replay", src)], out, model=True)
    rec = recs.get("replay", {})
    print("program:\n%s" % src)
    print("accepted: %s" % rec.get("accepted"))
    for cfg, (e, v) in sorted(rec.get("runs", {}).items()):
        print("  %s: %s | %s" % (cfg, langrun.panic_text(e)[:200], v[:200]))
    bad = bool(out["failures"] or out["disagreements"])
    for f in out["failures"]:
        print("failure key: %s" % f["key"])
    for d in out["disagreements"]:
        print("disagreement: %s" % d.get("stream"))
    print("replay: %s" % ("still failing" if bad else "passes now"))
    return 1 if bad else 0


# ============================================================================================
# Round 2: "accepted by the static rules" ==> wf_static is a THEOREM
# (Properties/C06.v C06_rules_accept_implies_wf_static, proofs/RulesImplyWf.v):
#     StaticRules.check p = []  /\  ids_consistent p  /\  idx_targets p   ==>   wf_static p
# StaticRules.check is C09's executable model of the resolver's static rules (names only).
# What remains TESTED, on every program of every stream, with the extracted functions on the
# implementation's own resolved AST (nsmodel mode langc06r):
#   (4) resolver accepts  ==>  StaticRules.check = []      (the premise; C09's correspondence
#       requires the full coincidence, this is the direction C06 uses)
#   (5) resolver accepts  ==>  ids_consistent = true and idx_targets = true on the REAL ids:
#       every call carries the FunctionId of the lexically visible definition, FunctionIds are
#       distinct, parameters fit the local-id range; index-assignment targets are index
#       expressions (parser)
#   (6) the theorem instance itself, on accepted AND rejected programs: rules /\ ids /\ idxt
#       ==> wf_static.  It is proved, so a counterexample means the dump / AST reader / extraction
#       no longer present the program the theorem talks about.
# Appended, not edited: the round-1 functions above are wrapped.

TRUSTED_EXTRA[2] = (
    "C06: wf_static of an accepted program is PROVED from `StaticRules.check p = []` (C09's model of the static rules, "
    "tied to src/resolver.rs by C09's correspondence and re-evaluated here on every program) together with "
    "ids_consistent/idx_targets, which are TESTED on the resolver's real ids for every accepted program; "
    "wf_scoped of accepted programs remains a tested implication")
TRUSTED_EXTRA.append("C06: the AST reader of coq/extract/mode_langc06r.ml (copy of mode_langc06.ml's)")

_RULES_TIE = {"hist": {}, "theorem_instances": 0, "premise_true": 0}


def run_rules_tie(env, name, impl_recs, order):
    """nsmodel langc06r on every dumped AST -> id -> {rules, wf, ids, calls, fids, prange, idxt, lexical}"""
    inp = os.path.join(env.work, name + ".rw.in")
    outp = os.path.join(env.work, name + ".rw")
    with open(inp, "w") as f:
        for cid in order:
            r = impl_recs.get(cid)
            if not r or not r.get("ast"):
                continue
            f.write("case %s\n%s\nend %s\n" % (cid, r["ast"], cid))
    rc, out = common.sh([common.NSMODEL, "langc06r", inp, outp], timeout=900)
    if rc != 0:
        raise RuntimeError("nsmodel langc06r failed: %s" % out[-500:])
    res = {}
    cur = None
    for l in open(outp).read().splitlines():
        if l.startswith("case "):
            cur = l[5:]
        elif l.startswith("rw ") and cur:
            t = l.split()
            res[cur] = dict(zip(t[1::2], t[2::2]))
        elif l.startswith("badast") and cur:
            res[cur] = {"badast": l}
    return res


_run_wf_round1 = run_wf


def run_wf(env, name, impl_recs, order):       # noqa: F811
    res = _run_wf_round1(env, name, impl_recs, order)
    rt = run_rules_tie(env, name, impl_recs, order)
    for cid, d in rt.items():
        res.setdefault(cid, {})["rules_tie"] = d
    return res


_judge_round1 = judge


def judge(env, cid, src, rec, mrec, wf, out, release=False):       # noqa: F811
    _judge_round1(env, cid, src, rec, mrec, wf, out, release)
    if release or (rec.get("crash") and rec["crash"][0] == "frontend"):
        return          # the release pass reuses the debug pass's records: judged once
    d = (wf.get(cid) or {}).get("rules_tie")
    if not d or "badast" in d:
        return
    acc = bool(rec.get("accepted"))
    k = "accepted=%d rules=%s ids=%s idxt=%s lexical=%s wf=%s" % (acc, d["rules"], d["ids"], d["idxt"], d.get("lexical"), d["wf"])
    _RULES_TIE["hist"][k] = _RULES_TIE["hist"].get(k, 0) + 1
    _RULES_TIE["theorem_instances"] += 1
    if acc and d["rules"] != "1":
        out["disagreements"].append({"stream": "static-rules-reject-accepted", "id": cid, "case": src, "tie": d})
    if acc and (d["ids"] != "1" or d["idxt"] != "1"):
        out["disagreements"].append({"stream": "ids-inconsistent-on-accepted", "id": cid, "case": src, "tie": d,
                                     "which": [x for x in ("calls", "fids", "prange", "idxt") if d.get(x) != "1"]})
    if acc and d.get("lexical") != "1":
        # hypothesis of C06_function_free_accepted_never_panics / C06_accepted_by_rules_lexical_... (C04's relation)
        out["disagreements"].append({"stream": "lexical-false-on-accepted", "id": cid, "case": src, "tie": d})
    if d.get("lexical") == "1" and d.get("nofn") == "1":
        # theorem instance C06_lexical_function_free_implies_wf_scoped (no plan)
        _RULES_TIE["function_free"] = _RULES_TIE.get("function_free", 0) + 1
        if (wf.get(cid) or {}).get("scoped_n") == "0":
            out["disagreements"].append({"stream": "theorem-instance-violated:lexical-function-free-implies-wf_scoped",
                                         "id": cid, "case": src, "tie": d})
    if d["rules"] == "1" and d["ids"] == "1" and d["idxt"] == "1":
        _RULES_TIE["premise_true"] += 1
        if d["wf"] != "1":
            out["disagreements"].append({"stream": "theorem-instance-violated:rules-accept-implies-wf_static",
                                         "id": cid, "case": src, "tie": d})


_correspond_round1 = correspond


def correspond(env, searching=False, model=True):       # noqa: F811
    _RULES_TIE["hist"] = {}
    _RULES_TIE["theorem_instances"] = 0
    _RULES_TIE["premise_true"] = 0
    _RULES_TIE["function_free"] = 0
    res = _correspond_round1(env, searching=searching, model=model)
    res["extra"]["rules_tie"] = {
        "what": "per program with an AST: resolver verdict x StaticRules.check=[] x ids_consistent x idx_targets x wf_static "
                "(extracted, on the resolver's own ids); theorem: rules & ids & idxt => wf",
        "histogram": dict(_RULES_TIE["hist"]),
        "programs": _RULES_TIE["theorem_instances"],
        "premise_true": _RULES_TIE["premise_true"],
        "lexical_function_free_programs": _RULES_TIE.get("function_free", 0)}
    res["rule"] += "; each program's dumped AST is also run through the extracted StaticRules.check / ids_consistent / idx_targets (theorem premise) "
    return res
