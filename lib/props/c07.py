"""C07 — the front end is total.

Three streams:
  * model correspondence (PROVED part): tokens, lexer diagnostics and the geometry printed by the
    renderer, as produced by src/syntax/scanner.rs + src/diagnostics.rs, against the extracted
    Lexer.v / Render.v (the variant the translator read off the source);
  * monitor (NOT modelled: parser, resolver/analysis): the real Lexer -> Parser -> Resolver ->
    render_ansi pipeline on arbitrary UTF-8 text inside a worker process; every diagnostic / label
    / token span is checked against the executable span_wf predicate (in range, ordered, on
    character boundaries), rendering must succeed, nothing may panic, abort or hang;
  * renderer on arbitrary spans (PROVED part, hypothesis of C07_render_total): Diagnostics::render_ansi on
    every well-formed (span, label spans) of all short texts over {a, TAB, e-acute, CR, LF} and on random
    multi-line spans of CR/LF/CRLF programs, and on every span the parser / resolver produced in the
    monitor run, against the extracted Render.v: line, column, caret and dash counts AND the text of the
    printed source lines; a panic on a well-formed span is a property failure;
  * many diagnostics in one text (200 ... 5000, thorough 20 000; lexer / parser recovery / static errors /
    warnings; LF and CRLF) through the monitor and the real binary: nothing dies, exit status as
    documented, as many diagnostics rendered as produced;
  * gate: the shipped `naija` binary on marked programs: a text with an error-level diagnostic
    must not start the runtime (the marker must not be printed, exit status must be a failure).
"""
import concurrent.futures
import itertools
import os
import re
import subprocess
import time

import common

EXTRA_STREAM_MODULES = ["parser"]   # the parser model's correspondence (lib/props/parser.py) runs as part of this check
TRUSTED_EXTRA = [
    "C07: std functions modelled by their specification: memchr2 (first index of either byte, else len), u8::is_ascii_*, "
    "slice::binary_search on the strictly increasing line-start vector, str::chars (one char per non-continuation byte of valid text), "
    "char::len_utf8 (width announced by the leading byte of valid text)",
    "C07: the parser (src/syntax/parser.rs) and the static checker (src/resolver.rs, src/analysis/*) are NOT modelled in Coq: for them the "
    "check is an executable monitor over generated inputs (span_wf of every span they produce, no panic/abort/hang, rendering succeeds)",
    "C07: harness/src/frontend.rs re-implements the three `if` tests of src/bin/naija/cmd.rs::run_source to report GATE; the gate stream "
    "observes the real naija binary",
]
ASSUMPTIONS = [
    "source text is valid UTF-8 (it is a &str in the implementation; the CLI rejects other files in fs::read_to_string)",
    "arena allocation succeeds (out-of-memory in the arenas is outside the model; inputs are far below the reservations)",
    "native stack depth is outside this property (deeply nested input is property C08)",
]
CAN_RUN_WITHOUT_MODEL = True

KEY_DOT = "lexer-bad-dot-skips-byte"
KEY_ESC = "lexer-escape-splits-char"
KEY_LIVE = "liveness-bitset-index-oob"

BASE_PROGRAMS = [
    'make x get 5\nmake y get x add 2.5 times (3 minus 1)\nshout(y)\n',
    'do add_two(a, b) start\n  return a add b\nend\nshout(add_two(1, 2))\n',
    'make i get 0\njasi (i small pass 10) start\n  if to say (i mod 2 na 0) start\n    shout("even {i}")\n  end\n  if not so start\n    shout(\'odd\')\n  end\n  i get i add 1\nend\n',
    'make arr get [1, 2, [3, 4], "five"]\narr[0] get arr[1] add 1\nshout(arr.len())\nmake s get "a\\tb\\n\\"q\\" \\\\ end"\nshout(s.to_uppercase())\n',
    'make ok get true and not false or null na null\nif to say (ok) start shout("yes") end\njasi (true) start comot end\n# trailing comment',
    'do outer() start\n  make t get 1\n  do inner(z) start\n    return z times t\n  end\n  return inner(4) divide 2\nend\nshout(outer()) # done\n',
]

MULTIBYTE = ["\u00e9", "\u4f60", "\U0001F606", "\u0085", "\u00a0", "\u2028", "\u0301", "\ufeff", "\ufffd", "\u07ff", "\u0800", "\U0010FFFF"]

FRAGMENTS = ["make", "x", "get", "1", "1.", "1.5", ".", "12ab", '"', "'", '"a"', "\\", "\\n", "\\q", "#", "\n", "\r", " ", "\t",
             "if", "to", "say", "not", "so", "small", "pass", "(", ")", "[", ",", "@", "_a1", "start", "end", "do", "return"]

# alphabet of the bounded-exhaustive set (token fragments + multi-byte characters)
ALPHABET = ["1", ".", "a", "if", " to", " say", " not so", "small", " pass", '"', "'", "\\", "n", "#", "\n", "\r", "\r\n", " ", "\t",
            "(", "@", "\u00e9", "\u4f60", "\U0001F606", "_"]


def hx(text):
    b = text.encode("utf-8")
    return b.hex() if b else "-"


def unhx(h):
    return b"".decode() if h == "-" else bytes.fromhex(h).decode("utf-8")


# ---------------------------------------------------------------------------- generators

def base_programs():
    progs = list(BASE_PROGRAMS)
    for sub in ("examples", os.path.join("tests", "stress")):
        d = os.path.join(common.REPO, sub)
        if os.path.isdir(d):
            for fn in sorted(os.listdir(d)):
                if fn.endswith(".ns"):
                    try:
                        t = open(os.path.join(d, fn), encoding="utf-8").read()
                    except (OSError, UnicodeDecodeError):
                        continue
                    if len(t) <= 1300:
                        progs.append(t)
    return progs


TOKEN_RE = re.compile(r'\s+|#[^\n\r]*|"(?:\\.|[^"\\\n\r])*"?|\'(?:\\.|[^\'\\\n\r])*\'?|[A-Za-z_][A-Za-z_0-9]*|[0-9]+(?:\.[0-9]+)?|.', re.S)


def pieces(text):
    return TOKEN_RE.findall(text)


def gen_token_mutations(rng, progs, n):
    pool = [p for t in progs for p in pieces(t) if not p.isspace()]
    out = []
    for _ in range(n):
        ps = pieces(rng.choice(progs))
        for _ in range(rng.randint(1, 4)):
            if not ps:
                break
            i = rng.randrange(len(ps))
            op = rng.random()
            if op < 0.3:
                del ps[i]
            elif op < 0.5:
                ps.insert(i, ps[i])
            elif op < 0.7:
                j = rng.randrange(len(ps))
                ps[i], ps[j] = ps[j], ps[i]
            else:
                ins = rng.choice(pool) if rng.random() < 0.7 else rng.choice(FRAGMENTS + MULTIBYTE)
                ps.insert(i, ins)
        out.append("".join(ps))
    return out


def gen_semantic_mutations(rng, progs, n):
    """Mutations that mostly keep the syntax valid, so that the static checker (resolver, CFG,
    liveness, ...) sees ill-scoped / ill-typed / oddly ordered programs: identifier and literal
    replacement, line swaps, line deletion / duplication, wrapping lines into functions or loops."""
    idents = sorted({p for t in progs for p in pieces(t) if re.fullmatch(r"[A-Za-z_][A-Za-z_0-9]*", p)})
    keywords = {"make", "get", "add", "minus", "times", "divide", "mod", "and", "or", "not", "jasi", "start", "end", "comot",
                "next", "na", "pass", "small", "if", "to", "say", "so", "true", "false", "null", "do", "return"}
    names = [i for i in idents if i not in keywords] or ["x"]
    lits = ["0", "1", "2.5", '"s"', '"{x}"', "true", "false", "null", "[]", "[1, 2]", "x", "f()", "(1 add 2)"]
    out = []
    for _ in range(n):
        lines = rng.choice(progs).split("\n")
        for _ in range(rng.randint(1, 4)):
            if not lines:
                break
            i = rng.randrange(len(lines))
            op = rng.random()
            if op < 0.25:
                ps = pieces(lines[i])
                idx = [k for k, p in enumerate(ps) if p in names]
                if idx:
                    ps[rng.choice(idx)] = rng.choice(names)
                lines[i] = "".join(ps)
            elif op < 0.45:
                ps = pieces(lines[i])
                idx = [k for k, p in enumerate(ps) if re.fullmatch(r"[0-9.]+|\".*\"|true|false|null", p)]
                if idx:
                    ps[rng.choice(idx)] = rng.choice(lits)
                lines[i] = "".join(ps)
            elif op < 0.6:
                j = rng.randrange(len(lines))
                lines[i], lines[j] = lines[j], lines[i]
            elif op < 0.7:
                del lines[i]
            elif op < 0.8:
                lines.insert(i, lines[i])
            elif op < 0.9:
                j = min(len(lines), i + rng.randint(1, 4))
                head = rng.choice(["do w%d() start" % rng.randrange(3), "jasi (true) start", "if to say (true) start", "start"])
                lines[i:j] = [head] + lines[i:j] + ["end"]
            else:
                lines.insert(i, rng.choice(["comot", "next", "return 1", "make %s get %s" % (rng.choice(names), rng.choice(lits)),
                                            "%s get %s" % (rng.choice(names), rng.choice(lits)), "%s()" % rng.choice(names)]))
        out.append("\n".join(lines))
    return out


def gen_noise(rng, progs, n):
    out = []
    for _ in range(n):
        r = rng.random()
        if r < 0.4:
            raw = bytes(rng.randrange(256) for _ in range(rng.randint(1, 60)))
            out.append(raw.decode("utf-8", "replace"))
        elif r < 0.7:
            # printable-heavy noise
            raw = bytes(rng.choice(b' \t\n\r\x0c"\'\\#.,()[]0123456789abcifmnst_\xc3\xa9\xe4\xbd\xa0\xf0\x9f\x98\x86@$') for _ in range(rng.randint(1, 80)))
            out.append(raw.decode("utf-8", "replace"))
        else:
            b = bytearray(rng.choice(progs).encode())
            for _ in range(rng.randint(1, 6)):
                i = rng.randrange(len(b) + 1)
                if rng.random() < 0.5 and i < len(b):
                    b[i] = rng.randrange(256)
                else:
                    b[i:i] = bytes(rng.randrange(256) for _ in range(rng.randint(1, 3)))
            out.append(bytes(b).decode("utf-8", "replace"))
    return out


def gen_adjacency():
    """A multi-byte character next to every token kind and inside every lexical construct."""
    out = []
    kinds = ["make", "if to say", "if not so", "small pass", "if", "small", "x", "_y9", "12", "1.5", "1.", "1..2", "7.", "(", ")",
             "[", "]", ",", ".", '"s"', "'s'", '"', "'", '"a\\n"', '"a\\', '"\\', "'\\", "# c", "#", "\\", "@", "12ab", "\n", "\r\n", "\t"]
    for m in MULTIBYTE:
        for k in kinds:
            for form in (k + m, m + k, k + m + k, k + " " + m, k + m + "\n" + k, "make x get " + k + m, k + m + m):
                out.append(form)
        for q in ('"', "'"):
            for body in (m, "\\" + m, "a\\" + m + "b", m + "\\n" + m, "\\" + m + "\\" + m, "{" + m + "}", "\\"):
                out.append(q + body + q)
                out.append(q + body)
                out.append(q + body + "\n" + q)
                out.append("shout(" + q + body + q + ")")
        out += ["#" + m, "#" + m + "\n1", "# " + m + "\r\n" + m, "x" + m + "y get 1", "1." + m + " 2", "1." + m + "\nshout(1)",
                "make " + m + " get 1", "do f(" + m + ") start end", "x[" + m + "]", "x." + m + "()", "1.2" + m, "1" + m]
    return out


def gen_truncations(progs, limit):
    out = []
    for t in progs:
        if len(out) > limit:
            break
        step = 1 if len(t) <= 400 else 3
        for i in range(0, len(t) + 1, step):
            out.append(t[:i])
    extra = 'make s get "h\u00e9llo \\n \\\u00e9 {x}"\nmake n get 1.\u00e9\n# \u4f60\nshout(s)\n'
    out += [extra[:i] for i in range(len(extra) + 1)]
    return out


def gen_layouts(rng, progs, n):
    seps = [" ", "\n", "\r", "\r\n", "\t", "\x0c", "  ", "\n\n", "\r\n\r\n", " \t ", "\n# c\n", "\r# c\r", "\x0b"]
    out = []
    for _ in range(n):
        ps = [p for p in pieces(rng.choice(progs)) if not p.isspace() and not p.startswith("#")]
        style = rng.choice(seps[:6]) if rng.random() < 0.5 else None
        out.append("".join(p + (style if style is not None else rng.choice(seps)) for p in ps))
    return out



def builtin_names():
    """Names in the `from_name` tables of src/builtins/*.rs (re-read from the tree under test)."""
    names = set()
    d = os.path.join(common.REPO, "src", "builtins")
    if os.path.isdir(d):
        for fn in sorted(os.listdir(d)):
            if fn.endswith(".rs"):
                try:
                    src = open(os.path.join(d, fn), encoding="utf-8").read()
                except OSError:
                    continue
                for m in re.finditer(r"fn\s+from_name[^{]*\{(.*?)\n    \}", src, re.S):
                    names.update(re.findall(r'"([a-z_]+)"\s*=>', m.group(1)))
    return sorted(names) or ["len", "slice", "join", "push", "find", "replace", "split", "abs", "shout", "typeof", "command", "cwd", "env"]


RELAYOUT_SEPS = [" ", "  ", "\n", "\r\n", "\r", "\t", "\r\n\r\n", " \t ", "\n# c\n", "\r\n# c\r\n", ""]


def relayout(rng, text, style=None):
    """Non-canonical layout of a text: the blanks between its pieces are replaced (CR, LF, CRLF, tabs,
    doubled blanks, comments); pieces that were adjacent may get a blank too when that is harmless
    (around punctuation).  `style` fixes one line terminator for the whole text."""
    ps = [p for p in pieces(text) if not p.startswith("#")]
    out = []
    for i, p in enumerate(ps):
        if p.isspace():
            out.append(style if style is not None and "\n" in p else rng.choice(RELAYOUT_SEPS[:-1]) if style is None else (style if rng.random() < 0.3 else " "))
        else:
            out.append(p)
            nxt = ps[i + 1] if i + 1 < len(ps) else ""
            if nxt and not nxt.isspace() and (p in "([,." or nxt in ")],.([") and rng.random() < 0.5:
                out.append(rng.choice([" ", "  ", "\t", style or "\n"]))
    return "".join(out)


def gen_static_errors(rng, n):
    """Programs the parser accepts but the static checker has to reject or warn about: every built-in
    (function or method) applied to receivers and arguments of every literal type and with wrong
    argument counts, undeclared / redeclared names, misplaced comot / next / return, unused and
    unreachable code; each in a canonical and in a non-canonical layout."""
    names = builtin_names()
    recv = ['"str"', "[1, 2]", "5", "true", "null", "s", "a", "n", "cmd", "res", "p", "f()", "a[0]", '"x".trim()']
    lits = ['"t"', "1", "2.5", "true", "null", "[1]", "s", "n", "a", "p", "undeclared", "f()", '"{s}"', "(1 add 2)", "minus 1", "not true"]
    prelude = 'make s get "text"\nmake a get [1, 2, 3]\nmake n get 4\nmake cmd get command("true")\ndo f() start return 1 end\n' \
              'do g(p) start\n  return p\nend\n'
    out = []
    for _ in range(n):
        lines = []
        for _ in range(rng.randint(1, 4)):
            r = rng.random()
            args = ", ".join(rng.choice(lits) for _ in range(rng.choice([0, 1, 1, 1, 2, 2, 3])))
            if r < 0.45:
                call = "%s.%s(%s)" % (rng.choice(recv), rng.choice(names), args)
            elif r < 0.6:
                call = "%s(%s)" % (rng.choice(names + ["f", "g", "h"]), args)
            elif r < 0.7:
                call = "%s %s %s" % (rng.choice(lits), rng.choice(["add", "minus", "times", "divide", "mod", "and", "or", "na", "pass", "small pass"]), rng.choice(lits))
            elif r < 0.8:
                call = "%s[%s]" % (rng.choice(recv), rng.choice(lits))
            else:
                call = rng.choice(lits)
            form = rng.random()
            if form < 0.3:
                lines.append("shout(%s)" % call)
            elif form < 0.5:
                lines.append("make v%d get %s" % (rng.randrange(3), call))
            elif form < 0.6:
                lines.append("%s get %s" % (rng.choice(["s", "a", "n", "a[0]", "zz", "a[n]"]), call))
            elif form < 0.7:
                lines.append("if to say (%s) start\n  shout(1)\nend" % call)
            elif form < 0.78:
                lines.append("jasi (%s) start\n  comot\n  shout(2)\nend" % call)
            elif form < 0.85:
                lines.append(rng.choice(["comot", "next", "return %s" % call, "do f() start end", "do g(p, p) start return p end"]))
            else:
                lines.append(call)
        text = prelude + "\n".join(lines) + "\n"
        out.append(text)
        out.append(relayout(rng, text, rng.choice([None, "\r\n", "\r", "\n"])))
    return out


def spaced(text, gap):
    """The text with `gap` between all of its pieces (every place where layout may vary)."""
    ps = [p for p in pieces(text) if not p.isspace() and not p.startswith("#")]
    return gap.join(ps) + gap


def gen_static_matrix():
    """Systematic counterpart of gen_static_errors: every built-in name as a method of every kind of
    receiver and as a function, with every kind of first argument and 0-3 arguments; every binary and
    unary operator on every pair of literal kinds; every kind of value as condition / index / callee.
    Each program is otherwise clean (no lexical or syntactic diagnostic), so the static checker runs and
    its type / arity / name diagnostics are produced; each comes in three layouts (canonical, one blank
    in every gap, CRLF in every gap) so that spans computed from several nodes are exercised with
    material between the nodes."""
    names = builtin_names()
    prelude = 'make s get "t"\nmake a get [1, 2]\nmake n get 4\nmake b get true\nmake cmd get command("true")\nmake res get cmd.run()\n'
    recvs = ['"t"', "s", "[1, 2]", "a", "5", "n", "b", "null", "cmd", "res", "a[0]"]
    kinds = ['"x"', "7", "true", "null", "[1]", "q"]           # q: undeclared outside g, dynamic inside
    argp = [[]] + [[k] for k in kinds] + [['"x"', "7"], ["7", '"x"'], ["7", "7", "7"]]
    progs = []
    for m in names:
        for ap in argp:
            args = ", ".join(ap)
            for r in recvs:
                progs.append(prelude + "shout(%s.%s(%s))\n" % (r, m, args))
            progs.append(prelude + "do g(p, q) start\n  shout(p.%s(%s))\n  return p\nend\n" % (m, args))
            progs.append(prelude + "shout(%s(%s))\n" % (m, args))
    ops = ["add", "minus", "times", "divide", "mod", "and", "or", "na", "pass", "small pass"]
    lit = ['"x"', "7", "true", "null", "[1]", "s", "a", "n"]
    for o in ops:
        for x in lit:
            for y in lit:
                progs.append(prelude + "make v get %s %s %s\nshout(v)\n" % (x, o, y))
    for x in lit:
        progs.append(prelude + "shout(minus %s)\nshout(not %s)\n" % (x, x))
        progs.append(prelude + "if to say (%s) start\n  shout(1)\nend\nif not so start\n  shout(2)\nend\n" % x)
        progs.append(prelude + "jasi (%s) start\n  comot\nend\n" % x)
        progs.append(prelude + "shout(a[%s])\na[%s] get 1\nshout(%s[0])\n" % (x, x, x))
        progs.append(prelude + "shout(%s())\nshout(s(%s))\n" % (x if x[0].isalpha() else "zz", x))
    # every other static rule once: names, redeclaration, arity of user functions, misplaced control flow,
    # unreachable / unused code (warnings), nested functions and captures
    misc = ["make s get 1\n", "shout(zz)\n", "zz get 1\n", "zz[0] get 1\n", "comot\n", "next\n", "return 1\n",
            "do f(x, x) start\n  return x\nend\n", "do f() start\n  return 1\nend\ndo f() start\n  return 2\nend\n",
            "do f(x) start\n  return x\nend\nshout(f())\nshout(f(1, 2))\n", "do f() start\n  return 1\n  shout(2)\nend\nshout(f())\n",
            "do f() start\n  comot\nend\n", "jasi (b) start\n  do h() start\n    next\n  end\n  comot\nend\n",
            "do unused() start\n  make u get 1\nend\n", "make w get 1\nw get 2\n", "do f() start\n  make s get 2\n  return s\nend\nshout(f())\n",
            "do f() start\n  do k() start\n    return n add zz\n  end\n  return k()\nend\nshout(f())\n",
            "if to say (b) start\n  make n get 1\n  shout(n)\nend\n", "start\n  make a get 1\n  shout(a)\nend\nshout(a.nope())\n",
            "do make() start end\n", "shout(f)\ndo f() start end\n", "make r get g2()\ndo g2() start\n  return r\nend\n"]
    progs += [prelude + m for m in misc]
    out = []
    for t in progs:
        out.append(t)
        out.append(spaced(t, " "))
        out.append(spaced(t, "\r\n"))
    return out


STRING_PIECES = ["a", " ", "\\\"", "\u00e9", "\u2192", "\U0001F606", "\\n", "\\t", "\\\\", "\\q", "{{", "}}", "{x}", "{u}", "{ x }", "{  u }",
                 "{", "}", "{1}", "{x y}", "\\\u00e9", "\\{"]


def gen_string_rich(rng, quick):
    """Diagnostics inside and right after rich string literals.  A literal's content is a sequence of
    pieces: plain / 2- / 3- / 4-byte characters, valid and invalid escapes, `{{` `}}`, placeholders of a
    declared (x) and an undeclared (u) variable, padded placeholders, malformed placeholders, the closing
    quote escaped.  Bounded-exhaustive up to 3 pieces in a context that reaches the static checker, plus
    random longer ones in more contexts: both quote characters, something statically wrong FOLLOWING the
    string on the same line (undeclared name, unknown method, wrong operand type, wrong argument type),
    strings as conditions / indexes / arguments / return values, unreachable and unused code after them,
    CRLF line ends."""
    out = []
    ctx_small = ['make x get 1\nshout("%s")\n', "make x get 1\nmake v get '%s' add u\n"]
    for k in range(0, 4):
        for w in itertools.product(STRING_PIECES, repeat=k):
            body = "".join(w)
            if k == 3 and not any(p in ("{u}", "{  u }", "\\q", "{1}", "{x y}", "{", "\\\u00e9") for p in w):
                continue      # nothing in it can carry a diagnostic: keep only the shorter ones
            out.append(ctx_small[0] % body)
            if k <= 2:
                out.append(ctx_small[1] % body.replace("'", ""))
    ctx = ['make x get 1\nshout("%s")\n', "make x get 1\nshout('%s')\n", 'make x get 1\nshout("%s" add u)\n',
           'make x get 1\nshout("%s".nope(), zz)\n', 'make x get 1\nshout("%s" minus 1)\n', 'make x get 1\nshout(["a"].join("%s", 2), [1].join(3))\n',
           'make x get 1\nif to say ("%s") start\n  shout(x)\nend\n', 'make x get 1\nmake a get [1]\nshout(a["%s"])\n',
           'do f(x) start\n  return "%s"\n  shout("%s")\nend\nshout(f(1))\n', 'make x get 1\nmake w get "%s"\nmake w2 get "%s" make x get 2\n',
           'make x get 1\nshout("%s") shout(u) # \u00e9\n', 'make x get 1\nshout("%s", "%s")\nu get "%s"\n',
           'make x get 1\nmake s get "%s"\nshout(s.%s)\n']
    for _ in range(1500 if quick else 40000):
        n = rng.randint(2, 7)
        bodies = ["".join(rng.choice(STRING_PIECES) for _ in range(rng.randint(1, n))) for _ in range(3)]
        c = rng.choice(ctx)
        k = c.count("%s")
        if c.endswith("s.%s)\n"):
            text = c % (bodies[0], rng.choice(["len()", "nope()", "slice(\"%s\", 1)" % bodies[1], "find({x})", "find(\"{u}\u2192\")"]))
        else:
            text = c % tuple(bodies[:k])
        if "'%s'" in c:
            text = text.replace("\\\"", "\\'")
        r = rng.random()
        if r < 0.2:
            text = text.replace("\n", "\r\n")
        elif r < 0.3:
            text = spaced(text, rng.choice([" ", "\r\n", "\t"]))
        out.append(text)
    return out


def gen_token_truncations(rng, progs, limit):
    """Texts that end exactly after a token, one byte before and one byte after that point, for every
    token of the sample programs and of a set of nested unclosed constructs (so the end of input is met
    inside every construct after every kind of token)."""
    nests = ["do f(a, b) start\n  make t get [1, a.len(), \"s{a}\"] add a . len ( ) \n  if to say (t na 1 and not b) start\n    jasi (true) start\n      comot\n      next\n    end\n  end\n"
             "  if not so start\n    return t[0] small pass 2\n  end\n  t[0] get null\n  do g() start return f(1, 2) end\nend\nmake x get f(1, false) minus 2.5 times (3 mod 2) divide 1 or true\n"]
    texts = list(nests) + list(progs)
    out = []
    for t in texts:
        if len(out) > limit:
            break
        b = t.encode("utf-8")
        pos = 0
        cuts = set()
        for p in pieces(t):
            pos += len(p.encode("utf-8"))
            if not p.isspace():
                cuts.update((pos - 1, pos, pos + 1))
        for c in sorted(cuts):
            if 0 < c <= len(b):
                out.append(b[:c].decode("utf-8", "ignore"))
    return out


def gen_tinygen(rng, n):
    """Programs of the shared tiny-vocabulary grammar fuzzer (lib/tinygen.py, whole grammar, template
    strings, heavy name reuse), each also cut at random token boundaries (and one byte either side),
    re-laid-out (blank / CRLF in every gap) and with an error injected: a string literal's content
    replaced by rich pieces (escapes, braces, multi-byte characters, undeclared placeholders)."""
    try:
        import tinygen
    except Exception:
        return []
    out = []
    for _ in range(n):
        try:
            src = tinygen.gen(rng)[0]
        except Exception:
            continue
        out.append(src)
        out.append(spaced(src, rng.choice([" ", "\r\n", "\t", "  "])) if rng.random() < 0.6 else src.replace("\n", "\r\n"))
        b = src.encode("utf-8")
        pos, cuts = 0, []
        for p in pieces(src):
            pos += len(p.encode("utf-8"))
            if not p.isspace():
                cuts.append(pos)
        for c in rng.sample(cuts, min(3, len(cuts))):
            c += rng.choice([-1, 0, 0, 1])
            if 0 < c <= len(b):
                out.append(b[:c].decode("utf-8", "ignore"))
        ps = pieces(src)
        strs = [i for i, p in enumerate(ps) if len(p) >= 2 and p[0] in "\"'" and p[-1] == p[0]]
        if strs:
            i = rng.choice(strs)
            q = ps[i][0]
            body = "".join(rng.choice(STRING_PIECES) for _ in range(rng.randint(1, 5)))
            ps[i] = q + (body.replace("\\\"", "\\'") if q == "'" else body) + q
            out.append("".join(ps))
    return out


def gen_relayouts_of(rng, texts, n):
    """Non-canonical layouts (incl. CR / CRLF line ends) of texts from the error-producing streams."""
    out = []
    if not texts:
        return out
    for _ in range(n):
        t = rng.choice(texts)
        r = rng.random()
        if r < 0.35:
            out.append(t.replace("\r\n", "\n").replace("\n", "\r\n"))
        elif r < 0.5:
            out.append(t.replace("\r\n", "\n").replace("\n", "\r"))
        else:
            out.append(relayout(rng, t, rng.choice([None, "\r\n", "\r", "\n"])))
    return out


def gen_line_end_errors():
    """Every lexical / syntactic error shape that can sit at the end of a line or of the text, in front of
    every line terminator, with and without something still open at the end of input."""
    ends = ["", "\n", "\r", "\r\n", "\n\n", "\r\n\r\n", " \r\n", "\r\n ", "\t\r\n", "\r\r\n", "\n\r"]
    tails = ['"abc', '"abc\\', "'abc\\", '"a\\q', '"', '"\\', "1.", "12ab", "@", "\u00e9", "x get", "x get 1 add", "x[", "x[1", "f(", "f(1,",
             "x.", "x.y", "x.y(", "# c", "make", "make x", "make x get", "if to say (", "if to say (x", "if to say (x)", "jasi (x) start",
             "do f(", "do f(a", "do f(a)", "do f(a) start", "start", "return", "[1, ", "(", "(1", "not", "minus", '"a" add', '"{', '"{x']
    opens = ["", "shout(", "make y get [", "x[", "do f() start\n", "if to say (true) start\r\n", "shout(1)\r\n", "make s get "]
    out = []
    for e in ends:
        for t in tails:
            for o in opens:
                out.append(o + t + e)
                if e:
                    out.append("make k get 1" + e + o + t + e)
    return out


def gen_many_locals(rng, n):
    """Programs with many locals in nested functions (DESIGN section 7 row 11)."""
    out = []
    for _ in range(n):
        inner_n = rng.choice([1, 5, 30, 62, 63, 64, 65, 70, 100, 130, 200])
        before = rng.randint(0, 3)
        after = rng.randint(0, 4)
        depth = rng.choice([0, 0, 1, 2])
        ind = "  " * depth
        body = []
        for i in range(before):
            body.append("%smake a%d get %d" % (ind, i, i))
        body.append("%sdo g(p) start" % ind)
        for i in range(inner_n):
            body.append("%s  make v%d get p add %d" % (ind, i, i))
        if rng.random() < 0.3:
            body.append("%s  do h() start make w get 1 return w end" % ind)
        body.append("%s  return v0" % ind if inner_n else "%s  return p" % ind)
        body.append("%send" % ind)
        for i in range(after):
            body.append("%smake b%d get %s" % (ind, i, "g(%d)" % i if rng.random() < 0.5 else str(i)))
        uses = ["a%d" % i for i in range(before)] + ["b%d" % i for i in range(after)]
        if uses:
            body.append("%sshout(%s)" % (ind, " add ".join(uses)))
        text = "\n".join(body) + "\n"
        for d in range(depth):
            text = "do f%d() start\n%s  return 0\nend\nf%d()\n" % (d, text, d)
        out.append(text)
    return out


def gen_exhaustive(maxlen):
    for k in range(maxlen + 1):
        for w in itertools.product(ALPHABET, repeat=k):
            yield "".join(w)


def corpus_cases():
    d = os.path.join(common.VERIF, "gen", "corpus", "C07")
    out = []
    if os.path.isdir(d):
        for fn in sorted(os.listdir(d)):
            for l in open(os.path.join(d, fn), encoding="utf-8").read().splitlines():
                l = l.strip()
                if l and not l.startswith("#"):
                    try:
                        out.append(unhx(l.split()[0]))
                    except (ValueError, UnicodeDecodeError):
                        pass
    return out


def gen_cases(env):
    rng = env.rng
    quick = env.tier == "quick"
    progs = base_programs()
    adjacency = gen_adjacency()
    tokmut = gen_token_mutations(rng, progs, 1500 if quick else 40000)
    semmut = gen_semantic_mutations(rng, progs, 1500 if quick else 40000)
    noise = gen_noise(rng, progs, 1500 if quick else 40000)
    static = gen_static_errors(rng, 700 if quick else 20000)
    streams = [
        ("corpus", corpus_cases()),
        ("adjacency", adjacency),
        ("line-end-errors", gen_line_end_errors()),
        ("token-mutation", tokmut),
        ("semantic-mutation", semmut),
        ("static-errors", static),
        ("static-matrix", gen_static_matrix()),
        ("string-rich", gen_string_rich(rng, quick)),
        ("token-truncation", gen_token_truncations(rng, progs, 9000 if quick else 10 ** 9)),
        ("tinygen", gen_tinygen(rng, 600 if quick else 15000)),
        ("byte-noise", noise),
        ("relayout-of-errors", gen_relayouts_of(rng, adjacency + tokmut + semmut + noise, 1500 if quick else 40000)),
        ("truncation", gen_truncations(progs, 6000 if quick else 10 ** 9)),
        ("layout", gen_layouts(rng, progs, 400 if quick else 8000)),
        ("many-locals", gen_many_locals(rng, 60 if quick else 1500)),
        ("exhaustive", list(gen_exhaustive(3 if quick else 4))),
    ]
    cases, origin = [], []
    seen = set()
    counts = {}
    for name, lst in streams:
        k = 0
        for t in lst:
            try:
                t.encode("utf-8")
            except UnicodeEncodeError:
                continue
            if "\x00" in t and False:
                continue
            h = hx(t)
            if h in seen:
                continue
            seen.add(h)
            cases.append(h)
            origin.append(name)
            k += 1
        counts[name] = k
    return cases, origin, counts


# ---------------------------------------------------------------------------- running

def parse_blocks(text):
    """{index: (lines, complete)} from a harness/model output."""
    blocks = {}
    cur, idx = None, None
    for l in text.split("\n"):
        if l.startswith("CASE "):
            idx = int(l.split()[1])
            cur = []
            blocks[idx] = (cur, False)
        elif l.startswith("END ") and cur is not None:
            blocks[idx] = (cur, True)
            cur = None
        elif cur is not None:
            cur.append(l)
    return blocks


def run_impl_shard(env, name, hexes, release=False, per_case_timeout=10.0, nolex=False):
    """Runs the cases in one worker process; a death or hang is attributed to the case whose
    block is incomplete, confirmed by running that case alone, and the batch resumes after it.
    Returns {local index: (lines, status)} with status ok | died:<rc> | hang."""
    inp = os.path.join(env.work, name + ".in")
    outp = os.path.join(env.work, name + ".impl")
    open(inp, "w").write("\n".join(hexes) + "\n")
    results = {}
    start = 0
    n = len(hexes)
    while start < n:
        if os.path.exists(outp):
            os.remove(outp)
        budget = 60 + 0.02 * (n - start)
        cmd = [common.harness_bin(release), "frontend", "--from", str(start)] + (["--nolex"] if nolex else []) + [inp, outp]
        rc, out = common.sh(cmd, timeout=budget)
        text = open(outp, encoding="utf-8", errors="replace").read() if os.path.exists(outp) else ""
        blocks = parse_blocks(text)
        last_incomplete = None
        for i, (lines, complete) in blocks.items():
            if complete:
                results[i] = (lines, "ok")
            else:
                last_incomplete = i
        if rc == 0 and last_incomplete is None:
            break
        if last_incomplete is None:
            # died between cases or before the first: cannot attribute; treat as infrastructure error
            raise RuntimeError("harness failed outside a case (rc=%s): %s" % (rc, out[-400:]))
        # per-case fallback: the suspect alone
        one_in = os.path.join(env.work, name + ".one.in")
        one_out = os.path.join(env.work, name + ".one.impl")
        open(one_in, "w").write(hexes[last_incomplete] + "\n")
        if os.path.exists(one_out):
            os.remove(one_out)
        rc1, out1 = common.sh([common.harness_bin(release), "frontend", one_in, one_out], timeout=per_case_timeout)
        t1 = open(one_out, encoding="utf-8", errors="replace").read() if os.path.exists(one_out) else ""
        b1 = parse_blocks(t1).get(0, ([], False))
        if rc1 == 0 and b1[1]:
            # not reproducible alone (batch timeout on a slow machine): keep the single-run result
            results[last_incomplete] = (b1[0], "ok")
        elif rc1 == 124:
            results[last_incomplete] = (b1[0], "hang")
        else:
            msg = [l for l in out1.splitlines() if "panicked at" in l or "precondition" in l or "overflow" in l]
            results[last_incomplete] = (b1[0] + ["STDERR " + " | ".join(msg)[:300]], "died:%s" % rc1)
        start = last_incomplete + 1
    return results


def run_model(env, name, hexes, variant):
    inp = os.path.join(env.work, name + ".min")
    outp = os.path.join(env.work, name + ".model")
    open(inp, "w").write("\n".join(hexes) + "\n")
    rc, out = common.sh([common.NSMODEL, "frontend", variant, inp, outp], timeout=1800)
    if rc != 0 or not os.path.exists(outp):
        return None, out
    blocks = parse_blocks(open(outp, encoding="utf-8", errors="replace").read())
    return {i: b[0] for i, b in blocks.items() if b[1]}, ""


LABELS = {
    "I no sabi dis character": "0",
    "I no sabi dis escape character": "0",
    "Dis number no get digit after `.`": "0",
    "Identifier must start with letter or underscore": "0",
    "Dis identifier get invalid character": "1",
}


def canon_impl_lex(lines):
    """Token / lexer-diagnostic / geometry lines of the implementation in the model's format."""
    out = []
    for l in lines:
        if l == "LEXEND":
            break
        if l.startswith("T ") or l.startswith("RD "):
            out.append(l)
        elif l.startswith("D "):
            w = l.split()
            msg, s, e, ls, le, lm = w[1], w[2], w[3], w[4], w[5], w[6]
            try:
                label = unhx(lm)
            except (ValueError, UnicodeDecodeError):
                label = "?"
            m = re.fullmatch(r"Dis string no get ending quote `(.)`", label)
            cls = str(ord(m.group(1))) if m else LABELS.get(label, "?" + label)
            if (ls, le) != (s, e):
                cls += " label-span-differs"
            out.append("D %s %s %s %s" % (msg, s, e, cls))
    return out


def canon_model_lex(lines):
    return [l for l in lines if l.startswith(("T ", "D ", "RD ", "LEXPANIC", "OUTOFFUEL"))]


def oracle(lines, status):
    """Property oracle on the implementation's observation of one case: list of problems."""
    probs = []
    if status != "ok":
        probs.append(status + " " + " ".join(l for l in lines if l.startswith("STDERR")))
    for l in lines:
        if l.startswith(("BAD ", "PANIC ")) or l == "RD unreadable" or l.endswith("| R unreadable"):
            probs.append(l)
    return probs


def signature(probs):
    p = probs[0]
    p = re.sub(r"\d+", "N", p)
    p = re.sub(r"'[^']*'", "'C'", p)
    return p[:160]


def attribute(env, text, probs, model_ok):
    """Stable key of a failing input.  The two lexer defects are attributed through the model:
    the shipped lexer model leaves the character grid on this text and repairing exactly one
    switch brings it back."""
    for p in probs:
        if p.startswith("PANIC resolve") and "analysis/liveness.rs" in p and "index out of bounds" in p:
            return KEY_LIVE
    if model_ok:
        fixes = classify_with_model(env, text)
        if fixes:
            return fixes
    return "c07:" + signature(probs) + ":" + common.chash(text)


_CLS_CACHE = {}


def classify_with_model(env, text):
    h = hx(text)
    if h in _CLS_CACHE:
        return _CLS_CACHE[h]
    key = None
    res = {}
    for v in ("shipped", "repaired"):
        r, _ = run_model(env, "cls_" + v, [h], v)
        res[v] = r[0] if r and 0 in r else None
    bad = lambda b: b is None or any(l.startswith(("LEXPANIC", "OUTOFFUEL", "RD none")) for l in b) or not model_spans_wf(text, b)
    if bad(res["shipped"]) and not bad(res["repaired"]):
        # which switch? look at the text around the first place where the shipped lexer goes wrong
        has_dot = re.search(r"[0-9]\.[^\x00-\x7f]", text) is not None or re.search(r"[0-9]\.$", text) is not None
        has_esc = re.search(r"\\[^\x00-\x7f]", text) is not None
        if has_dot and not has_esc:
            key = KEY_DOT
        elif has_esc and not has_dot:
            key = KEY_ESC
        elif has_dot and has_esc:
            key = KEY_DOT if re.search(r"[0-9]\.[^\x00-\x7f]", text).start() < re.search(r"\\[^\x00-\x7f]", text).start() else KEY_ESC
    _CLS_CACHE[h] = key
    return key


def model_spans_wf(text, block):
    b = text.encode("utf-8")

    def boundary(i):
        return i == 0 or i == len(b) or (i < len(b) and (b[i] & 0xC0) != 0x80)
    for l in block:
        if l.startswith(("T ", "D ")):
            w = l.split()
            s, e = int(w[2]), int(w[3])
            if not (s <= e <= len(b) and boundary(s) and boundary(e)):
                return False
    return True


def shrink(env, text, pred, budget=400):
    """Greedy character-wise delta debugging while pred(text) holds."""
    cur = text
    n = 0
    lines = cur.split("\n")
    i = 0
    while len(lines) > 1 and i < len(lines) and n < budget:
        cand = "\n".join(lines[:i] + lines[i + 1:])
        n += 1
        if pred(cand):
            lines = lines[:i] + lines[i + 1:]
        else:
            i += 1
    cur = "\n".join(lines)
    chunk = max(1, len(cur) // 2)
    while chunk >= 1 and n < budget:
        i = 0
        changed = False
        while i < len(cur) and n < budget:
            cand = cur[:i] + cur[i + chunk:]
            n += 1
            if cand != cur and pred(cand):
                cur = cand
                changed = True
            else:
                i += chunk
        if not changed:
            chunk //= 2
    return cur


def run_one(env, text, release=False):
    r = run_impl_shard(env, "one", [hx(text)], release)
    return r.get(0, ([], "died:?"))



# ---------------------------------------------------------------------------- renderer on arbitrary spans

RENDER_ALPHABET = ["a", "\t", "é", "\r", "\n"]


def boundaries(b):
    return [i for i in range(len(b) + 1) if i == 0 or i == len(b) or (b[i] & 0xC0) != 0x80]


def render_cases(env):
    """(hex text, diagnostic span, label spans) with every span well formed: the hypothesis of
    C07_render_total, independent of which spans today's front end happens to produce.
    Bounded-exhaustive: all texts over {a, TAB, e-acute, CR, LF} up to a length, every (start, end) on
    boundaries with one label on the same span; for the shorter texts also a second label on every other
    position (same-line and cross-line labels, empty spans, spans on and across line terminators).
    Random: CR / LF / CRLF versions of sample programs with random multi-line spans."""
    quick = env.tier == "quick"
    rng = env.rng
    alpha = RENDER_ALPHABET + ([] if quick else ["你", " "])
    lmax, lmax2 = (5, 3) if quick else (6, 4)
    out = []
    for k in range(lmax + 1):
        for w in itertools.product(alpha, repeat=k):
            b = "".join(w).encode("utf-8")
            h = b.hex() if b else "-"
            bs = boundaries(b)
            for i, a in enumerate(bs):
                for e in bs[i:]:
                    out.append("%s %d %d 1 %d %d" % (h, a, e, a, e))
                    if k <= lmax2:
                        for c in bs:
                            out.append("%s %d %d 2 %d %d %d %d" % (h, a, e, a, e, c, c))
                            out.append("%s %d %d 1 %d %d" % (h, a, e, c, len(b)))
    progs = base_programs()
    for _ in range(150 if quick else 3000):
        t = rng.choice(progs)[:rng.randint(20, 400)]
        t = t.replace("\n", rng.choice(["\n", "\r\n", "\r", "\r\n", "\t\r\n"]))
        if rng.random() < 0.3:
            t = t.replace(" ", rng.choice([" ", "\t", " é"]), rng.randint(1, 5))
        b = t.encode("utf-8")
        bs = boundaries(b)
        # positions of interest: around every line terminator and the end
        hot = sorted({j for i, x in enumerate(b) if x in (10, 13) for j in (i - 1, i, i + 1) if 0 <= j <= len(b) and j in set(bs)} | {0, len(b)})
        for _ in range(10):
            pick = lambda: rng.choice(hot) if rng.random() < 0.6 else rng.choice(bs)
            a, e = sorted((pick(), pick()))
            c, d = sorted((pick(), pick()))
            out.append("%s %d %d 2 %d %d %d %d" % (b.hex(), a, e, a, e, c, d))
    return out


def run_render_pair(env, name, lines):
    """(impl lines, model lines) for renderer input lines; impl in shards (a dead worker is an error)."""
    def one(i, part):
        inp = os.path.join(env.work, "%s_%d.rin" % (name, i))
        open(inp, "w").write("\n".join(part) + "\n")
        oi, om = inp + ".impl", inp + ".model"
        rc1, o1 = common.sh([common.harness_bin(False), "frontend", "--render", inp, oi], timeout=600)
        rc2, o2 = common.sh([common.NSMODEL, "frontend_render", inp, om], timeout=600) if os.path.exists(common.NSMODEL) else (1, "no nsmodel")
        li = open(oi, encoding="utf-8", errors="replace").read().split("\n")[:-1] if rc1 == 0 and os.path.exists(oi) else None
        lm = open(om, encoding="utf-8", errors="replace").read().split("\n")[:-1] if rc2 == 0 and os.path.exists(om) else None
        return i, li, lm, (o1[-300:] if rc1 else "") + (o2[-300:] if rc2 else "")
    size = max(1, (len(lines) + 7) // 8)
    parts = [lines[i:i + size] for i in range(0, len(lines), size)]
    impl, model, errs = [], [], []
    with concurrent.futures.ThreadPoolExecutor(max_workers=8) as ex:
        res = sorted(ex.map(lambda a: one(*a), enumerate(parts)))
    for i, li, lm, err in res:
        n = len(parts[i])
        if err:
            errs.append(err)
        impl += li if li is not None and len(li) == n else [None] * n
        model += lm if lm is not None and len(lm) == n else [None] * n
    return impl, model, errs


def compare_render(env, name, lines, impl_given=None):
    """Returns (failures, disagreements, evaluated).  impl_given: read-backs already produced by the
    pipeline run (G lines); otherwise the renderer is run on the lines."""
    failures, disagreements = [], []
    if not lines:
        return failures, disagreements, 0
    if impl_given is None:
        impl, model, errs = run_render_pair(env, name, lines)
    else:
        _, model, errs = run_render_pair(env, name, lines)
        impl = impl_given
    for e in errs[:1]:
        disagreements.append({"stream": "render-model", "error": e})
    seen_f, seen_d = set(), 0
    for l, a, b in zip(lines, impl, model):
        if a is None or b is None:
            continue
        if a.startswith("R PANIC") or a == "R unreadable":
            sig = re.sub(r"\d+", "N", a)[:120]
            if sig not in seen_f:
                seen_f.add(sig)
                w = l.split()
                failures.append({"key": "c07:render:" + sig + ":" + common.chash(l), "case": w[0], "text": unhx(w[0]),
                                 "spans": " ".join(w[1:]), "observed": a, "model": b, "origin": name})
        elif a != b:
            seen_d += 1
            if seen_d <= 3:
                w = l.split()
                disagreements.append({"stream": "render-model", "case": w[0], "text": unhx(w[0]), "spans": " ".join(w[1:]),
                                      "impl": a, "model": b, "origin": name})
            else:
                disagreements.append({"stream": "render-model"})
    return failures, disagreements, len(lines)


# ---------------------------------------------------------------------------- many diagnostics in one text

KEY_MANY = "many-diagnostics-abort"
MANY_SYNTAX = ["shout(1", "make make get 1", "x.", "start ) end"]


def many_text(kind, n, nl):
    """A text that makes one producer emit about n diagnostics, mixed with valid lines."""
    L = []
    for k in range(n):
        fill = k % 4 == 0
        if kind == "lexical":
            L.append("@" if k % 3 else "make w%d get 1 $" % k)
            if fill:
                L.append("make v%d get %d" % (k, k))
        elif kind == "syntax":
            L.append(MANY_SYNTAX[k % len(MANY_SYNTAX)])
            L.append("make v get 1")                      # a statement keyword: where recovery stops
        elif kind == "undeclared":
            L.append("u%d" % k if k % 2 else "shout(u%d)" % k)
            if fill:
                L.append("shout(%d)" % k)
        elif kind == "unused":            # warnings only: the program is accepted and runs
            if k % 2 == 0:
                L.append("make v%d get %d" % (k, k))
        elif kind == "type":
            L.append('shout(%d minus "a")' % k if k % 2 else "shout(not %d)" % k)
            if fill:
                L.append("shout(%d)" % k)
    return nl.join(L) + nl


HEADER_RE = re.compile(rb"(?m)^\x1b\[1m\x1b\[3[134]m(?:error|warning|note)\[")


def many_diagnostics_stream(env):
    """Texts with hundreds to thousands of diagnostics of one producer (lexer, parser with recovery,
    static errors, static warnings), LF and CRLF.  Oracle: the monitor run (span_wf of every span, no
    panic / death, the set renders and contains one location line per diagnostic) and the real naija
    binary: exit status 1 (0 for warnings only), no panic / abort / signal / timeout, and as many
    rendered diagnostics as the front end produced."""
    quick = env.tier == "quick"
    sizes = [200, 1000, 5000] if quick else [200, 1000, 5000, 20000]
    ok, out = common.build_naija()
    bin_ = common.naija_bin() if ok else None
    jobs = [(kind, n, nl) for n in sizes for kind in ("lexical", "syntax", "undeclared", "unused", "type")
            for nl in (("\n", "\r\n") if n <= 5000 else ("\r\n",))]
    jobs.sort(key=lambda j: -j[1])          # longest first
    limit = 180 if quick else 1500         # measured: 5000 diagnostics on 50 KB take 4-15 s in the debug binary

    def one(job):
        kind, n, nl = job
        name = "many_%s_%d_%s" % (kind, n, "crlf" if nl == "\r\n" else "lf")
        text = many_text(kind, n, nl)
        t0 = time.time()
        r = run_impl_shard(env, name, [hx(text)], release=(n > 5000), per_case_timeout=limit, nolex=True)
        lines, status = r.get(0, ([], "died:?"))
        probs = oracle(lines, status)
        produced = None
        for l in lines:
            w = l.split()
            if w and w[0] == "RCOUNT" and w[2] != w[3]:
                probs.append("rendered %s of %s %s diagnostics" % (w[2], w[3], w[1]))
            if w and w[0] in ("PD", "RS"):
                produced = int(w[1])
        gate = next((l.split()[1] for l in lines if l.startswith("GATE ")), None)
        obs = {"kind": kind, "n": n, "nl": "CRLF" if nl == "\r\n" else "LF", "bytes": len(text.encode()), "produced": produced}
        if bin_ and n <= 5000 and not probs:
            path = os.path.join(env.work, name + ".ns")
            open(path, "w", encoding="utf-8", newline="").write(text)
            try:
                p = subprocess.run([bin_, path], stdout=subprocess.PIPE, stderr=subprocess.PIPE, timeout=limit, stdin=subprocess.DEVNULL)
                rc, outb = p.returncode, p.stdout + p.stderr
            except subprocess.TimeoutExpired:
                rc, outb = "timeout", b""
            rendered = len(HEADER_RE.findall(outb))
            want_rc = 0 if gate == "run" else 1
            obs.update({"naija_rc": rc, "rendered": rendered})
            if rc != want_rc:
                msg = [l for l in outb.decode("utf-8", "replace").splitlines() if "panicked at" in l or "memory allocation" in l or "overflow" in l]
                probs.append("naija exit %s (expected %d) %s" % (rc, want_rc, " | ".join(msg)[:200]))
            elif produced is not None and rendered != produced:
                probs.append("naija rendered %d diagnostics, the front end produced %d" % (rendered, produced))
        if produced is not None and produced < n // 2:
            obs["weak"] = "only %d diagnostics for n=%d (recovery merged them)" % (produced, n)
        obs["seconds"] = round(time.time() - t0, 1)
        return obs, probs, text

    failures, report = [], []
    with concurrent.futures.ThreadPoolExecutor(max_workers=12) as ex:
        for obs, probs, text in ex.map(one, jobs):
            report.append(obs)
            if probs and not any(f["key"] == KEY_MANY for f in failures):
                failures.append({"key": KEY_MANY, "case": hx(text) if len(text) < 20000 else "-", "text": text[:300] + " ...",
                                 "generator": "many_text(%r, %d, %r)" % (obs["kind"], obs["n"], "\r\n" if obs["nl"] == "CRLF" else "\n"),
                                 "observed": "; ".join(probs)[:500], "shape": obs})
            elif probs:
                failures[-1].setdefault("also", []).append("%s n=%d %s: %s" % (obs["kind"], obs["n"], obs["nl"], probs[0][:120]))
    return {"many_diagnostics": report}, failures


def gate_stream(env, progs, n):
    """The real naija binary: a marked program with an error-level diagnostic must not run."""
    ok, out = common.build_naija()
    if not ok:
        return {"gate_cases": 0, "gate_note": "naija binary did not build"}, []
    rng = env.rng
    # the printed marker must not occur in the source text: diagnostics echo source lines to stdout
    marker = 'shout("C07" add "MARK")\n'
    loops = lambda b: "jasi" in b
    bodies = [b for b in gen_token_mutations(rng, progs, n // 2) if not loops(b)] + [rng.choice(progs) for _ in range(n // 4)] + \
        ["make x get y\n", "comot\n", "make x get 1\nmake x get 2\n", "return 1\n", "shout(1 add \"a\")\n", "f()\n",
         "make x get 1 add\n", "make s get \"unterminated\n", "jasi (1) start end\n", "make x get 1 # fine\n", "shout(\"\\q\")\n"] + \
        [b for b in gen_layouts(rng, progs, n // 4) if not loops(b)]
    texts = [marker + b for b in bodies]
    res = run_impl_shard(env, "gate", [hx(t) for t in texts], nolex=True)
    failures = []
    hist = {}
    bin_ = common.naija_bin()
    for i, t in enumerate(texts):
        lines, status = res.get(i, ([], "died:?"))
        gate = [l.split()[1] for l in lines if l.startswith("GATE ")]
        if status != "ok" or not gate:
            continue
        path = os.path.join(env.work, "gate_%d.ns" % i)
        open(path, "w", encoding="utf-8").write(t)
        try:
            p = subprocess.run([bin_, path], stdout=subprocess.PIPE, stderr=subprocess.PIPE, timeout=5, stdin=subprocess.DEVNULL)
        except subprocess.TimeoutExpired:
            hist["timeout"] = hist.get("timeout", 0) + 1
            continue
        ran = b"C07MARK" in p.stdout
        hist[gate[0] + ("/ran" if ran else "/not-run")] = hist.get(gate[0] + ("/ran" if ran else "/not-run"), 0) + 1
        if gate[0].startswith("norun") and (ran or p.returncode == 0):
            failures.append({"key": "gate-ran-with-errors:" + common.chash(t), "case": hx(t), "text": t,
                             "observed": "error-level diagnostics (%s) but naija %s, exit %d" % (gate[0], "executed the program" if ran else "did not run it", p.returncode)})
        if gate[0] == "run" and not ran and p.returncode in (0,):
            failures.append({"key": "gate-silent:" + common.chash(t), "case": hx(t), "text": t,
                             "observed": "no error-level diagnostic, exit 0, but the first statement did not run"})
    return {"gate_cases": len(texts), "gate_outcomes": hist}, failures


def correspond(env, searching=False, model=True):
    t0 = time.time()
    cases, origin, counts = gen_cases(env)
    model = model and os.path.exists(common.NSMODEL)
    profiles = [False] if env.tier == "quick" else [False, True]
    if env.tier == "thorough":
        ok, out = common.build_harness(release=True)
        if not ok:
            raise RuntimeError("release harness build failed")
    shard = 4000
    shards = [(s0, cases[s0:s0 + shard]) for s0 in range(0, len(cases), shard)]
    failures, disagreements, samples = [], [], []
    fail_groups = {}
    nontrivial = set()
    evaluations = 0
    tok_hist, diag_hist, gate_hist, len_hist = {}, {}, {}, {}
    non_ascii = 0
    model_blocks = {}
    g_lines, g_impl = [], []
    if model:
        with concurrent.futures.ThreadPoolExecutor(max_workers=8) as ex:
            futs = {ex.submit(run_model, env, "m%d" % s0, part, "source"): s0 for s0, part in shards}
            for f in concurrent.futures.as_completed(futs):
                s0 = futs[f]
                r, err = f.result()
                if r is None:
                    disagreements.append({"stream": "lexer-model", "error": "nsmodel frontend failed: " + err[-300:]})
                    model = False
                else:
                    for i, b in r.items():
                        model_blocks[s0 + i] = b
    for release in profiles:
        impl = {}
        with concurrent.futures.ThreadPoolExecutor(max_workers=8) as ex:
            futs = {ex.submit(run_impl_shard, env, "i%d_%d" % (int(release), s0), part, release): s0 for s0, part in shards}
            for f in concurrent.futures.as_completed(futs):
                s0 = futs[f]
                for i, r in f.result().items():
                    impl[s0 + i] = r
        for idx, h in enumerate(cases):
            lines, status = impl.get(idx, ([], "died:missing"))
            evaluations += 1
            text = unhx(h)
            probs = oracle(lines, status)
            if not release:
                L = min(len(text) // 50 * 50, 1000)
                len_hist[L] = len_hist.get(L, 0) + 1
                if any(ord(c) > 127 for c in text):
                    non_ascii += 1
                for l in lines:
                    if l.startswith("T "):
                        k = l.split()[1]
                        tok_hist[k] = tok_hist.get(k, 0) + 1
                    elif l.startswith("D "):
                        k = l.split()[1]
                        diag_hist[k] = diag_hist.get(k, 0) + 1
                    elif l.startswith("GATE "):
                        gate_hist[l.split()[1]] = gate_hist.get(l.split()[1], 0) + 1
            if probs:
                g = fail_groups.setdefault(signature(probs), [])
                g.append((idx, text, probs, release))
                continue
            if any(l.startswith(("T ", "D ")) for l in lines):
                nontrivial.add(h)
            if not release:
                for l in lines:
                    if l.startswith("G ") and " | " in l:
                        head, rb = l.split(" | ", 1)
                        g_lines.append(h + " " + " ".join(head.split()[2:]))
                        g_impl.append(rb)
            if model and idx in model_blocks:
                a = canon_impl_lex(lines)
                b = canon_model_lex(model_blocks[idx])
                if a != b:
                    if len([d for d in disagreements if "case" in d]) < 5:
                        k = next((j for j in range(min(len(a), len(b))) if a[j] != b[j]), min(len(a), len(b)))
                        disagreements.append({"stream": "lexer-model", "case": h, "text": text, "origin": origin[idx],
                                              "impl": a[k:k + 2], "model": b[k:k + 2]})
                    else:
                        disagreements.append({"stream": "lexer-model"})
                elif len(samples) < 5 and evaluations % 1777 == 0 and len(a) > 0:
                    samples.append({"case": text[:80], "origin": origin[idx], "observation": a[:4]})
            elif model and idx not in model_blocks:
                disagreements.append({"stream": "lexer-model", "case": h, "error": "no model block"})
    # failing inputs: per signature group, attribute (shrinking the first of each key)
    by_key = {}
    for sig, group in fail_groups.items():
        for idx, text, probs, release in group[:400]:
            key = attribute(env, text, probs, model)
            if key in by_key:
                by_key[key]["count"] += 1
                continue
            def still(t, sig=sig, release=release):
                l, st = run_one(env, t, release)
                p = oracle(l, st)
                return bool(p) and signature(p) == sig
            small = shrink(env, text, still) if len(text) <= 2500 else text
            if not key.startswith("c07:"):
                k2 = attribute(env, small, probs, model)
                small = small if k2 == key else text
            else:
                key = "c07:" + sig + ":" + common.chash(small)
                if key in by_key:
                    by_key[key]["count"] += 1
                    continue
            by_key[key] = {"key": key, "case": hx(small), "text": small, "observed": "; ".join(probs)[:400],
                           "origin": origin[idx], "profile": "release" if release else "debug", "count": 1,
                           "original_len": len(text)}
    failures += list(by_key.values())
    extra = {"input_streams": counts, "length_histogram": {str(k): v for k, v in sorted(len_hist.items())},
             "cases_with_non_ascii": non_ascii, "token_kinds": tok_hist, "lexer_diagnostics": diag_hist,
             "pipeline_outcomes": gate_hist, "failing_cases_total": sum(len(g) for g in fail_groups.values()),
             "exhaustive": "all strings of <= %d symbols over the %d-symbol alphabet %r" % (3 if env.tier == "quick" else 4, len(ALPHABET), ALPHABET),
             "profiles": ["debug"] + (["release"] if env.tier == "thorough" else []),
             "proved": "lexer (Lexer.v) and renderer geometry/slicing (Render.v)", "monitored_only": "parser, resolver/analysis",
             "correspond_s": None}
    # renderer: the spans the parser / resolver really produced (read back in the pipeline run) and
    # arbitrary well-formed spans, both against the extracted Render.v (geometry and line text)
    if model:
        f1, d1, n1 = compare_render(env, "gspans", g_lines, g_impl)
        f2, d2, n2 = compare_render(env, "wfspans", render_cases(env))
        failures += f1 + f2
        disagreements += d1 + d2
        evaluations += n2
        extra["render_frontend_spans"] = n1
        extra["render_wf_span_cases"] = n2
    t_many = time.time()
    m_extra, m_fail = many_diagnostics_stream(env)
    extra.update(m_extra)
    extra["many_diagnostics_s"] = round(time.time() - t_many, 1)
    evaluations += len(m_extra["many_diagnostics"])
    failures += m_fail
    g_extra, g_fail = gate_stream(env, base_programs(), 120 if env.tier == "quick" else 1500)
    extra.update(g_extra)
    failures += g_fail
    extra["correspond_s"] = round(time.time() - t0, 1)
    if not samples and cases:
        samples = [{"case": unhx(cases[len(cases) // 2])[:80]}]
    return {
        "evaluations": evaluations,
        "distinct_nontrivial": len(nontrivial),
        "rule": "distinct source texts (hash of the bytes) on which the implementation passed the oracle and the lexer produced at least one "
                "token or diagnostic; streams: corpus, multi-byte adjacency to every token kind, token-level mutations, byte noise decoded with "
                "replacement, syntax-preserving semantic mutations, every prefix of sample programs, CR/LF/CRLF/tab/FF layouts, many-locals nested functions, bounded-exhaustive strings, "
                "every error shape in front of every line terminator with constructs still open, a built-in x receiver x argument-kind x arity matrix of statically wrong programs in three layouts, "
                "random statically wrong programs and CR/CRLF relayouts of the error streams; plus renderer runs on bounded-exhaustive well-formed spans (counted in evaluations, not in non-trivial)",
        "samples": samples,
        "failures": failures,
        "disagreements": disagreements,
        "extra": extra,
    }


def replay(env, payload):
    common.refresh_tables()
    common.build_nsmodel()
    case = payload.get("case") or (payload.get("disagreements") or [{}])[0]
    h = case.get("case")
    if not h:
        print("replay: no concrete case in this file (obligations: %s)" % payload.get("no_longer_checks"))
        return 1
    text = unhx(h)
    lines, status = run_one(env, text)
    probs = oracle(lines, status)
    mb, _ = run_model(env, "replay", [h], "source")
    a = canon_impl_lex(lines)
    b = canon_model_lex(mb[0]) if mb and 0 in mb else None
    print("text: %r\nstatus: %s\nimpl: %s\nmodel: %s\nproblems: %s" % (text, status, lines[:30], b, probs))
    bad = bool(probs) or (b is not None and a != b)
    print("replay: %s" % ("still failing" if bad else "passes now"))
    return 1 if bad else 0
