"""C08 — running out of depth is reported, not a native crash (partial proof + observation).

Proof side (coq/Properties/C08.v): over the call graph regenerated from the source by
translator/gen_stack.py — every cycle of the evaluator passes the check_stack guard or is a
descent into nested blocks / nested data, recursion through user calls always passes the guard,
the stack on a path that passed its checks is bounded in terms of frame costs; parser, checker,
CFG lowering and value operations have guard-free cycles.

This module is the observation side.  It runs the real `naija` binary (debug and release) under
an 8 MiB stack on a shape x depth grid and evaluates the property oracle (exit by signal =
violation).  The tie between model and code is (a) the regenerated graph and (b) that each
shape behaves as the extracted model predicts for the cycle(s) of functions it exercises:
guarded cycle => the 'Stack overflow' runtime error at any depth; unguarded cycle => a native
crash once the nesting is deep enough."""
import os
import re
import subprocess
from concurrent.futures import ThreadPoolExecutor

import common

TRUSTED_EXTRA = [
    "C08: translator/gen_stack.py (regex/brace-matching reader of fn bodies and call sites; over-approximates call edges; "
    "whitelists exec_stmt->exec_block_with_flow as a descent into a sub-block and the self-recursion of clone_into/promote/fmt/join as data descent)",
    "C08: frame sizes, inlining and the crash itself are outside the model: observed on the naija binaries only (8 MiB RLIMIT_STACK, x86-64 Linux)",
    "C08: translator also re-reads the body of check_stack (one comparison of the stack distance with STACK_BUDGET, no other early exit), the single "
    "assignment of stack_base (run_inner entry) and the array locals of the functions above that base (src/bin/naija/main.rs, cmd.rs, Runtime::run*)",
    "C08: library routines of src/builtins that do not touch a Value (string/number helpers) are treated as non-recursive leaves",
]
ASSUMPTIONS = [
    "a guard's check bounds the stack used by the frames between run_inner's anchor (stack_base) and the guard's own frame (the probe of check_stack lies inside eval_expr's frame); "
    "what lies above run_inner's anchor and the error-report path are headroom",
    "structural edge exec_stmt->exec_block_with_flow is taken at most (nesting depth of the source) times between two guards; "
    "data edges at most (nesting depth of the value) times",
    "frame costs are bounded by a per-function maximum M that is only estimated from (budget / recursion depth reached)",
]
CAN_RUN_WITHOUT_MODEL = True

STACK_KB = 8192
NAIJA_TIMEOUT = 120

EE, FC, BL, ST = "Runtime_eval_expr", "Runtime_eval_function_call", "Runtime_exec_block_with_flow", "Runtime_exec_stmt"
MC, BC = "Runtime_eval_member_call", "Runtime_eval_builtin_call"
MAIN = [EE, FC, BL, ST]
PE, PC, PS, PB = "Parser_parse_expression", "Parser_parse_expression_continuation", "Parser_parse_statement", "Parser_parse_block_body"
CK, INF, CLS = "Resolver_check_expr", "Resolver_infer_expr_type", "Resolver_classify_expr"
CKS, CKB = "Resolver_check_stmt", "Resolver_check_block"
LS, LB = "FunctionBuilder_lower_stmt", "FunctionBuilder_lower_block"


def nest(k, inner, o="start ", c=" end"):
    return o * k + inner + c * k


# ---- shapes whose depth is unbounded at run time (user recursion): must end with the reported error
GUARDED = {
    "rec-direct": ("do f(n) start\n return f(n add 1)\nend\nshout(f(0))\n", [MAIN]),
    "rec-statement-call": ("do f(n) start\n f(n add 1)\nend\nf(0)\n", [MAIN]),
    "rec-mutual": ("do f(n) start\n return g(n add 1)\nend\ndo g(n) start\n return f(n add 1)\nend\nshout(f(0))\n", [MAIN]),
    "rec-argument": ("do h(a, b) start\n return a\nend\ndo f(n) start\n return h(1, f(n add 1))\nend\nshout(f(0))\n", [MAIN, [EE, FC]]),
    "rec-binary-operand": ("do f(n) start\n return 1 add f(n add 1) times 2\nend\nshout(f(0))\n", [MAIN, [EE]]),
    "rec-unary": ("do f(n) start\n return minus f(n add 1)\nend\nshout(f(0))\n", [MAIN, [EE]]),
    "rec-logic": ("do f(n) start\n return true and (false or f(n add 1))\nend\nshout(f(0))\n", [MAIN, [EE]]),
    "rec-if-condition": ("do f(n) start\n if to say (f(n add 1) pass 0) start\n  return 1\n end\n return 0\nend\nshout(f(0))\n", [MAIN]),
    "rec-loop-condition": ("do f(n) start\n jasi (f(n add 1) pass 0) start\n  return 1\n end\n return 0\nend\nshout(f(0))\n", [MAIN]),
    "rec-interpolation": ("do f(n) start\n make s get f(n add 1)\n return \"v {s} {n}\"\nend\nshout(f(0))\n", [MAIN]),
    "rec-index-chain": ("make a get [[[1]]]\ndo f(n) start\n return a[f(n add 1)][0][0]\nend\nshout(f(0))\n", [MAIN, [EE]]),
    "rec-index-assign": ("make a get [[1]]\ndo f(n) start\n a[0][f(n add 1)] get n\n return 0\nend\nshout(f(0))\n",
                         [[EE, FC, BL, ST, "Runtime_assign_index", "Runtime_eval_index_value"]]),
    "rec-array-literal": ("do f(n) start\n return [n, [f(n add 1)], 3]\nend\nshout(f(0))\n", [MAIN, [EE]]),
    "rec-nested-blocks": ("do f(n) start\n start start start start\n  return f(n add 1)\n end end end end\nend\nshout(f(0))\n", [[EE, FC, BL, ST, BL, ST, BL, ST]]),
    "rec-in-loop-body": ("do f(n) start\n make i get 0\n jasi (i small pass 3) start\n  if to say (i na 1) start\n   return f(n add 1)\n  end\n  i get i add 1\n end\n return 0\nend\nshout(f(0))\n", [[EE, FC, BL, ST, BL, ST, BL, ST]]),
    "rec-else-branch": ("do f(n) start\n if to say (n small pass 0) start\n  return 0\n end if not so start\n  return f(n add 1)\n end\nend\nshout(f(0))\n", [MAIN]),
    "rec-method-receiver": ("do f(n) start\n return to_string(f(n add 1)).len()\nend\nshout(f(0))\n", [[EE, FC, MC], [EE, FC, BC]]),
    "rec-method-argument": ("do f(n) start\n return \"abcdef\".slice(0, f(n add 1)).len()\nend\nshout(f(0))\n",
                            [[EE, FC, MC, "Runtime_eval_string_member_call"]]),
    "rec-array-push": ("make a get []\ndo f(n) start\n a.push(f(n add 1))\n return n\nend\nshout(f(0))\n",
                       [[EE, FC, MC, "Runtime_eval_array_member_call_mut"]]),
    "rec-join-argument": ("do f(n) start\n return [\"a\", \"b\"].join(to_string(f(n add 1)))\nend\nshout(f(0))\n",
                          [[EE, FC, MC, "Runtime_eval_array_member_call"]]),
    "rec-shout-argument": ("do f(n) start\n shout(f(n add 1))\n return n\nend\nshout(f(0))\n", [[EE, FC, BC]]),
    "rec-inner-function": ("do outer(n) start\n do inner(m) start\n  return inner(m add 1)\n end\n return inner(n)\nend\nshout(outer(0))\n", [MAIN]),
    "rec-capture-write": ("make c get 0\ndo f() start\n c get c add 1\n return f()\nend\nshout(f())\n", [MAIN]),
    "rec-array-param": ("do f(a) start\n return f([a[0] add 1, 2, 3])\nend\nshout(f([0, 0, 0]))\n", [MAIN, [EE]]),
    "rec-string-param": ("do f(s) start\n return f(\"x\")\nend\nshout(f(\"y\"))\n", [MAIN]),
}

# The recursive call of each shape (prefix that selects the occurrence, call text).
REC_CALL = {n: ("", "f(n add 1)") for n in GUARDED}
REC_CALL.update({
    "rec-mutual": ("return ", "g(n add 1)"),
    "rec-inner-function": ("return ", "inner(m add 1)"),
    "rec-capture-write": ("return ", "f()"),
    "rec-array-param": ("return ", "f([a[0] add 1, 2, 3])"),
    "rec-string-param": ("return ", "f(\"x\")"),
})

# Expression contexts put around the recursive call: k nested operators / literals / calls, each
# of which costs native stack (one or two eval_expr frames) but opens NO scope and enters NO block,
# so they change the amount of stack per activation, per scope and per probe site by a factor of
# 1 .. 1000.  (Template placeholders take a bare name and cannot nest; parentheses build no node.)
CTX_PRE = "do idf9(x) start\n return x\nend\nmake zz9 get [0]\n"
CONTEXTS = {
    "add": lambda x, k: "(1 add " * k + x + ")" * k,
    "arith": lambda x, k: "(2 add 1 divide " * k + x + ")" * k,
    "minus": lambda x, k: "minus " * k + x,
    "not": lambda x, k: "not " * k + x,
    "logic": lambda x, k: "(true and " * k + x + ")" * k,
    "idcall": lambda x, k: "idf9(" * k + x + ")" * k,
    "builtin-arg": lambda x, k: "to_string(" * k + x + ")" * k,
    "index": lambda x, k: "zz9[" * k + x + "]" * k,
    "array": lambda x, k: "[" * (k // 2 + 1) + x + "][0]" * (k // 2 + 1),
    "mixed": lambda x, k: "".join(("(1 add ", "minus ", "idf9(", "zz9[")[i % 4] for i in range(k)) + x +
                          "".join((")", "", ")", "]")[i % 4] for i in reversed(range(k))),
}
# nested operators per context: far below the source-nesting thresholds of the open findings
# (debug 1280, release 23552), from "a few frames" to "one expression alone exhausts the budget"
CTX_KS = {False: (6, 30, 120, 400), True: (30, 250, 1000, 2000)}


def in_context(shape, ctx, k):
    src = GUARDED[shape][0]
    pre, call = REC_CALL[shape]
    i = src.index(pre + call) + len(pre)
    return CTX_PRE + src[:i] + CONTEXTS[ctx](call, k) + src[i + len(call):]


MODES = ("file", "eval", "stdin", "pipe")

# ---- shapes whose depth is the nesting of the source text: k is the nesting depth
NESTING = {
    "nest-parens": (lambda k: "shout(" + "(" * k + "1" + ")" * k + ")\n", [[PE], [CK]]),
    "nest-brackets": (lambda k: "make a get " + "[" * k + "1" + "]" * k + "\nshout(1)\n", [[PE], [CK]]),
    "nest-not": (lambda k: "shout(" + "not " * k + "true)\n", [[PE], [CK], [INF]]),
    "nest-minus": (lambda k: "shout(" + "minus " * k + "1)\n", [[PE], [CK], [INF]]),
    "nest-call-arguments": (lambda k: "do g(x) start\n return x\nend\nshout(" + "g(" * k + "1" + ")" * k + ")\n", [[PE, PC], [CK]]),
    "nest-index-inner": (lambda k: "make a get [0]\nshout(a" + "[a" * k + "[0]" + "]" * k + ")\n", [[PE, PC], [CK]]),
    "nest-blocks": (lambda k: nest(k, "shout(1)") + "\n", [[PS, PB], [CKS, CKB], [LS, LB]]),
    "nest-if": (lambda k: "if to say (true) start " * k + "shout(1)" + " end" * k + "\n", [[PS, "Parser_parse_if", PB], [CKS, CKB], [LS, LB]]),
    "nest-loop": (lambda k: "make i get 0\n" + "jasi (i small pass 1) start " * k + "i get i add 1" + " end" * k + "\n",
                  [[PS, "Parser_parse_loop", PB], [CKS, CKB], [LS, LB]]),
    "nest-function-defs": (lambda k: "".join("do f%d() start\n" % i for i in range(k)) + "shout(1)\n" + "end\n" * k,
                           [[PS, "Parser_parse_function_def", PB], [CKS, "Resolver_check_function_body", CKB]]),
    "chain-add": (lambda k: "shout(1" + " add 1" * k + ")\n", [[CK], [INF]]),
    "chain-index": (lambda k: "make a get [0]\nshout(a" + "[0]" * k + ")\n", [[CK], [INF]]),
    "chain-method": (lambda k: "make s get \" x \"\nshout(s" + ".trim()" * k + ")\n", [[CK], [INF]]),
}

# ---- nested run-time data (depth k built in a loop), then one value operation on it
def data_prog(k, op):
    return ("make a get [1]\nmake i get 0\njasi (i small pass %d) start\n a get [a]\n i get i add 1\nend\n%s\n" % (k, op))


# The same, built 41 levels at a time by assigning the value into itself through an index chain
# (`a[0]…[0] get a`): the copying is 41 times cheaper per level, so the stack limit is reached before
# the arena is full (shape found by an independent mutation engineer on the unchanged tree).
CHAIN = 41


def data_prog_chain(k, op):
    lit = "[" * CHAIN + "1" + "]" * CHAIN
    return ("make a get %s\nmake i get 0\njasi (i small pass %d) start\n a%s get a\n i get i add 1\nend\nshout(\"built\")\n%s\n"
            % (lit, max(1, k // CHAIN), "[0]" * CHAIN, op))


DATA = {
    "datachain-build": (lambda k: data_prog_chain(k, ""), [["Value_clone_into"], ["Value_promote"]]),
    "datachain-print": (lambda k: data_prog_chain(k, "make s get to_string(a)\nshout(s.len())"), [["Value_fmt"], ["Value_clone_into"], ["Value_promote"]]),
    "datachain-join": (lambda k: data_prog_chain(k, "shout(a.join(\",\").len())"), [["ArrayBuiltin_join"], ["Value_clone_into"]]),
    "data-print": (lambda k: data_prog(k, "shout(a)"), [["Value_fmt"], ["Value_clone_into"], ["Value_promote"]]),
    "data-copy": (lambda k: data_prog(k, "make b get a\nshout(b[0][0].len())"), [["Value_clone_into"], ["Value_promote"]]),
    "data-join": (lambda k: data_prog(k, "shout(a.join(\",\").len())"), [["ArrayBuiltin_join"], ["Value_clone_into"]]),
}

BLOCKS_UNDER_REC = "deep-blocks-under-recursion"


def blocks_under_rec(n, k):
    return ("do f(n) start\n if to say (n pass 0) start\n  return f(n minus 1)\n end\n" + nest(k, "shout(1)") +
            "\n return 0\nend\nshout(f(%d))\n" % n)


# ---------------------------------------------------------------------------------------------

def run_naija(env, src, release, stack_kb=STACK_KB, tag="p", mode="file"):
    """-> (kind, detail).  kind in ok | reported | diagnostic | crash | alloc-abort | timeout.
    mode: how the script reaches the interpreter — file path, --eval text, `naija - < file`, or a pipe."""
    d = os.path.join(env.work, "run")
    os.makedirs(d, exist_ok=True)
    path = os.path.join(d, "%s_%s.ns" % (tag, common.chash(src + str(stack_kb) + str(release) + mode)))
    with open(path, "w") as f:
        f.write(src)
    lim = "ulimit -c 0; ulimit -s %d; " % stack_kb
    exe = common.naija_bin(release)
    if mode == "file":
        argv = ["sh", "-c", lim + "exec %s %s" % (exe, path)]
    elif mode == "eval":
        argv = ["sh", "-c", lim + 'exec "$0" --eval "$1"', exe, src]
    elif mode == "stdin":
        argv = ["sh", "-c", lim + "exec %s - < %s" % (exe, path)]
    elif mode == "pipe":
        argv = ["sh", "-c", lim + "cat %s | %s -" % (path, exe)]
    else:
        raise ValueError(mode)
    try:
        p = subprocess.run(argv, stdout=subprocess.PIPE, stderr=subprocess.PIPE, timeout=NAIJA_TIMEOUT,
                           stdin=subprocess.DEVNULL)
    except subprocess.TimeoutExpired:
        return "timeout", ""
    finally:
        try:
            os.remove(path)
        except OSError:
            pass
    out = p.stdout.decode("utf-8", "replace")
    err = p.stderr.decode("utf-8", "replace")
    plain = re.sub(r"\x1b\[[0-9;]*m", "", out)
    rc = p.returncode
    if rc < 0 or rc >= 128:
        sig = -rc if rc < 0 else rc - 128
        if "memory allocation" in err and "overflowed its stack" not in err:
            return "alloc-abort", "signal %d: %s" % (sig, err.strip().splitlines()[0][:120])
        what = "native stack overflow" if "overflowed its stack" in err else "no runtime diagnostic"
        return "crash", "signal %d (%s)" % (sig, what)
    if rc != 0 and "Stack overflow" in plain:
        return "reported", "lines=%d" % plain.count("\n")
    if rc != 0 and "error[" in plain:
        m = re.search(r"error\[\w+\]: [^\n]*", plain)
        return "diagnostic", m.group(0) if m else ""
    if rc == 0:
        return "ok", "lines=%d" % plain.count("\n")
    return "diagnostic", "rc=%d %s" % (rc, (plain + err)[-120:])


def gen_ids():
    txt = open(os.path.join(common.COQ, "theories", "GenStack.v"), encoding="utf-8").read()
    return {m.group(1): int(m.group(2)) for m in re.finditer(r"Definition id_(\w+) : nat := (\d+)\.", txt)}, \
        int(re.search(r"Definition stack_budget : Z := (\d+)%Z", txt).group(1))


def graph_fingerprint():
    import hashlib
    ids, _ = gen_ids()
    return hashlib.md5(",".join(sorted(ids)).encode()).hexdigest(), len(ids)


def ask_model(env, fnames):
    """One run of `nsmodel stack`: META, JUMPS and the status of every named function.
    Names travel as text and are resolved by the model's own table, so the answers are always
    about the functions meant.  -> (status: name -> str, meta) or (None, error text)."""
    inp = os.path.join(env.work, "stack.in")
    outp = os.path.join(env.work, "stack.out")
    open(inp, "w").write("\n".join(["META", "JUMPS"] + ["F " + f for f in fnames]) + "\n")
    if os.path.exists(outp):
        os.remove(outp)
    rc, out = common.sh([common.NSMODEL, "stack", inp, outp], timeout=600)
    if rc != 0 or not os.path.exists(outp):
        return None, "nsmodel stack failed: " + out[-300:]
    status, meta, jumps = {}, {}, []
    for l in open(outp).read().splitlines():
        w = l.split()
        if w[0] == "meta":
            meta = dict(x.split("=") for x in w[1:])
        elif w[0] == "jump":
            jumps.append((int(w[1]), int(w[2]), w[3]))
        elif w[0] == "fn":
            status[w[1]] = w[2]
    meta["jumps"] = jumps
    return status, meta


def model_verdicts(env, shapes):
    """shapes: name -> list of cycles (function idents; only the set of functions matters).
    -> (status per function, meta, problems).  If the model executable was built from another
    revision of the graph than the GenStack.v on disk (checks of other trees run concurrently and
    share the coq directory), it is rebuilt once before giving up."""
    fnames = sorted({f for cycles in shapes.values() for c in cycles for f in c})
    for attempt in (0, 1):
        status, meta = ask_model(env, fnames)
        if status is None:
            return None, None, [meta]
        fp, n = graph_fingerprint()
        if meta.get("names") == fp:
            return status, meta, []
        common.run_translator()
        common.coq_make(["Properties/C08.vo"], timeout=1500)
        common.build_nsmodel()
    return status, meta, ["model executable and coq/theories/GenStack.v describe different graphs (%s functions vs %d): "
                          "a concurrent check of another tree regenerated the shared files" % (meta.get("nfuncs"), n)]


def predict(kind, sts):
    """Model prediction for a shape from the statuses of the functions it exercises (those that
    still exist under that name).  kind: 'guarded' (user recursion at fixed source nesting) or
    'nesting' (depth = nesting of text or data)."""
    present = [s for s in sts if s != "missing"]
    if not present:
        return "tie-lost"
    if "unknown" in present:
        return "undecided"
    if "gf-cycle" in present:
        return "crash-when-deep"
    if kind == "nesting" and "descent-cycle" in present:
        return "crash-when-deep"
    return "reported"


def pmap(fn, items, workers=8):
    with ThreadPoolExecutor(max_workers=workers) as ex:
        return list(ex.map(fn, items))


def first_crash(env, gen, release, ks, tag):
    """Runs gen(k) for increasing k until a crash; -> (k_crash | None, trail [(k, kind, detail)])."""
    trail = []
    for k in ks:
        kind, det = run_naija(env, gen(k), release, tag=tag)
        trail.append((k, kind, det))
        if kind in ("crash", "alloc-abort", "timeout"):
            break
    kc = trail[-1][0] if trail and trail[-1][1] == "crash" else None
    return kc, trail


def refine(env, gen, release, lo, hi, tag, steps):
    """Bisection between a surviving depth lo and a crashing depth hi."""
    n = 0
    for _ in range(steps):
        if hi - lo <= max(1, hi // 20):
            break
        mid = (lo + hi) // 2
        kind, _ = run_naija(env, gen(mid), release, tag=tag)
        n += 1
        if kind == "crash":
            hi = mid
        else:
            lo = mid
    return hi, n


def depth_reached(env, release, body_if):
    """Number of activations of a printing recursive function before the overflow is reported."""
    src = ("do f(n) start\n shout(n)\n" + (" if to say (n pass 0 minus 1) start\n  return f(n add 1)\n end\n return 0\n" if body_if else " return f(n add 1)\n") + "end\nf(0)\n")
    kind, det = run_naija(env, src, release, tag="depth")
    if kind != "reported":
        return None
    return max(1, int(det.split("=")[1]) - 8)


def min_stack_for_report(env, release, src, mode="file"):
    """Smallest RLIMIT_STACK (KiB, 256 KiB steps) at which src still ends with the reported error."""
    lo, hi = 4096, STACK_KB  # lo fails (budget alone is 4 MiB), hi must work
    n = 0
    while hi - lo > 256:
        mid = (lo + hi) // 2 // 64 * 64
        kind, _ = run_naija(env, src, release, stack_kb=mid, tag="minstack", mode=mode)
        n += 1
        if kind == "reported":
            hi = mid
        else:
            lo = mid
    return hi, n


def correspond(env, searching=False, model=True):
    thorough = env.tier == "thorough" or searching
    profiles = [False, True]
    for rel in profiles:
        ok, out = common.build_naija(release=rel)
        if not ok:
            raise RuntimeError("naija %s build failed: %s" % ("release" if rel else "debug", out[-1500:]))
    pname = lambda rel: "release" if rel else "debug"
    failures, disagreements, samples = [], [], []
    evaluations = 0
    nontrivial = set()
    extra = {"profiles": [pname(r) for r in profiles], "stack_kib": STACK_KB}

    # ---- model side
    all_shapes = {}
    for n, (_, cyc) in GUARDED.items():
        all_shapes[n] = cyc
    for n, (_, cyc) in list(NESTING.items()) + list(DATA.items()):
        all_shapes[n] = cyc
    all_shapes[BLOCKS_UNDER_REC] = [[ST, BL]]
    status, meta = None, {}
    if model:
        status, meta, problems = model_verdicts(env, all_shapes)
        for pr in problems:
            disagreements.append({"stream": "stack-model", "error": pr})
        if status is not None and not problems:
            _, budget = gen_ids()
            if meta.get("budget") != str(budget) or meta.get("core_acyclic") != "1" or \
                    any(j[2] != "off_cycle=1" for j in meta.get("jumps", [])) or not meta.get("jumps"):
                disagreements.append({"stream": "stack-model", "error": "model meta unexpected: %r" % meta})
            extra["model_meta"] = {k: v for k, v in meta.items() if k != "jumps"}
    pred = {}
    if status and not [d for d in disagreements if "different graphs" in d.get("error", "")]:
        fstat = {}
        for name in all_shapes:
            fns = sorted({f for c in all_shapes[name] for f in c})
            sts = [status.get(f, "missing") for f in fns]
            fstat[name] = dict(zip(fns, sts))
            pred[name] = predict("guarded" if name in GUARDED else "nesting", sts)
            if pred[name] in ("tie-lost", "undecided"):
                disagreements.append({"stream": "stack-model", "shape": name,
                                      "error": "none of the functions assumed for this shape can be classified on the regenerated call graph "
                                               "(renamed or restructured: update the shape's function list): %s" % fstat[name]})
        extra["model_prediction"] = pred
        extra["model_function_status"] = {f: st for d in fstat.values() for f, st in d.items()}

    # ---- A. user recursion of unbounded depth: reported error, never a signal
    jobs = [(n, rel) for n in GUARDED for rel in profiles]
    res = pmap(lambda j: run_naija(env, GUARDED[j[0]][0], j[1], tag=j[0]), jobs)
    guarded_obs = {}
    for (n, rel), (kind, det) in zip(jobs, res):
        evaluations += 1
        guarded_obs.setdefault(n, {})[pname(rel)] = kind
        if kind == "reported":
            nontrivial.add(common.chash(n + pname(rel)))
        if kind == "crash":
            failures.append({"key": n, "case": {"shape": n, "profile": pname(rel), "source": GUARDED[n][0]},
                             "observed": "unbounded user recursion ended with %s instead of the 'Stack overflow' runtime error" % det})
        elif kind != "reported":
            disagreements.append({"stream": "guarded-shape", "shape": n, "profile": pname(rel),
                                  "error": "expected the reported overflow, observed %s %s" % (kind, det)})
        if pred.get(n) == "crash-when-deep" and kind == "reported":
            disagreements.append({"stream": "stack-model", "shape": n, "error": "model finds an unguarded cycle for a shape that is reported"})
    if len(samples) < 2:
        samples.append({"shape": "rec-direct", "source": GUARDED["rec-direct"][0], "observed": guarded_obs.get("rec-direct")})

    # ---- A2. the same recursions with the recursive call inside k nested expression nodes: the stack
    #          used per activation / per scope / per probe site varies over three orders of magnitude
    ctxs = sorted(CONTEXTS)
    jobs = []
    for n in GUARDED:
        for c in ctxs:
            for rel in profiles:
                ks = CTX_KS[rel]
                if not thorough:
                    # two of the four depths per (shape, context, profile); across the 25 shapes and the
                    # contexts every depth is run well over a hundred times
                    ks = sorted(env.rng.sample(ks, 2))
                for k in ks:
                    jobs.append((n, c, rel, k))
    res = pmap(lambda j: run_naija(env, in_context(j[0], j[1], j[3]), j[2], tag="ctx"), jobs)
    ctx_stats = {"runs": 0, "reported": 0, "statically_rejected": 0, "rejected_then_allocation_abort": 0}
    ctx_bad = {}
    for (n, c, rel, k), (kind, det) in zip(jobs, res):
        evaluations += 1
        ctx_stats["runs"] += 1
        if kind == "reported":
            ctx_stats["reported"] += 1
            nontrivial.add(common.chash("ctx/%s/%s/%s/%d" % (n, c, pname(rel), k)))
        elif kind == "diagnostic":
            ctx_stats["statically_rejected"] += 1      # the context does not type-check around this call
        elif kind == "crash":
            ctx_bad.setdefault((n, c), []).append((k, pname(rel), det))
        elif kind == "alloc-abort":
            # a context that does not type-check, 2000 deep: rendering the diagnostic for the huge line runs the
            # arena out of memory (allocation failure, not a stack overflow; outside this property)
            ctx_stats["rejected_then_allocation_abort"] += 1
        else:
            disagreements.append({"stream": "guarded-shape", "shape": n, "context": c, "k": k, "profile": pname(rel),
                                  "error": "expected the reported overflow, observed %s %s" % (kind, det)})
    for (n, c), lst in sorted(ctx_bad.items())[:12]:
        k, prof, det = sorted(lst)[0]
        failures.append({"key": "%s~%s" % (n, c), "case": {"shape": n, "context": c, "k": k, "profile": prof},
                         "observed": "runaway recursion whose recursive call sits inside %d nested `%s` expression nodes ended with %s "
                                     "instead of the 'Stack overflow' runtime error (%d failing (depth, profile) points for this shape and context)"
                                     % (k, c, det, len(lst))})
    extra["expression_contexts"] = dict(ctx_stats, contexts=ctxs, depths={pname(r): list(CTX_KS[r]) for r in profiles},
                                        crashing_shape_contexts=len(ctx_bad))
    if ctx_stats["reported"] * 2 < ctx_stats["runs"]:
        disagreements.append({"stream": "guarded-shape", "error": "fewer than half of the expression-context programs reach the overflow: %r" % ctx_stats})

    # ---- A3. input modes: what lies above the recorded stack base differs (file, --eval, `- < file`, pipe)
    jobs = [(n, rel, m) for n in GUARDED for rel in profiles for m in MODES if m != "file"]
    heavy = [(n, c, rel, CTX_KS[rel][1], m) for n in ("rec-direct", "rec-mutual", "rec-argument") for c in ("add", "idcall")
             for rel in profiles for m in MODES if m != "file"]
    res = pmap(lambda j: run_naija(env, GUARDED[j[0]][0], j[1], tag="mode", mode=j[2]), jobs)
    res2 = pmap(lambda j: run_naija(env, in_context(j[0], j[1], j[3]), j[2], tag="modectx", mode=j[4]), heavy)
    mode_bad = {}
    for key, rel, m, (kind, det) in [(j[0], j[1], j[2], r) for j, r in zip(jobs, res)] + \
                                    [("%s~%s" % (j[0], j[1]), j[2], j[4], r) for j, r in zip(heavy, res2)]:
        evaluations += 1
        if kind == "reported":
            nontrivial.add(common.chash("mode/%s/%s/%s" % (key, pname(rel), m)))
        elif kind == "crash":
            mode_bad.setdefault((key, m), []).append((pname(rel), det))
        elif kind != "diagnostic" or "~" not in key:
            disagreements.append({"stream": "guarded-shape", "shape": key, "mode": m, "profile": pname(rel),
                                  "error": "expected the reported overflow, observed %s %s" % (kind, det)})
    for (key, m), lst in sorted(mode_bad.items())[:12]:
        shape, _, c = key.partition("~")
        case = {"shape": shape, "mode": m, "profile": lst[0][0]}
        if c:
            case.update({"context": c, "k": CTX_KS[lst[0][0] == "release"][1]})
        failures.append({"key": "%s@%s" % (key, m), "case": case,
                         "observed": "runaway recursion in a script delivered by `%s` ended with %s instead of the 'Stack overflow' runtime error (%s)"
                                     % (m, lst[0][1], ", ".join(p for p, _ in lst))})
    extra["input_modes"] = {"modes": list(MODES), "runs": len(jobs) + len(heavy), "crashing": len(mode_bad)}

    # ---- B. nesting of the source text: smallest depth in the grid that dies by signal
    top = 1 << 18
    ks = [1 << e for e in range(8, 19)]
    jobs = [(n, rel) for n in NESTING for rel in profiles]

    def nest_job(j):
        n, rel = j
        kc, trail = first_crash(env, NESTING[n][0], rel, ks, n)
        runs = len(trail)
        if kc is not None and thorough:
            lo = trail[-2][0] if len(trail) > 1 else 1
            kc, more = refine(env, NESTING[n][0], rel, lo, kc, n, 6)
            runs += more
        return kc, trail, runs
    res = pmap(nest_job, jobs)
    thresholds = {}
    for (n, rel), (kc, trail, runs) in zip(jobs, res):
        evaluations += runs
        for (k, kind, det) in trail:
            if kind in ("reported", "crash"):
                nontrivial.add(common.chash("%s/%s/%d" % (n, pname(rel), k)))
        thresholds.setdefault(n, {})[pname(rel)] = {"crash_at": kc, "trail": ["%d:%s" % (k, kind) for k, kind, _ in trail]}
    for n in NESTING:
        crashed = {p: t["crash_at"] for p, t in thresholds[n].items() if t["crash_at"]}
        if crashed:
            p0 = sorted(crashed, key=lambda p: crashed[p])[0]
            failures.append({"key": n, "case": {"shape": n, "k": crashed[p0], "profile": p0},
                             "observed": "native stack overflow (process killed by signal) at nesting depth %s" %
                                         ", ".join("%s: %d" % (p, k) for p, k in sorted(crashed.items())),
                             "generator": "see lib/props/c08.py NESTING[%r]" % n})
            if pred.get(n) == "reported":
                disagreements.append({"stream": "stack-model", "shape": n, "error": "model says guarded, implementation crashed"})
        elif pred.get(n) == "crash-when-deep":
            last = {p: t["trail"][-1] for p, t in thresholds[n].items()}
            disagreements.append({"stream": "stack-model", "shape": n,
                                  "error": "model finds an unguarded cycle but no crash up to depth %d (%s)" % (top, last)})
    extra["nesting_thresholds"] = {n: {p: t["crash_at"] for p, t in v.items()} for n, v in thresholds.items()}
    extra["nesting_trails"] = {n: {p: t["trail"] for p, t in v.items()} for n, v in thresholds.items()}

    # ---- C. nested run-time data: on 8 MiB the arena fills up (quadratic copying) before the stack does;
    #         the recursion is shown to be unguarded under a 1 MiB stack
    data_obs = {}
    dks = [500, 1000, 2000, 3000, 3500] if not thorough else [500, 1000, 1500, 2000, 2500, 3000, 3300, 3600, 4000]
    cks = [2000, 6000, 10000, 14000, 18000, 24000] if not thorough else [2000, 4000, 6000, 8000, 10000, 12000, 14000, 16000, 18000, 20000, 24000, 30000, 40000]
    jobs = [(n, rel, kb) for n in DATA for rel in profiles for kb in (STACK_KB, 1024)]

    def data_job(j):
        n, rel, kb = j
        trail = []
        for k in (cks if n.startswith("datachain") else dks):
            kind, det = run_naija(env, DATA[n][0](k), rel, stack_kb=kb, tag=n)
            trail.append((k, kind, det))
            if kind in ("crash", "alloc-abort", "timeout"):
                break
        return trail
    res = pmap(data_job, jobs)
    for (n, rel, kb), trail in zip(jobs, res):
        evaluations += len(trail)
        data_obs.setdefault(n, {})["%s@%dKiB" % (pname(rel), kb)] = ["%d:%s" % (k, kind) for k, kind, _ in trail]
        last = trail[-1]
        if last[1] == "crash":
            nontrivial.add(common.chash("%s/%s/%d/%d" % (n, pname(rel), kb, last[0])))
        if kb == STACK_KB and last[1] == "crash":
            failures.append({"key": "%s@%s" % (n, pname(rel)), "case": {"shape": n, "k": last[0], "profile": pname(rel)},
                             "observed": "native stack overflow in a value operation on data nested %d deep: %s" % (last[0], last[2])})
    for n in DATA:
        small = [v for kk, v in data_obs[n].items() if kk.endswith("@1024KiB")]
        if pred.get(n) == "crash-when-deep" and not any(t and t[-1].endswith(":crash") for t in small):
            disagreements.append({"stream": "stack-model", "shape": n,
                                  "error": "model finds unguarded data recursion but a 1 MiB stack survives depth %d: %s" % (dks[-1], data_obs[n])})
    extra["data_nesting"] = data_obs

    # ---- D. nested blocks below a recursion that has nearly used the budget
    bur = {}
    for rel in profiles:
        d_if = depth_reached(env, rel, True)
        evaluations += 1
        # nesting depth at which plain nested blocks alone use the budget (overflow reported at top level)
        lo, hi = 64, None
        for k in [1 << e for e in range(7, 16)]:
            kind, _ = run_naija(env, nest(k, "shout(1)") + "\n", rel, tag="blocks")
            evaluations += 1
            if kind == "ok":
                lo = k
            else:
                hi = (k, kind)
                break
        info = {"activations_to_budget": d_if, "blocks_ok_up_to": lo, "blocks_first_not_ok": hi}
        crash = None
        if d_if and hi and hi[1] == "reported":
            k_so = hi[0]
            cands = [(int(d_if * f), int(k_so * g)) for g in (1.05, 1.25, 0.9) for f in (0.5, 0.65, 0.8, 0.35, 0.9)]
            if thorough:
                cands += [(int(d_if * f), int(k_so * g)) for g in (0.75, 1.5) for f in (0.3, 0.5, 0.7, 0.9)]
            for (n_rec, k) in cands:
                kind, det = run_naija(env, blocks_under_rec(n_rec, k), rel, tag="bur")
                evaluations += 1
                if kind in ("reported", "crash"):
                    nontrivial.add(common.chash("bur/%s/%d/%d" % (pname(rel), n_rec, k)))
                if kind == "crash":
                    crash = (n_rec, k, det)
                    break
        info["crash"] = crash
        bur[pname(rel)] = info
    extra["blocks_under_recursion"] = bur
    crashed = {p: i["crash"] for p, i in bur.items() if i["crash"]}
    if crashed:
        p0 = sorted(crashed)[0]
        failures.append({"key": BLOCKS_UNDER_REC,
                         "case": {"shape": BLOCKS_UNDER_REC, "n": crashed[p0][0], "k": crashed[p0][1], "profile": p0},
                         "observed": "native stack overflow: a function with k nested blocks entered when the recursion had nearly used the budget "
                                     "(no guard between the call and the innermost block): " +
                                     ", ".join("%s: n=%d k=%d %s" % (p, c[0], c[1], c[2]) for p, c in sorted(crashed.items()))})
        if pred.get(BLOCKS_UNDER_REC) == "reported":
            disagreements.append({"stream": "stack-model", "shape": BLOCKS_UNDER_REC, "error": "model says guarded, implementation crashed"})
    elif pred.get(BLOCKS_UNDER_REC) == "crash-when-deep":
        disagreements.append({"stream": "stack-model", "shape": BLOCKS_UNDER_REC,
                              "error": "model: nested blocks are an unguarded descent, but no crash found: %r" % bur})

    # ---- E. frame-cost estimates against the proved inequality
    est = {}
    for rel in profiles:
        d = depth_reached(env, rel, False)
        evaluations += 1
        budget = gen_ids()[1]
        per_act = budget // d if d else None
        ms, n = min_stack_for_report(env, rel, GUARDED["rec-direct"][0])
        evaluations += n
        L = int((meta or {}).get("L", 0) or 0)
        by_mode = {"file": ms}
        for m in MODES[1:]:
            by_mode[m], n2 = min_stack_for_report(env, rel, GUARDED["rec-direct"][0], mode=m)
            evaluations += n2
        e = {"activations_to_budget": d, "bytes_per_activation_estimate": per_act, "min_stack_kib_for_report": ms,
             "observed_need_beyond_budget_kib": ms - budget // 1024, "min_stack_kib_for_report_by_mode": by_mode}
        if per_act and L:
            # M := bytes of a whole activation (4 frames of the cycle) is an upper estimate of any single frame on it
            need = budget + per_act * (1 + (8 + 1) * L) + 1048576
            e["inequality_d8_headroom1MiB"] = {"lhs": need, "rhs": STACK_KB * 1024, "holds": need < STACK_KB * 1024}
        est[pname(rel)] = e
    extra["frame_estimates"] = est
    # stack arrays of the frames above the recorded base (translator) against the headroom that is left
    gtxt = open(os.path.join(common.COQ, "theories", "GenStack.v"), encoding="utf-8").read()
    am = re.search(r"Definition above_base_array_bytes : Z := (\d+)%Z", gtxt)
    cm = re.search(r"runs \(src/bin/naija/main.rs[^:]*\): (.*?) \*\)", gtxt, re.S)
    if am:
        above = int(am.group(1))
        budget = gen_ids()[1]
        reserve = max([(e.get("observed_need_beyond_budget_kib") or 0) for e in est.values()] + [0]) * 1024
        headroom = STACK_KB * 1024 - budget - reserve
        extra["above_base_stack_arrays"] = {"bytes": above, "sites": cm.group(1) if cm else "", "headroom_left_bytes": headroom,
                                            "measured_reserve_bytes": reserve}
        if above > headroom // 2:
            disagreements.append({"stream": "stack-model", "error": "array locals of the frames above the recorded stack base take %d bytes; "
                                  "only %d bytes of the %d KiB stack are left after the budget and the measured reserve (%s)"
                                  % (above, headroom, STACK_KB, cm.group(1) if cm else "")})
    samples.append({"shape": "nest-parens", "k": extra["nesting_thresholds"].get("nest-parens"), "observed": "first depth killed by a signal"})

    return {
        "evaluations": evaluations,
        "distinct_nontrivial": len(nontrivial),
        "rule": "naija (debug and release) under RLIMIT_STACK 8 MiB on a shape x depth grid: %d user-recursion shapes at unbounded depth (oracle: 'Stack overflow' "
                "runtime error, never a signal), each also with the recursive call inside k nested expression nodes of %d kinds (k up to 400 debug / 2000 release) and delivered by "
                "file, --eval, redirected stdin and a pipe, %d source-nesting shapes and %d data-nesting shapes on a geometric depth grid (oracle: no exit by signal), nested blocks under a "
                "recursion that nearly used the budget; non-trivial = distinct (shape, profile, depth) run that exhausted the depth (reported overflow or crash); every shape's "
                "function cycle is classified by the extracted model over the regenerated call graph and the prediction compared with the observation"
                % (len(GUARDED), len(CONTEXTS), len(NESTING), len(DATA)),
        "samples": samples,
        "failures": failures,
        "disagreements": disagreements,
        "extra": extra,
    }


def source_of(case):
    s = case.get("shape")
    if case.get("source"):
        return case["source"]
    if s in GUARDED and case.get("context"):
        return in_context(s, case["context"], int(case["k"]))
    if s in GUARDED:
        return GUARDED[s][0]
    if s in NESTING:
        return NESTING[s][0](int(case["k"]))
    if s in DATA:
        return DATA[s][0](int(case["k"]))
    if s == BLOCKS_UNDER_REC:
        return blocks_under_rec(int(case["n"]), int(case["k"]))
    return None


def replay(env, payload):
    case = payload.get("case") or {}
    case = case.get("case", case)
    src = source_of(case)
    if src is None:
        print("replay: no concrete input in this file (obligations: %s)" % payload.get("no_longer_checks"))
        return 1
    release = case.get("profile") == "release"
    ok, out = common.build_naija(release=release)
    if not ok:
        print("replay: naija build failed\n" + out[-1000:])
        return 1
    kind, det = run_naija(env, src, release, tag="replay", mode=case.get("mode", "file"))
    print("shape %s %s (%s, %s): %s %s" % (case.get("shape"), case.get("context", ""), "release" if release else "debug",
                                           case.get("mode", "file"), kind, det))
    bad = kind == "crash"
    print("replay: %s" % ("still failing" if bad else "passes now"))
    return 1 if bad else 0
