"""C09 — static rules enforced exactly: ill-formed rejected, well-formed accepted.

Five streams, all through `nsverif lang` (the real Lexer -> Parser -> Resolver) and, for every
program that parses, through the extracted `StaticRules.check` (`nsmodel langc09`) on the AST
the harness dumped:

  A  well-formed programs (Gen09: langgen's generator made well-formed by construction);
     ORACLE: accepted, no error diagnostic.
  B  one single-rule violation injected into each program of A at a random position and
     nesting context (statement slot of any block: top level, if/else branch, loop body,
     nested block, function body, function inside a loop; or in place: inside an existing
     expression, call argument, array literal, interpolated string);
     ORACLE (independent of the model): rejected, one of the diagnostics is the one of the
     broken rule (message and first label), every other error diagnostic belongs to the
     allowed cascade of that injection.  The oracle's knowledge of the context (what is
     declared before the slot, which functions are visible with which arity, inside a loop /
     a function) comes from `Scan`, a line-structure reading of the generated text written
     from the documented scoping rules, not from the checker or the model.
  C  hand-written corpus: the keyed defects (DESIGN section 7 row 9, `add` with a dynamic
     operand, return type inferred in the enclosing scope, method arity on a dynamic
     receiver) and neighbouring shapes, each with the verdict the documented rules give.
  D  the typing matrix, whole, on every run (1754 cells): every static type (number, string,
     boolean, array, null, process_command, process_result; literal, declared, uninitialised
     `make`, result of a function without `return`) x every method of every family (own
     family accepted, foreign / unknown rejected, arity of each method, dynamic receivers),
     every binary operator x every pair of operand types, unary operators / `if` / `jasi`
     conditions x every type, index and index assignment (base x index type), typed built-in
     arguments (join, cwd, env, timeout_ms, command) x every type.  The expected verdict comes
     from the documented families and operand rules written down in this module.  Stream B's
     typing injections draw rejecting cells of the matrix (random slot / nesting context) and
     every program of stream A carries two well-typed cells at random slots (guarded by
     `if to say (false)`: checked, never run).

     Further families of the same stream: the history of a variable (how its static type comes
     about) x every use, function signatures (result types; nested definitions hiding outer
     ones), the static type of every operator's RESULT (declared, then used), and which
     definition a call refers to (an inner definition with another parameter count in a
     function / block / branch / loop, the call one construct further down, before or after
     the inner definition, or back outside).
  E  tiny-vocabulary grammar fuzzing (lib/tinygen.py): 50 000 short programs per quick run
     (10x in thorough) sampled from the whole grammar over 2-3 identifiers shared by
     variables, parameters and functions.  No expected verdict: the extracted checker must
     agree with the resolver on every text (acceptance and multiset of messages).

Correspondence: acceptance and the multiset of error diagnostics (message) of the resolver
must equal `accepted` and the multiset of `category` of the model's violations."""
import os
import re
import shutil
import time

import common
import langgen
import langrun
import tinygen

TRUSTED_EXTRA = [
    "C09: StaticRules.check is compared with src/resolver.rs on the AST dumped by the harness (parser trusted to build the AST; "
    "the harness dump and nsmodel's AST reader are trusted glue); the typing table and declared-type inference (infer / check_expr / "
    "ret_type_of) are transcribed from resolver.rs where docs/*.md are silent",
    "C09: translator/gen_rules.py reads built-in names/arity/return type/mutating flag, ValueType, SemanticError messages and the "
    "reserved words by regex from src/builtins/*.rs, src/helpers.rs, src/resolver.rs, src/syntax/{scanner,token}.rs",
    "C09: the oracle's expected diagnostic per injected rule (message + first label text) is written by hand from the documented rule; "
    "`Scan` (line-structure scoping of generated programs) is an independent Python reading of docs/VARIABLES.md, FUNCTIONS.md, LOOPS.md",
]
ASSUMPTIONS = [
    "programs are the ones the generator and the injector produce (grammar-based, terminating); arbitrary text is C07's subject",
    "reserved words used as names are rejected by the parser (diagnostic `Use of reserved keyword`, phase parse): checked by the oracle only, "
    "the model sees ASTs and no AST can contain a keyword as a name",
]
COQ_TIMEOUT = 1500

NUM, STR, BOOL, NULL, ARR = langgen.NUM, langgen.STR, langgen.BOOL, langgen.NULL, langgen.ARR

BUILTINS = {"shout": 1, "typeof": 1, "read_line": 1, "to_string": 1, "command": 1}
KEYWORDS = ["make", "get", "add", "minus", "times", "divide", "mod", "and", "or", "not", "jasi", "start", "end",
            "comot", "next", "na", "pass", "true", "false", "null", "do", "return"]

M_UNDECL = "Undeclared identifier"
M_ASSIGN = "Assignment to undeclared variable"
M_ARITY = "Invalid parameter count"
M_UNREACH = "Unreachable code"
M_DUP = "Duplicate identifier"
M_RESERVED = "Use of reserved keyword"
M_TYPE = "Type mismatch"


# ----------------------------------------------------------------------------------------
# stream A: well-formed by construction

class Gen09(langgen.Gen):
    """langgen.Gen with the two sources of (legitimately) rejected programs removed:
    * a function with a non-null result type always ends in `return <expr of that type>`
      (langgen omits it 15% of the time; the call sites then apply operators to null);
    * inside a function body a `make` never reuses the name of a variable of an enclosing
      scope, and `return` expressions mention only the function's own parameters and locals
      (the resolver infers return types when the enclosing block is entered, in the scope
      as it is then — keyed defect `c09-return-type-from-outer-scope`, exercised by the
      corpus instead)."""

    fn_bases = ()
    # once the resolver types names dynamically while it infers signatures (the repair of
    # c09-return-type-from-outer-scope) the two restrictions above are lifted
    relaxed = False

    def ret_expr(self, f):
        if not self.fn_bases or self.relaxed:
            return langgen.Gen.ret_expr(self, f)
        saved = self.scopes
        self.scopes = self.scopes[self.fn_bases[-1]:]
        try:
            return langgen.Gen.ret_expr(self, f)
        finally:
            self.scopes = saved

    def own_atom(self, ty):
        if self.relaxed:
            return self.atom(ty)
        saved = self.scopes
        self.scopes = self.scopes[self.fn_bases[-1]:]
        try:
            return self.atom(ty)
        finally:
            self.scopes = saved

    def stmt(self, ind):
        if self.fn_stack and not self.relaxed:
            saved = self.o.p_shadow
            self.o.p_shadow = 0.0
            try:
                return langgen.Gen.stmt(self, ind)
            finally:
                self.o.p_shadow = saved
        return langgen.Gen.stmt(self, ind)

    def fn_def(self, f, ind):
        r = self.r
        self.stat("fn_def")
        params = ["p%d" % i for i in range(len(f.ptypes))]
        outer_visible = self.visible()
        saved_scopes, saved_loop = self.scopes, self.loop_depth
        self.scopes = [[]] if f.pure else list(self.scopes)
        self.loop_depth = 0
        pscope = []
        for p, t in zip(params, f.ptypes):
            if t == ARR:
                pscope.append(langgen.Var(p, ARR, elem=NUM, minlen=0))
            else:
                pv = langgen.Var(p, NUM if t == "dec" else t)
                pv.protected = (t == "dec")
                pscope.append(pv)
        self.fn_bases = tuple(self.fn_bases) + (len(self.scopes),)
        self.scopes.append(pscope)
        self.scopes.append([])
        self.fscopes.append([])
        self.fn_stack.append((f, params))
        pad = "  " * (ind + 1)
        body = []
        if f.rec:
            self.stat("recursive_fn")
            body.append("%sif to say (%s small pass 1) start return %s end" % (pad, params[0], self.ret_expr(f) if f.rty != NULL else "null"))
        for _ in range(r.randint(1, 4)):
            body += self.stmt(ind + 1)
        if f.rec:
            rest = [p for p, _ in list(zip(params, f.ptypes))[1:]]
            rc = "%s(%s)" % (f.name, ", ".join(["%s minus 1" % params[0]] + rest))
            if f.rty in (NUM, STR):
                body.append("%sreturn %s add %s" % (pad, self.own_atom(f.rty), rc))
            elif f.rty == NULL:
                body.append("%s%s" % (pad, rc))
            else:
                body.append("%sreturn %s" % (pad, rc))
        elif f.rty != NULL:
            body.append("%sreturn %s" % (pad, self.ret_expr(f)))
        self.fn_stack.pop()
        self.fn_bases = self.fn_bases[:-1]
        self.fscopes.pop()
        self.scopes.pop()
        self.scopes.pop()
        text = "\n".join(body)
        if not f.pure:
            words = set(re.findall(r"[A-Za-z_][A-Za-z0-9_]*", text))
            f.captures = [v for v in outer_visible if v.name in words]
        self.scopes, self.loop_depth = saved_scopes, saved_loop
        f.defined = True
        return ["%sdo %s(%s) start" % ("  " * ind, f.name, ", ".join(params))] + body + ["%send" % ("  " * ind)]


def gen_program(rng):
    o = langgen.Opts(max_stmts=rng.choice([6, 10, 14]), p_fn=rng.choice([0.18, 0.3]), p_loop=rng.choice([0.14, 0.25]),
                     p_block=rng.choice([0.05, 0.12]), p_trap=0.0)
    g = Gen09(rng, o)
    g.relaxed = signature_names_dynamic()
    return g.program(), g.stats


_SIG = {}


def signature_names_dynamic():
    """the behaviour switch the translator also reads (GenRules.src_signature_names_dynamic)"""
    if "v" not in _SIG:
        try:
            src = open(os.path.join(common.REPO, "src", "resolver.rs"), encoding="utf-8").read()
            _SIG["v"] = bool(re.search(r"Expr::Var\(\.\.\)\s*if\s+self\.signature_body\.is_some\(\)", src))
        except OSError:
            _SIG["v"] = False
    return _SIG["v"]


# ----------------------------------------------------------------------------------------
# the oracle's reading of a generated program: blocks, declarations, contexts

STRING_RE = re.compile(r'"(?:[^"\\]|\\.)*"')


def nostr(line):
    return STRING_RE.sub('""', line)


class Item:
    def __init__(self, kind, line, body=None, end=None, name=None, params=None, decl=None):
        self.kind, self.line, self.body, self.end = kind, line, body, end
        self.name, self.params, self.decl = name, params, decl


class ScanError(Exception):
    pass


def scan(src):
    """-> (lines, items of the root block).  Generated programs put one statement per line
    except the balanced one-liners `if to say (..) start <simple> end`."""
    lines = src.split("\n")
    while lines and lines[-1].strip() == "":
        lines.pop()
    n = len(lines)

    def block(i):
        items = []
        while i < n:
            t = lines[i].strip()
            if t == "end":
                return items, i
            toks = re.findall(r"[A-Za-z_][A-Za-z0-9_]*", nostr(t))
            net = toks.count("start") - toks.count("end")
            if net == 0:
                m = re.match(r"make ([A-Za-z_]\w*)( get|$)", t)
                items.append(Item("simple", i, decl=m.group(1) if m else None))
                i += 1
                continue
            if net != 1:
                raise ScanError("line %d: unbalanced %r" % (i, t))
            if t.startswith("do "):
                m = re.match(r"do ([A-Za-z_]\w*)\(([^)]*)\) start$", t)
                if not m:
                    raise ScanError("line %d: function header %r" % (i, t))
                kind, name = "fn", m.group(1)
                params = [p.strip() for p in m.group(2).split(",") if p.strip()]
            elif t.startswith("jasi"):
                kind, name, params = "loop", None, None
            elif t.startswith("if to say"):
                kind, name, params = "if", None, None
            elif t.startswith("if not so"):
                kind, name, params = "else", None, None
            elif t == "start":
                kind, name, params = "block", None, None
            else:
                raise ScanError("line %d: header %r" % (i, t))
            body, j = block(i + 1)
            if j >= n or lines[j].strip() != "end":
                raise ScanError("line %d: no end" % i)
            items.append(Item(kind, i, body, j, name, params))
            i = j + 1
        return items, i

    items, i = block(0)
    if i != n:
        raise ScanError("stray end at line %d" % i)
    return lines, items


class Slot:
    """a statement position: `line` = index of the line to insert before"""

    def __init__(self, line, indent, in_loop, in_fn, fn_in_loop, declared, tables, own_fns, depth, ctxkinds):
        self.line, self.indent, self.in_loop, self.in_fn, self.fn_in_loop = line, indent, in_loop, in_fn, fn_in_loop
        self.declared, self.tables, self.own_fns, self.depth, self.ctxkinds = declared, tables, own_fns, depth, ctxkinds

    def visible_fn(self, name):
        for t in self.tables:
            if name in t:
                return t[name]
        return None


def slots(lines, items):
    """every statement slot of every block with the context the documented rules give it;
    also `at[line] = slot` for the context in which an existing statement/header is checked"""
    out = []
    at = {}

    def indent_of(i):
        return len(lines[i]) - len(lines[i].lstrip())

    def walk(items, end_line, end_indent, in_loop, in_fn, fn_in_loop, declared, tables, depth, kinds):
        own = {}
        for it in items:
            if it.kind == "fn" and it.name not in own:
                own[it.name] = len(it.params)
        tables = [own] + tables
        declared = set(declared)
        for it in items:
            s = Slot(it.line, indent_of(it.line), in_loop, in_fn, fn_in_loop, set(declared), tables, own, depth, kinds)
            at[it.line] = s
            if it.kind != "else":
                out.append(s)
            if it.kind == "simple":
                if it.decl:
                    declared.add(it.decl)
            elif it.kind == "fn":
                walk(it.body, it.end, indent_of(it.line) + 2, False, True, in_loop or fn_in_loop,
                     declared | set(it.params), tables, depth + 1, kinds + ("fn",))
            elif it.kind == "loop":
                walk(it.body, it.end, indent_of(it.line) + 2, True, in_fn, fn_in_loop, declared, tables, depth + 1, kinds + ("loop",))
            else:
                walk(it.body, it.end, indent_of(it.line) + 2, in_loop, in_fn, fn_in_loop, declared, tables, depth + 1, kinds + (it.kind,))
        out.append(Slot(end_line, end_indent, in_loop, in_fn, fn_in_loop, set(declared), tables, own, depth, kinds))

    walk(items, len(lines), 0, False, False, False, set(), [], 0, ())
    return out, at


def all_names(lines):
    names = set()
    for l in lines:
        names.update(re.findall(r"[A-Za-z_][A-Za-z0-9_]*", l))
    return names


def decl_names(items):
    vs, fs = set(), set()

    def go(items):
        for it in items:
            if it.kind == "simple" and it.decl:
                vs.add(it.decl)
            if it.kind == "fn":
                fs.add(it.name)
                vs.update(it.params)
            if it.body is not None:
                go(it.body)
    go(items)
    return vs, fs


# ----------------------------------------------------------------------------------------
# stream B: single-rule injections

def fresh(names, rng, prefix="zq"):
    while True:
        n = "%s%d" % (prefix, rng.randrange(1000, 99999))
        if n not in names:
            names.add(n)
            return n


EXPR_WRAPS = [
    ("stmt", "shout(%s)"), ("decl", "make %s get %s"), ("array", "shout([0, %s, 1])"), ("arg", "shout(to_string(%s))"),
    ("arg", "shout(typeof([%s]))"), ("operand", "shout(0 add %s)"), ("paren", "shout((%s))"), ("index", "shout([[%s]][0])"),
    ("cond", "if to say (%s na 0) start end"), ("loopcond", "jasi (%s na 0) start comot end"), ("assign-rhs", None), ("return", "return %s"),
]

TYPE_INJECTIONS = [
    # (name, lines, message, label prefix)
    ("minus-string", ['shout(1 minus "s")'], M_TYPE, "Dis expression type no be number"),
    ("add-bool", ["shout(true add 1)"], M_TYPE, "Dis expression type no be number or string"),
    ("compare-mixed", ['shout(1 pass "a")'], M_TYPE, "Dis expression type no be number, string, or boolean"),
    ("and-number", ["shout(1 and true)"], M_TYPE, "Dis expression type no be boolean"),
    ("not-number", ["shout(not 1)"], M_TYPE, "Dis expression type no be boolean"),
    ("neg-string", ['shout(minus "a")'], M_TYPE, "Dis expression type no be number"),
    ("if-number", ["if to say (1) start end"], M_TYPE, "Dis expression no be boolean"),
    ("loop-string", ['jasi ("s") start comot end'], M_TYPE, "Dis expression no be boolean"),
    ("index-string", ['shout([1, 2]["a"])'], M_TYPE, "Dis index type no be number"),
    ("index-on-string", ['shout("abc"[0])'], M_TYPE, "Dis expression type no be array"),
    ("unknown-method", ['shout("abc".nosuch())'], M_UNDECL, "Method `nosuch` no dey for string type"),
    ("method-arity", ['shout("abc".len(1))'], M_ARITY, "Method `len` dey expect 0 arguments but na 1 dey here"),
    ("method-arg", ["shout([1].join(2))"], M_TYPE, "Method `join` dey expect string but na number dey here"),
    ("command-arg", ["shout(typeof(command(1)))"], M_TYPE, "Function `command` dey expect string"),
    ("declared-type", ['make %(v)s get "s"', "shout(%(v)s minus 1)"], M_TYPE, "Dis expression type no be number"),
    ("declared-type-cond", ["make %(v)s get 1", "if to say (%(v)s) start end"], M_TYPE, "Dis expression no be boolean"),
    ("dynamic-method-arity", ["make %(v)s get [1]", "shout(%(v)s[0].slice())"], M_ARITY, "Method `slice` dey expect 2 arguments but na 0 dey here"),
]

KINDS = ["undeclared-var", "undeclared-var-scoped", "undeclared-var-inplace", "undeclared-var-interp", "assign-undeclared",
         "undeclared-function", "arity-user", "arity-builtin", "break", "next", "return", "duplicate-function",
         "duplicate-parameter", "reserved-builtin", "reserved-keyword", "type", "type", "type", "type"]


def insert(lines, slot, new):
    pad = " " * slot.indent
    return lines[:slot.line] + [pad + l for l in new] + lines[slot.line:]


def inject(rng, src, kind):
    """-> None when this program offers no position for `kind`, else a dict with the injected
    source and what the oracle expects."""
    lines, items = scan(src)
    sl, at = slots(lines, items)
    names = all_names(lines) | set(BUILTINS) | set(KEYWORDS)
    vnames, fnames = decl_names(items)

    def pick(pred=None, prefer=None):
        c = [s for s in sl if pred is None or pred(s)]
        if not c:
            return None
        if prefer is not None:
            p = [s for s in c if prefer(s)]
            if p and rng.random() < 0.6:
                return rng.choice(p)
        return rng.choice(c)

    deep = lambda s: s.depth >= 2
    res = {"kind": kind, "allowed": set()}

    def done(slot, new_lines, message, label, where=None):
        res.update(source="\n".join(new_lines) + "\n", message=message, label=label,
                   context="/".join(slot.ctxkinds) or "top", depth=slot.depth,
                   fn_in_loop=bool(slot.fn_in_loop and slot.in_fn), where=where)
        return res

    if kind in ("undeclared-var", "undeclared-var-scoped"):
        if kind == "undeclared-var":
            s = pick(prefer=deep)
            x = fresh(names, rng)
        else:
            # a variable that exists elsewhere in the program (declared later in the block, in a
            # block that is already closed, in another function) but not before this position
            c = [(s, sorted(vnames - s.declared)) for s in sl]
            c = [(s, v) for s, v in c if v]
            if not c:
                return None
            s, v = rng.choice(c)
            x = rng.choice(v)
        wraps = [w for w in EXPR_WRAPS if (w[0] != "return" or s.in_fn) and w[0] != "assign-rhs"]
        wk, tmpl = rng.choice(wraps)
        line = tmpl % ((fresh(names, rng), x) if wk == "decl" else x)
        res["allowed"] = {M_TYPE}            # an operand without a type is also a typing error of its operator
        return done(s, insert(lines, s, [line]), M_UNDECL, "Variable %s no dey scope" % x, wk)
    if kind == "undeclared-var-interp":
        s = pick(prefer=deep)
        x = fresh(names, rng)
        line = rng.choice(['shout("a {%s} b")', 'make %s get "v={%%s}"' % fresh(names, rng), 'shout(["{%s}"])', 'shout(typeof("{ %s }"))']) % x
        return done(s, insert(lines, s, [line]), M_UNDECL, "Variable `%s` no dey scope" % x, "interpolation")
    if kind == "undeclared-var-inplace":
        # replace a standalone integer literal of an existing statement / condition by an unknown name
        cands = []
        for i, l in enumerate(lines):
            if i not in at:
                continue
            spans = [(m.start(), m.end()) for m in STRING_RE.finditer(l)]
            for m in re.finditer(r"(?<![\w.])\d+(?![\w.])", l):
                if any(a <= m.start() < b for a, b in spans):
                    continue
                cands.append((i, m.start(), m.end()))
        if not cands:
            return None
        i, a, b = rng.choice(cands)
        x = fresh(names, rng)
        new = list(lines)
        new[i] = lines[i][:a] + x + lines[i][b:]
        res["allowed"] = {M_TYPE}
        return done(at[i], new, M_UNDECL, "Variable %s no dey scope" % x, "in-place")
    if kind == "assign-undeclared":
        if rng.random() < 0.5 or not vnames:
            s = pick(prefer=deep)
            x = fresh(names, rng)
        else:
            c = [(s, sorted(vnames - s.declared)) for s in sl]
            c = [(s, v) for s, v in c if v]
            if not c:
                return None
            s, v = rng.choice(c)
            x = rng.choice(v)
        return done(s, insert(lines, s, ["%s get 1" % x]), M_ASSIGN, "Variable `%s` no dey scope" % x)
    if kind == "undeclared-function":
        c = [(s, sorted(f for f in fnames if s.visible_fn(f) is None)) for s in sl]
        c = [(s, v) for s, v in c if v]
        if c and rng.random() < 0.5:
            s, v = rng.choice(c)
            f = rng.choice(v)                  # defined in a block that does not enclose this position
        else:
            s = pick(prefer=deep)
            f = fresh(names, rng, "zf")
        line = rng.choice(["%s()", "shout(%s(1))", "make " + fresh(names, rng) + " get [%s()]", "shout(to_string(%s(1, 2)))"]) % f
        res["allowed"] = {M_TYPE}
        return done(s, insert(lines, s, [line]), M_UNDECL, "Function `%s` no dey scope" % f)
    if kind == "arity-user":
        c = []
        for s in sl:
            seen = set()
            for t in s.tables:
                for f, a in t.items():
                    if f not in seen:
                        seen.add(f)
                        c.append((s, f, a))
        if not c:
            return None
        s, f, a = rng.choice(c)
        m = rng.choice([k for k in range(0, a + 3) if k != a])
        line = rng.choice(["%s", "shout(%s)", "shout([%s])"]) % ("%s(%s)" % (f, ", ".join(["0"] * m)))
        res["allowed"] = {M_TYPE}
        return done(s, insert(lines, s, [line]), M_ARITY,
                    "Function `%s` dey expect %d argument%s but na %d dey here" % (f, a, "" if a == 1 else "s", m))
    if kind == "arity-builtin":
        s = pick(prefer=deep)
        f = rng.choice(["shout", "typeof", "to_string"])
        m = rng.choice([0, 2, 3])
        call = "%s(%s)" % (f, ", ".join(["0"] * m))
        line = call if f == "shout" else "shout(%s)" % call
        return done(s, insert(lines, s, [line]), M_ARITY, "Function `%s` dey expect 1 argument but na %d dey here" % (f, m))
    if kind in ("break", "next"):
        word = "comot" if kind == "break" else "next"
        s = pick(lambda s: not s.in_loop, prefer=lambda s: s.in_fn and s.fn_in_loop)
        if s is None:
            return None
        line = rng.choice(["%s", "if to say (true) start %s end", "start %s end"]) % word
        return done(s, insert(lines, s, [line]), M_UNREACH, "`%s` statement outside loop body" % word)
    if kind == "return":
        s = pick(lambda s: not s.in_fn, prefer=lambda s: s.in_loop or s.depth >= 1)
        if s is None:
            return None
        line = rng.choice(["return 1", "return null", "if to say (true) start return 0 end", "start return 1 end"])
        return done(s, insert(lines, s, [line]), M_UNREACH, "`return` statement outside function body")
    if kind == "duplicate-function":
        c = [s for s in sl if s.own_fns]
        if c and rng.random() < 0.6:
            s = rng.choice(c)
            f = rng.choice(sorted(s.own_fns))   # a second definition of a function of this very block
            new = ["do %s() start" % f, "end"]
            # when the injected definition comes first it is the one that counts: calls written for the
            # original signature / result type then break their own rules
            res["allowed"] = {M_ARITY, M_TYPE, M_UNDECL}
        else:
            s = pick(prefer=deep)
            f = fresh(names, rng, "zf")
            new = ["do %s() start" % f, "end", "do %s(a) start" % f, "end"]
        return done(s, insert(lines, s, new), M_DUP, "Function `%s` dey scope already" % f)
    if kind == "duplicate-parameter":
        s = pick(prefer=deep)
        f = fresh(names, rng, "zf")
        ps = rng.choice(["a, a", "a, b, a", "x, y, y"])
        p = "a" if ps != "x, y, y" else "y"
        return done(s, insert(lines, s, ["do %s(%s) start" % (f, ps), "end"]), M_DUP, "Parameter `%s` used more than once" % p)
    if kind == "reserved-builtin":
        s = pick(prefer=deep)
        b = rng.choice(sorted(BUILTINS))
        new = rng.choice([["make %s get 1" % b], ["do %s() start" % b, "end"], ["do %s(%s) start" % (fresh(names, rng, "zf"), b), "end"],
                          ["do %s(a, %s) start" % (fresh(names, rng, "zf"), b), "end"]])
        return done(s, insert(lines, s, new), M_RESERVED, "`%s` na reserved keyword" % b)
    if kind == "reserved-keyword":
        s = pick(prefer=deep)
        k = rng.choice(KEYWORDS)
        new = rng.choice([["make %s get 1" % k], ["do %s() start" % k, "end"], ["do %s(%s) start" % (fresh(names, rng, "zf"), k), "end"]])
        res["phase"] = "parse"
        res["allowed"] = None                 # the parser's recovery may add other syntax errors
        # Token's Display prints `Do` / `Return` (Debug fallback) for these two: label not compared
        label = "" if k in ("do", "return") else "`%s` na reserved keyword" % k
        return done(s, insert(lines, s, new), M_RESERVED, label)
    if kind == "type":
        s = pick(prefer=deep)
        if rng.random() < 0.25:
            name, new, msg, label = rng.choice(TYPE_INJECTIONS)
            v = fresh(names, rng)
            res["kind"] = "type:" + name
            return done(s, insert(lines, s, [l % {"v": v} for l in new]), msg, label)
        c = rng.choice([c for c in cells() if not c["accept"]])
        res["kind"] = "type:" + c["name"].split(":")[0]
        res["cell"] = c["name"]
        cl, lab = cell_instance(c, names, rng)
        return done(s, insert(lines, s, cl), c["message"], lab)
    raise ValueError(kind)


# ----------------------------------------------------------------------------------------
# stream D: the typing matrix.  Every static type (literal and declared; null also as an
# uninitialised `make` and as the result of a function without `return`) x every method of
# every family, every operator / condition / index / typed-argument rule x every static
# operand type.  The expected verdict is computed here from the documented families
# (docs/STRINGS.md, ARRAYS.md, NUMBERS.md, PROCESS_EXECUTION.md) and the operand rules of the
# property statement — not from the checker or the model.

TYPES = ["number", "string", "boolean", "array", "null", "process_command", "process_result"]
DYN = "dynamic"

METHODS = {
    "string": {"len": [], "slice": ["0", "1"], "to_uppercase": [], "to_lowercase": [], "find": ['"a"'],
               "replace": ['"a"', '"b"'], "trim": [], "to_number": [], "split": ['","']},
    "array": {"len": [], "push": ["1"], "pop": [], "reverse": [], "join": ['","']},
    "number": {"abs": [], "sqrt": [], "floor": [], "ceil": [], "round": []},
    "process_command": {"arg": ['"a"'], "cwd": ['"/tmp"'], "env": ['"K"', '"V"'], "stdin_text": ['"t"'], "stdin_inherit": [],
                        "stdin_null": [], "stdout_capture": [], "stdout_inherit": [], "stdout_null": [], "stderr_capture": [],
                        "stderr_inherit": [], "stderr_null": [], "timeout_ms": ["5"], "run": []},
    "process_result": {"success": [], "exit_code": [], "stdout": [], "stderr": []},
    "boolean": {}, "null": {},
}
FAMILY_ORDER = ["string", "array", "number", "process_command", "process_result"]
LITERAL = {"number": "7", "string": '"s"', "boolean": "true", "array": "[1, 2]", "null": "null",
           "process_command": 'command("true")', "process_result": 'command("true").run()'}


def forms(t):
    """ways to write a value whose static type is t: (setup lines, expression, form name); `@n` = fresh names"""
    if t == DYN:
        return [(["make @1 get [1]"], "@1[0]", "element")]
    out = [([], "(%s)" % LITERAL[t], "literal"), (["make @1 get %s" % LITERAL[t]], "@1", "declared")]
    if t == "null":
        out.append((["make @1"], "@1", "uninitialised"))
        out.append((["do @1() start end"], "@1()", "no-return"))
    if t == "process_result":
        out.append((["make @2 get command(\"true\")", "make @1 get @2.run()"], "@1", "declared-from-var"))
    return out


def plural(n):
    return "" if n == 1 else "s"


OP_LABEL = {"add": "Dis expression type no be number or string", "minus": "Dis expression type no be number",
            "times": "Dis expression type no be number", "divide": "Dis expression type no be number",
            "mod": "Dis expression type no be number", "and": "Dis expression type no be boolean",
            "or": "Dis expression type no be boolean", "na": "Dis expression type no be number, string, or boolean",
            "pass": "Dis expression type no be number, string, or boolean",
            "small pass": "Dis expression type no be number, string, or boolean"}


def op_ok(op, l, r):
    nd = lambda t: t in ("null", DYN)
    if op == "add":
        return l in ("string", DYN) or r in ("string", DYN) or (l == "number" and r == "number")
    if op in ("minus", "times", "divide", "mod"):
        return l in ("number", DYN) and r in ("number", DYN)
    if op in ("na", "pass", "small pass"):
        return (l == r and l in ("number", "string", "boolean")) or nd(l) or nd(r)
    return (l == "boolean" and r == "boolean") or nd(l) or nd(r)


def matrix_cells():
    cells = []

    def cell(name, lines, accept, message=None, label=None):
        cells.append({"name": name, "lines": lines, "accept": accept, "message": message, "label": label})

    # receiver type x method
    names = []
    for fam in FAMILY_ORDER:
        for m in METHODS[fam]:
            if m not in names:
                names.append(m)
    for t in TYPES:
        for fi, (setup, e, form) in enumerate(forms(t)):
            for fam in FAMILY_ORDER:
                for m, args in METHODS[fam].items():
                    if m in METHODS[t] and fam != t:
                        continue                      # same name in the receiver's own family: covered there
                    stmt = "shout(%s.%s(%s))" % (e, m, ", ".join(args))
                    nm = "method:%s/%s.%s:%s" % (t, fam, m, form)
                    if fam == t:
                        if t == "process_command" and form == "literal" and m != "run":
                            cell(nm, setup + [stmt], False, M_TYPE, "Dis method need variable or array slot receiver")
                        else:
                            cell(nm, setup + [stmt], True)
                    else:
                        cell(nm, setup + [stmt], False, M_UNDECL, "Method `%s` no dey for %s type" % (m, t))
            cell("method:%s/unknown:%s" % (t, form), setup + ["shout(%s.nosuch())" % e], False, M_UNDECL,
                 "Method `nosuch` no dey for %s type" % t)
    # arity of every method on its own family (declared receiver)
    for fam in FAMILY_ORDER:
        for m, args in METHODS[fam].items():
            n = len(args)
            cell("method-arity:%s.%s" % (fam, m), ["make @1 get %s" % LITERAL[fam], "shout(@1.%s(%s))" % (m, ", ".join(args + ["0"]))],
                 False, M_ARITY, "Method `%s` dey expect %d argument%s but na %d dey here" % (m, n, plural(n), n + 1))
    # dynamic receiver: any method name with an argument count that some family accepts is a run-time matter
    dsetup, de, _ = forms(DYN)[0]
    for m in names:
        ars = sorted(set(len(METHODS[f][m]) for f in FAMILY_ORDER if m in METHODS[f]))
        for k in range(0, 4):
            stmt = "shout(%s.%s(%s))" % (de, m, ", ".join(["0"] * k))
            if k in ars:
                cell("method:dynamic.%s/%d" % (m, k), dsetup + [stmt], True)
            else:
                cell("method:dynamic.%s/%d" % (m, k), dsetup + [stmt], False, M_ARITY, "Method `%s` dey expect" % m)
    cell("method:dynamic.unknown", dsetup + ["shout(%s.nosuch(1, 2))" % de], True)

    def two(l, r, i):
        fl, fr = forms(l), forms(r)
        sl, el, _ = fl[i % len(fl)]
        sr, er, _ = fr[(i // 2) % len(fr)]
        sr = [x.replace("@1", "@3").replace("@2", "@4") for x in sr]
        er = er.replace("@1", "@3").replace("@2", "@4")
        return sl + sr, el, er

    # binary operators
    i = 0
    for op in OP_LABEL:
        for l in TYPES + [DYN]:
            for r in TYPES + [DYN]:
                i += 1
                setup, el, er = two(l, r, i)
                stmt = "shout(%s %s %s)" % (el, op, er)
                if op_ok(op, l, r):
                    cell("op:%s %s %s" % (l, op, r), setup + [stmt], True)
                else:
                    cell("op:%s %s %s" % (l, op, r), setup + [stmt], False, M_TYPE, OP_LABEL[op])
    # unary operators, conditions
    for t in TYPES + [DYN]:
        for fi, (setup, e, form) in enumerate(forms(t)):
            ok_bool = t in ("boolean", "null", DYN)
            ok_num = t in ("number", DYN)
            cell("not:%s:%s" % (t, form), setup + ["shout(not %s)" % e], ok_bool, M_TYPE, "Dis expression type no be boolean")
            cell("neg:%s:%s" % (t, form), setup + ["shout(minus %s)" % e], ok_num, M_TYPE, "Dis expression type no be number")
            cell("if:%s:%s" % (t, form), setup + ["if to say (%s) start end" % e], ok_bool, M_TYPE, "Dis expression no be boolean")
            cell("loop:%s:%s" % (t, form), setup + ["jasi (%s) start comot end" % e], ok_bool, M_TYPE, "Dis expression no be boolean")
    # indexing: base x index
    i = 0
    for b in TYPES + [DYN]:
        for x in TYPES + [DYN]:
            i += 1
            setup, eb, ex = two(b, x, i)
            okb, okx = b in ("array", DYN), x in ("number", DYN)
            label = "Dis expression type no be array" if not okb else "Dis index type no be number"
            cell("index:%s[%s]" % (b, x), setup + ["shout(%s[%s])" % (eb, ex)], okb and okx, M_TYPE, label)
            sx, ex2, _ = forms(x)[i % len(forms(x))]
            sx = [y.replace("@1", "@3").replace("@2", "@4") for y in sx]
            ex2 = ex2.replace("@1", "@3").replace("@2", "@4")
            base = (["make @5 get [[1]]"], "@5[0]") if b == DYN else (["make @5 get %s" % LITERAL[b]], "@5")
            cell("index-assign:%s[%s]" % (b, x), base[0] + sx + ["%s[%s] get 0" % (base[1], ex2)], okb and okx, M_TYPE, label)
    # typed arguments of built-ins
    for t in TYPES + [DYN]:
        for fi, (setup, e, form) in enumerate(forms(t)):
            oks, okn = t in ("string", DYN), t in ("number", DYN)
            cell("arg:join(%s):%s" % (t, form), setup + ["shout([1].join(%s))" % e], oks, M_TYPE,
                 "Method `join` dey expect string but na %s dey here" % t)
            cell("arg:command(%s):%s" % (t, form), setup + ["shout(typeof(command(%s)))" % e], oks, M_TYPE,
                 "Function `command` dey expect string")
            pre = ['make @6 get command("true")']
            cell("arg:cwd(%s):%s" % (t, form), pre + setup + ["@6.cwd(%s)" % e], oks, M_TYPE,
                 "Method `cwd` dey expect string but na %s dey here" % t)
            cell("arg:env(%s):%s" % (t, form), pre + setup + ["@6.env(%s, \"v\")" % e], oks, M_TYPE,
                 "Method `env` dey expect string but na %s dey here" % t)
            cell("arg:timeout_ms(%s):%s" % (t, form), pre + setup + ["@6.timeout_ms(%s)" % e], okn, M_TYPE,
                 "Method `timeout_ms` dey expect number but na %s dey here" % t)
    for c in cells:
        if c["accept"]:
            c["message"] = c["label"] = None
    return cells


# ----------------------------------------------------------------------------------------
# stream D, second part: the history of a variable and the signature of a function.
# (i)  every way the static type of a variable comes about (redeclared in the same block,
#      shadowed in an inner block, reassigned, a parameter hidden by a `make`, inside / after a
#      loop or a branch, declared from another variable, uninitialised) x every type-sensitive
#      use after it, both verdicts;
# (ii) the result type of a call: literal returns (before and after the definition), no return,
#      several returns (equal / different), returns only inside nested blocks, returns of nested
#      functions (excluded), chains of calls in either order (the signatures of a block are a
#      fixpoint), recursion, and a nested function that hides an outer one of another result
#      type, defined directly in the body or in a then / else / loop / plain block of it.
# Expected verdicts: a use is fine iff the type the documented rules give the variable / the
# call at that point admits it (unknown => dynamic => accepted); computed here.

VT = ["number", "string", "boolean", "array", "null"]


def use_table():
    bo = ("boolean", "null", DYN)
    nu = ("number", DYN)
    return [
        ("cond", "if to say (%s) start end", bo, M_TYPE, lambda t: "Dis expression no be boolean"),
        ("not", "shout(not %s)", bo, M_TYPE, lambda t: "Dis expression type no be boolean"),
        ("and", "shout(%s and true)", bo, M_TYPE, lambda t: "Dis expression type no be boolean"),
        ("minus", "shout(%s minus 1)", nu, M_TYPE, lambda t: "Dis expression type no be number"),
        ("neg", "shout(minus %s)", nu, M_TYPE, lambda t: "Dis expression type no be number"),
        ("less", "shout(%s small pass 1)", ("number", "null", DYN), M_TYPE, lambda t: "Dis expression type no be number, string, or boolean"),
        ("index", "shout(%s[0])", ("array", DYN), M_TYPE, lambda t: "Dis expression type no be array"),
        ("as-index", "shout([1, 2][%s])", nu, M_TYPE, lambda t: "Dis index type no be number"),
        ("abs", "shout(%s.abs())", nu, M_UNDECL, lambda t: "Method `abs` no dey for %s type" % t),
        ("upper", "shout(%s.to_uppercase())", ("string", DYN), M_UNDECL, lambda t: "Method `to_uppercase` no dey for %s type" % t),
        ("pop", "shout(%s.pop())", ("array", DYN), M_UNDECL, lambda t: "Method `pop` no dey for %s type" % t),
        ("join-arg", "shout([1].join(%s))", ("string", DYN), M_TYPE, lambda t: "Method `join` dey expect string but na %s dey here" % t),
    ]


def family_cells():
    out = []
    uses = use_table()

    def emit(name, before, expr, t, after=(), only_valid=False, ind=""):
        """one cell per use of `expr` (static type t) placed between `before` and `after`"""
        for un, tmpl, okset, msg, lab in uses:
            ok = t in okset
            if only_valid and not ok:
                continue
            lines = list(before) + [ind + tmpl % expr] + list(after)
            out.append({"name": "%s:%s" % (name, un), "lines": lines, "accept": ok,
                        "message": None if ok else msg, "label": None if ok else lab(t), "plain": True})

    L = LITERAL
    # (i) histories of a variable @1
    for a in VT:
        for b in VT:
            if a == b:
                continue
            A, B = L[a], L[b]
            emit("history:redeclare:%s>%s" % (a, b), ["make @1 get " + A, "make @1 get " + B], "@1", b)
            emit("history:redeclare3:%s>%s>%s" % (a, b, a), ["make @1 get " + A, "make @1 get " + B, "make @1 get " + A], "@1", a)
            emit("history:inner-block:%s>%s" % (a, b), ["make @1 get " + A, "start", "  make @1 get " + B], "@1", b, ["end"], ind="  ")
            emit("history:after-inner-block:%s>%s" % (a, b), ["make @1 get " + A, "start", "  make @1 get " + B, "end"], "@1", a)
            emit("history:reassign:%s>%s" % (a, b), ["make @1 get " + A, "@1 get " + B], "@1", a)
            emit("history:param-hidden:%s" % b, ["do @2(@1) start", "  make @1 get " + B], "@1", b, ["end"], ind="  ")
            emit("history:loop-before:%s>%s" % (a, b), ["make @1 get " + A, "jasi (false) start"], "@1", a, ["  make @1 get " + B, "end"], ind="  ")
            emit("history:loop-after-make:%s>%s" % (a, b), ["make @1 get " + A, "jasi (false) start", "  make @1 get " + B], "@1", b, ["end"], ind="  ")
            emit("history:after-loop:%s>%s" % (a, b), ["make @1 get " + A, "jasi (false) start", "  make @1 get " + B, "end"], "@1", a)
            emit("history:else-after-then:%s>%s" % (a, b), ["make @1 get " + A, "if to say (true) start", "  make @1 get " + B, "end", "if not so start"],
                 "@1", a, ["end"], ind="  ")
            emit("history:in-function:%s>%s" % (a, b), ["do @2() start", "  make @1 get " + A, "  make @1 get " + B], "@1", b, ["end"], ind="  ")
            emit("history:from-variable:%s>%s" % (a, b), ["make @3 get " + B, "make @1 get " + A, "make @1 get @3"], "@1", b)
            emit("history:inner-redeclare-twice:%s>%s" % (a, b), ["make @1 get " + A, "start", "  make @1 get " + A, "  make @1 get " + B], "@1", b, ["end"], ind="  ")
    for a in VT:
        A = L[a]
        emit("history:param:%s" % a, ["do @2(@1) start"], "@1", DYN, ["end"], ind="  ")
        emit("history:captured:%s" % a, ["make @1 get " + A, "do @2() start"], "@1", a, ["end"], ind="  ")
        emit("history:uninitialised-after:%s" % a, ["make @1 get " + A, "make @1"], "@1", "null")
        emit("history:element:%s" % a, ["make @1 get [%s]" % A], "@1[0]", DYN)

    # (ii) signatures: the call @1(..) in a type-sensitive position
    def fn(name, body):
        return ["do %s() start" % name] + ["  " + x for x in body] + ["end"]

    for t in VT:
        T = L[t]
        d = fn("@1", ["return " + T])
        emit("signature:literal-after:%s" % t, d, "@1()", t)
        emit("signature:literal-before:%s" % t, [], "@1()", t, d)
        for place, wrap in (("if", ["if to say (true) start", "  return " + T, "end"]),
                            ("else", ["if to say (false) start", "  shout(1)", "end", "if not so start", "  return " + T, "end"]),
                            ("loop", ["jasi (true) start", "  return " + T, "end"]),
                            ("block", ["start", "  start", "    return " + T, "  end", "end"])):
            emit("signature:return-in-%s:%s" % (place, t), fn("@1", wrap), "@1()", t)
        emit("signature:inner-function-return-excluded:%s" % t, fn("@1", fn("@2", ["return " + T])), "@1()", "null")
        for u in VT:
            U = L[u]
            two = ["do @1(@2) start", "  if to say (@2) start return %s end" % T, "  return " + U, "end"]
            emit("signature:two-returns:%s,%s" % (t, u), two, "@1(true)", t if t == u else DYN)
        # chains: the signature of a block's functions is a fixpoint over the calls in their returns
        for n in (2, 3, 4):
            names = ["@%d" % k for k in range(1, n + 1)]
            defs = [fn(names[k], ["return %s()" % names[k + 1]]) for k in range(n - 1)] + [fn(names[-1], ["return " + T])]
            fwd = [x for dd in defs for x in dd]
            bwd = [x for dd in reversed(defs) for x in dd]
            emit("signature:chain%d-callers-first:%s" % (n, t), fwd, "@1()", t)
            emit("signature:chain%d-callees-first:%s" % (n, t), bwd, "@1()", t)
        emit("signature:return-parameter:%s" % t, ["do @1(@2) start", "  return @2", "end"], "@1(%s)" % T, DYN)
        emit("signature:return-local:%s" % t, fn("@1", ["make @2 get " + T, "return @2"]), "@1()", DYN)
        emit("signature:mutual:%s" % t, ["do @1(@3) start", "  if to say (@3 small pass 1) start return %s end" % T, "  return @2(@3 minus 1)", "end",
                                        "do @2(@3) start", "  return @1(@3)", "end"], "@2(2)", t, only_valid=True)
    emit("signature:no-return", fn("@1", ["shout(1)"]), "@1()", "null")
    emit("signature:bare-return", fn("@1", ["if to say (true) start return end", "shout(1)"]), "@1()", "null")
    emit("signature:recursive-number", ["do @1(@2) start", "  if to say (@2 small pass 1) start return 0 end", "  return @1(@2 minus 1) add 1", "end"],
         "@1(2)", "number", only_valid=True)
    # a nested function hides an outer one of another result type
    for to in VT:
        for ti in VT:
            if to == ti:
                continue
            outer = fn("@2", ["return " + L[to]])
            inner = fn("@2", ["return " + L[ti]])
            for place, body in (
                    ("body", inner + ["return @2()"]),
                    ("then", ["if to say (true) start"] + ["  " + x for x in inner] + ["  return @2()", "end"]),
                    ("else", ["if to say (false) start", "  shout(1)", "end", "if not so start"] + ["  " + x for x in inner] + ["  return @2()", "end"]),
                    ("loop", ["jasi (true) start"] + ["  " + x for x in inner] + ["  return @2()", "end"]),
                    ("block", ["start"] + ["  " + x for x in inner] + ["  return @2()", "end"]),
                    ("block-in-else", ["if to say (false) start", "  shout(1)", "end", "if not so start", "  start"] +
                     ["    " + x for x in inner] + ["    return @2()", "  end", "end"])):
                # the call returns what the INNER function returns: every use that fits it is valid
                emit("signature:hidden-by-nested-in-%s:%s/%s" % (place, to, ti), outer + fn("@1", body), "@1()", ti, only_valid=True)
            # a function nested in ANOTHER nested function does not hide anything here
            deep = fn("@3", inner)
            emit("signature:not-hidden-by-deeper:%s/%s" % (to, ti), outer + fn("@1", deep + ["return @2()"]), "@1()", to)
            # hidden only in the then-branch, called in the else-branch: the outer one is meant
            split = ["if to say (false) start"] + ["  " + x for x in inner] + ["  shout(@2())", "end", "if not so start", "  return @2()", "end"]
            emit("signature:hidden-in-other-branch:%s/%s" % (to, ti), outer + fn("@1", split), "@1()", to, only_valid=True)
    # (iii) the static type of an operator's RESULT (the site that types an expression and the site that checks
    # it must agree): every well-typed operand pair of every operator, the result declared and then used
    def opres(op, l, r):
        if op == "add":
            return "string" if "string" in (l, r) else "number" if (l, r) == ("number", "number") else DYN
        return "number" if op in ("minus", "times", "divide", "mod") else "boolean"

    def lit(t):
        return "@9[0]" if t == DYN else "(%s)" % L[t]

    for op in OP_LABEL:
        for l in VT + [DYN]:
            for r2 in VT + [DYN]:
                if not op_ok(op, l, r2):
                    continue
                pre = ["make @9 get [1]"] if DYN in (l, r2) else []
                e = "%s %s %s" % (lit(l), op, lit(r2))
                n0 = len(out)
                emit("result:%s %s %s" % (l, op, r2), pre + ["make @1 get " + e], "@1", opres(op, l, r2))
                emit("result-direct:%s %s %s" % (l, op, r2), pre, "(%s)" % e, opres(op, l, r2))
                for c in out[n0:]:
                    c["plain"] = False
    for t in VT + [DYN]:
        pre = ["make @9 get [1]"] if t == DYN else []
        for uop, okset, res in (("not", ("boolean", "null", DYN), "boolean"), ("minus", ("number", DYN), "number")):
            if t in okset:
                n0 = len(out)
                emit("result:%s %s" % (uop, t), pre + ["make @1 get %s %s" % (uop, lit(t))], "@1", res)
                emit("result-direct:%s %s" % (uop, t), pre, "(%s %s)" % (uop, lit(t)), res)
                for c in out[n0:]:
                    c["plain"] = False

    # (iv) which definition a call refers to: an outer @1 with n1 parameters, a second @1 with n2 parameters
    # defined in a nested construct, the call one level further down (or back outside)
    def cell(name, lines, accept, message=None, label=None):
        out.append({"name": name, "lines": lines, "accept": accept, "message": None if accept else message,
                    "label": None if accept else label, "plain": True})

    def pars(n):
        return ", ".join(["@7", "@8"][:n])

    def args(n):
        return ", ".join(["0"] * n)

    def indent(ls, k=1):
        return ["  " * k + x for x in ls]

    containers = {"function": (["do @2() start"], ["end"]), "block": (["start"], ["end"]),
                  "then": (["if to say (true) start"], ["end"]), "else": (["if to say (false) start", "end", "if not so start"], ["end"]),
                  "loop": (["jasi (false) start"], ["end"])}
    inner_places = {"direct": ([], []), "if": (["if to say (true) start"], ["end"]),
                    "else": (["if to say (false) start", "end", "if not so start"], ["end"]), "loop": (["jasi (false) start"], ["end"]),
                    "block": (["start"], ["end"]), "function": (["do @3() start"], ["end"]),
                    "block-in-block": (["start", "  start"], ["  end", "end"])}
    for n1 in (0, 1, 2):
        for n2 in (0, 1, 2):
            if n1 == n2:
                continue
            outer = ["do @1(%s) start" % pars(n1), "end"]
            inner = ["do @1(%s) start" % pars(n2), "end"]
            for cn, (copen, cclose) in containers.items():
                for pn, (popen, pclose) in inner_places.items():
                    for order in ("def-first", "call-first"):
                        for nargs, ok in ((n2, True), (n1, False)):
                            k = 2 if pn == "block-in-block" else 1
                            call = popen + indent(["shout(@1(%s))" % args(nargs)], k if popen else 0) + pclose
                            body = (inner + call) if order == "def-first" else (call + inner)
                            cell("callee:%s/%s:%s:%d-hides-%d:%d-args" % (cn, pn, order, n2, n1, nargs),
                                 outer + copen + indent(body) + cclose, ok, M_ARITY,
                                 "Function `@1` dey expect %d argument%s but na %d dey here" % (n2, plural(n2), nargs))
                # after the construct is closed the outer definition is meant again
                for nargs, ok in ((n1, True), (n2, False)):
                    cell("callee:%s/after:%d-hides-%d:%d-args" % (cn, n2, n1, nargs),
                         outer + copen + indent(inner) + cclose + ["shout(@1(%s))" % args(nargs)], ok, M_ARITY,
                         "Function `@1` dey expect %d argument%s but na %d dey here" % (n1, plural(n1), nargs))
    return out


_CELLS = []


def cells():
    if not _CELLS:
        _CELLS.extend(matrix_cells())
        _CELLS.extend(family_cells())
    return _CELLS


def cell_instance(cell, names, rng):
    """-> (lines, label) with the `@n` placeholders replaced by fresh names (the label may mention one)"""
    sub = {}
    lines = cell_lines(cell, names, rng, sub)
    label = cell.get("label")
    if label:
        for k, v in sub.items():
            label = label.replace(k, v)
    return lines, label


def cell_lines(cell, names, rng, sub=None):
    sub = {} if sub is None else sub
    out = []
    for l in cell["lines"]:
        for k in re.findall(r"@\d", l):
            if k not in sub:
                sub[k] = fresh(names, rng)
        for k, v in sub.items():
            l = l.replace(k, v)
        out.append(l)
    return out


def guarded(lines):
    """well-typed cells are checked statically but never run (no process is spawned, no run-time error)"""
    return ["if to say (false) start"] + ["  " + l for l in lines] + ["end"]


def enrich(rng, src, k):
    """adds k well-typed cells of the matrix to a well-formed program, at random statement slots"""
    good = [c for c in cells() if c["accept"]]
    used = []
    for _ in range(k):
        lines, items = scan(src)
        sl, _at = slots(lines, items)
        s = rng.choice(sl)
        c = rng.choice(good)
        names = all_names(lines) | set(BUILTINS) | set(KEYWORDS)
        src = "\n".join(insert(lines, s, guarded(cell_lines(c, names, rng)))) + "\n"
        used.append(c["name"])
    return src, used


# ----------------------------------------------------------------------------------------
# stream C: corpus (documented verdict for keyed shapes)

CORPUS = [
    # key, accepted-by-the-documented-rules?, expected (message, label prefix) when rejected, source
    ("c09-loop-context-leaks-into-function", False, (M_UNREACH, "`comot` statement outside loop body"),
     "make i get 0\njasi (i small pass 2) start\n  i get i add 1\n  do f() start\n    comot\n  end\n  f()\nend\n"),
    ("c09-loop-context-leaks-into-function", False, (M_UNREACH, "`next` statement outside loop body"),
     "make i get 0\njasi (i small pass 2) start\n  i get i add 1\n  do f() start\n    if to say (true) start next end\n  end\nend\n"),
    ("c09-loop-context-restored-after-function", True, None,
     "make i get 0\njasi (i small pass 2) start\n  i get i add 1\n  do f() start\n    return 1\n  end\n  if to say (f() na 1) start comot end\nend\n"),
    ("c09-loop-inside-function-inside-loop", True, None,
     "make i get 0\njasi (i small pass 2) start\n  i get i add 1\n  do f() start\n    jasi (true) start comot end\n  end\n  f()\nend\n"),
    ("c09-add-dynamic-operand-type", True, None, "do f(p) start return p add p minus 1 end\nshout(f(2))\n"),
    ("c09-add-dynamic-operand-type", True, None, "do f(p) start return (p add 1) minus 1 end\nshout(f(2))\n"),
    ("c09-add-dynamic-operand-type", True, None, "do f(p) start\n  make q get p add p\n  return q times 2\nend\nshout(f(2))\n"),
    ("c09-return-type-from-outer-scope", True, None,
     "make p get \"s\"\nstart\n  do f(p) start\n    return p\n  end\n  shout(f(3) minus 1)\nend\n"),
    ("c09-return-type-from-outer-scope", True, None,
     "make v get \"s\"\nif to say (true) start\n  do f() start\n    make v get 1\n    return v\n  end\n  shout(f() minus 1)\nend\n"),
    ("c09-return-type-from-outer-scope", True, None,
     "do g() start return \"s\" end\ndo f() start\n  do g() start return 1 end\n  return g()\nend\nshout(f() minus 1)\n"),
    ("c09-return-type-from-outer-scope", True, None,
     "make v get true\nstart\n  make v get 2\n  do f() start\n    return v\n  end\n  shout(f() minus 1)\nend\n"),
    ("c06-method-arity-dynamic-receiver", False, (M_ARITY, "Method `slice` dey expect 2 arguments but na 0 dey here"),
     "do f(p) start return p.slice() end\nshout(f(\"abc\"))\n"),
    ("c09-forward-call", True, None, "shout(double(21))\ndo double(n) start\n  return n times 2\nend\n"),
    ("c09-mutual-recursion-nested-block", True, None,
     "start\n  do ev(n) start\n    if to say (n na 0) start return true end\n    return od(n minus 1)\n  end\n"
     "  do od(n) start\n    if to say (n na 0) start return false end\n    return ev(n minus 1)\n  end\n  shout(ev(4))\nend\n"),
    ("c09-inner-function-not-visible-outside", False, (M_UNDECL, "Function `inner` no dey scope"),
     "do outer() start\n  do inner() start return 1 end\n  return inner()\nend\nshout(inner())\n"),
    ("c09-make-visible-in-later-function", True, None, "make x get 1\ndo f() start return x add 1 end\nshout(f())\n"),
    ("c09-make-after-use", False, (M_UNDECL, "Variable x no dey scope"), "shout(x)\nmake x get 1\n"),
    ("c09-make-own-initialiser", False, (M_UNDECL, "Variable x no dey scope"), "make x get x\n"),
    ("c09-block-local-gone", False, (M_UNDECL, "Variable y no dey scope"), "start\n  make y get 1\nend\nshout(y)\n"),
    ("c09-param-local-to-function", False, (M_UNDECL, "Variable n no dey scope"), "do f(n) start return n end\nshout(f(1))\nshout(n)\n"),
    ("c09-redeclare-same-scope", True, None, "make x get 1\nmake x get \"s\"\nshout(x add \"t\")\n"),
    ("c09-shadow-inner-block", True, None, "make x get 1\nstart\n  make x get \"s\"\n  shout(x.len())\nend\nshout(x minus 1)\n"),
    ("c09-duplicate-function-nested-ok", True, None,
     "do f() start return 1 end\nstart\n  do f() start return \"s\" end\n  shout(f().len())\nend\nshout(f() minus 1)\n"),
]


# ----------------------------------------------------------------------------------------
# running and judging

def diag_tuple(d):
    p = d.split()
    un = lambda h: "" if h == "-" else bytes.fromhex(h).decode("utf-8", "replace")
    return {"phase": p[0], "severity": p[1], "code": p[2], "message": un(p[3]), "start": int(p[4]), "end": int(p[5]),
            "label": un(p[6]) if len(p) > 6 else None}


def run_model(env, name, recs, order):
    inp = os.path.join(env.work, name + ".model.in")
    outp = os.path.join(env.work, name + ".model")
    with open(inp, "w") as f:
        for cid in order:
            r = recs.get(cid)
            if r and r.get("ast"):
                f.write("case %s\n%s\nend %s\n" % (cid, r["ast"], cid))
    rc, out = common.sh([common.NSMODEL, "langc09", inp, outp], timeout=900)
    if rc != 0:
        raise RuntimeError("nsmodel langc09 failed: %s" % out[-500:])
    m, cur = {}, None
    for l in open(outp).read().splitlines():
        if l.startswith("case "):
            cur = {"accepted": None, "viol": []}
            m[l[5:]] = cur
        elif cur is None:
            continue
        elif l.startswith("accepted "):
            cur["accepted"] = l[9:] == "1"
        elif l.startswith("viol "):
            t = l.split()
            cur["viol"].append((t[1], "" if t[2] == "-" else bytes.fromhex(t[2]).decode(), t[3] if len(t) > 3 else ""))
        elif l.startswith("badast"):
            cur["badast"] = l
    return m


def judge_oracle(case, rec):
    """property oracle on the implementation's record; None = holds, else a description"""
    if rec is None or rec.get("accepted") is None:
        return "no verdict from the implementation (front end crashed?): %s" % ((rec or {}).get("crash"),)
    errs = [diag_tuple(d) for d in rec["diags"]]
    errs = [d for d in errs if d["severity"] == "error"]
    exp = case["expect"]
    if exp["accept"]:
        if not rec["accepted"] or errs:
            return "well-formed program rejected: %s" % [(d["message"], d["label"]) for d in errs][:4]
        return None
    if rec["accepted"]:
        return "ill-formed program accepted (expected `%s` / `%s`)" % (exp["message"], exp["label"])
    phase = exp.get("phase", "resolve")
    hit = [d for d in errs if d["phase"] == phase and d["message"] == exp["message"] and
           (d["label"] is None or d["label"].startswith(exp["label"]))]
    if not hit:
        return "rejected, but not with the diagnostic of the broken rule (expected `%s` / `%s`): got %s" % (
            exp["message"], exp["label"], [(d["phase"], d["message"], d["label"]) for d in errs][:4])
    allowed = exp.get("allowed")
    if allowed is not None:
        extra = [d for d in errs if not (d["message"] == exp["message"] or d["message"] in allowed)]
        if extra:
            return "rejected with diagnostics of other rules too: %s" % [(d["message"], d["label"]) for d in extra][:4]
    return None


def judge_model(rec, mrec):
    """correspondence on one record; None = agree / not comparable, else a description"""
    if rec is None or rec.get("accepted") is None or not rec.get("ast"):
        return None
    if mrec is None:
        return "model printed nothing for a program that parses"
    if "badast" in mrec:
        return mrec["badast"]
    impl = sorted(d["message"] for d in (diag_tuple(x) for x in rec["diags"]) if d["severity"] == "error" and d["phase"] == "resolve")
    model = sorted(v[1] for v in mrec["viol"])
    if rec["accepted"] != mrec["accepted"]:
        return "acceptance differs: implementation %s, model %s (%s vs %s)" % (rec["accepted"], mrec["accepted"], impl, mrec["viol"])
    if impl != model:
        return "diagnostic categories differ: implementation %s, model %s" % (impl, [(v[0], v[2]) for v in mrec["viol"]])
    return None


def build_cases(env, n):
    rng = env.rng
    cases = []
    stats = {"kinds": {}, "contexts": {}, "fn_in_loop_injections": 0, "no_position": {}, "gen": {}}
    for i, (key, acc, exp, src) in enumerate(CORPUS):
        e = {"accept": acc}
        if exp:
            e.update(message=exp[0], label=exp[1], allowed={M_TYPE})
        cases.append({"id": "c%d" % i, "stream": "corpus", "key": key, "source": src, "expect": e})
    # the whole typing matrix, every run
    for i, c in enumerate(cells()):
        for where in (("m", True), ("t", False)) if c.get("plain") else (("m", True),):
            # history / signature / callee cells also at the top level (the root block's functions are
            # pre-declared before anything is declared); nothing is executed, the guard is only one more context
            names = set(BUILTINS) | set(KEYWORDS)
            cl, lab = cell_instance(c, names, rng)
            e = {"accept": c["accept"]}
            if not c["accept"]:
                e.update(message=c["message"], label=lab, allowed=set())
            cases.append({"id": "%s%d" % (where[0], i), "stream": "matrix", "kind": c["name"] + ("" if where[1] else "@top"),
                          "source": "\n".join(guarded(cl) if where[1] else cl) + "\n", "expect": e})
    stats["matrix_cells"] = len(cells())
    stats["matrix_accepting"] = sum(1 for c in cells() if c["accept"])
    stats["enriched_with"] = {}
    for i in range(n):
        src, st = gen_program(rng)
        src, used = enrich(rng, src, 2)
        for u in used:
            fam = u.split(":")[0] + ":" + u.split(":")[1].split("/")[0].split(".")[0].split(" ")[0].split("[")[0].split("(")[0]
            stats["enriched_with"][fam] = stats["enriched_with"].get(fam, 0) + 1
        for k, v in st.items():
            stats["gen"][k] = stats["gen"].get(k, 0) + v
        cases.append({"id": "w%d" % i, "stream": "wellformed", "source": src, "expect": {"accept": True}})
        kind = KINDS[i % len(KINDS)] if rng.random() < 0.7 else rng.choice(KINDS)
        inj = None
        for attempt in range(4):
            inj = inject(rng, src, kind)
            if inj is not None:
                break
            stats["no_position"][kind] = stats["no_position"].get(kind, 0) + 1
            kind = rng.choice(KINDS)
        if inj is None:
            continue
        stats["kinds"][inj["kind"]] = stats["kinds"].get(inj["kind"], 0) + 1
        stats["contexts"][inj["context"]] = stats["contexts"].get(inj["context"], 0) + 1
        if inj["fn_in_loop"]:
            stats["fn_in_loop_injections"] += 1
        e = {"accept": False, "message": inj["message"], "label": inj["label"], "allowed": inj["allowed"]}
        if inj.get("phase"):
            e["phase"] = inj["phase"]
        cases.append({"id": "j%d" % i, "stream": "injected", "kind": inj["kind"], "context": inj["context"], "where": inj.get("where"),
                      "base": "w%d" % i, "source": inj["source"], "expect": e})
    return cases, stats


def jsonable(case):
    c = dict(case)
    e = dict(c["expect"])
    if isinstance(e.get("allowed"), set):
        e["allowed"] = sorted(e["allowed"])
    c["expect"] = e
    return c


FRONT_END_ONLY = ["none"]      # C09 is about acceptance: no program is executed


def private_work(env):
    """a work directory of this process only (a concurrent check of the same property wipes the shared one)"""
    tag = ".%d" % os.getpid()
    if not env.work.endswith(tag):
        env.work = env.work + tag
    os.makedirs(env.work, exist_ok=True)


def run_front_end(env, name, cases):
    pairs = [(c["id"], c["source"]) for c in cases]
    for attempt in range(2):
        try:
            os.makedirs(env.work, exist_ok=True)
            return langrun.run_impl(env, name, pairs, FRONT_END_ONLY, timeout=300)
        except OSError:
            time.sleep(1)           # a work file vanished under us: once more in a fresh directory
    return {}


def evaluate(env, cases, name, model=True):
    private_work(env)
    recs = run_front_end(env, name, cases)
    # a case without a verdict is either a front-end crash (reproducible) or a harness binary that was
    # being relinked by a concurrent build while this batch ran: run such cases once more, alone
    missing = [c for c in cases if recs.get(c["id"]) is None or recs[c["id"]].get("accepted") is None]
    if missing:
        time.sleep(3)
        again = run_front_end(env, name + "_retry", missing)
        for cid, r in again.items():
            if r.get("accepted") is not None or recs.get(cid) is None:
                recs[cid] = r
    mrecs = run_model(env, name, recs, [c["id"] for c in cases]) if model else {}
    out = []
    for c in cases:
        r = recs.get(c["id"])
        o = judge_oracle(c, r)
        d = judge_model(r, mrecs.get(c["id"])) if model else None
        out.append((c, r, o, d))
    return out


# ----------------------------------------------------------------------------------------
# stream E: tiny-vocabulary grammar fuzzing (lib/tinygen.py).  No expected verdict: on EVERY generated
# text the extracted StaticRules.check must agree with the resolver on acceptance and on the multiset of
# diagnostic messages.

TINY_QUICK = 50000


def tiny_opts(rng):
    k = rng.random()
    if k < 0.5:
        return tinygen.Opts()
    if k < 0.75:
        return tinygen.Opts(names=["a", "f"], max_stmts=6)                 # two names for everything
    if k < 0.9:
        return tinygen.Opts(p_sane=0.97, max_stmts=8)                      # mostly well-formed: deep interactions survive
    return tinygen.Opts(p_sane=0.6, max_stmts=4)


def tiny_stream(env, n, model=True):
    """-> (stats, disagreements, oracle-independent failures (front-end crash))"""
    rng = env.rng
    st = {"programs": 0, "accepted": 0, "parse_errors": 0, "compared": 0, "stmt": {}, "expr": {}, "features": {},
          "diag": {}, "no_verdict": 0}
    dis, fails = [], []
    shard = 10000
    for s0 in range(0, n, shard):
        cases = []
        for i in range(s0, min(n, s0 + shard)):
            src, tree, gs = tinygen.gen(rng, tiny_opts(rng))
            for grp in ("stmt", "expr"):
                for k, v in gs[grp].items():
                    st[grp][k] = st[grp].get(k, 0) + v
            for k, v in tinygen.features(tree).items():
                if k != "max_depth":
                    st["features"][k] = st["features"].get(k, 0) + (1 if v else 0)
                else:
                    st["features"]["depth>=3"] = st["features"].get("depth>=3", 0) + (1 if v >= 3 else 0)
            cases.append({"id": "y%d" % i, "stream": "tiny", "source": src, "expect": None, "tree": tree})
        private_work(env)
        recs = run_front_end(env, "tiny%d" % s0, cases)
        mrecs = run_model(env, "tiny%d" % s0, recs, [c["id"] for c in cases]) if model else {}
        for c in cases:
            r = recs.get(c["id"])
            st["programs"] += 1
            if r is None or r.get("accepted") is None:
                st["no_verdict"] += 1
                if len(fails) < 5:
                    fails.append({"key": "tiny-front-end-crash:" + common.chash(c["source"]), "case": jsonable_tiny(c),
                                  "observed": "no verdict from the implementation: %s" % ((r or {}).get("crash"),)})
                continue
            if r["accepted"]:
                st["accepted"] += 1
            if not r.get("ast"):
                st["parse_errors"] += 1
                continue
            st["compared"] += 1
            for d in r["diags"]:
                t = diag_tuple(d)
                if t["severity"] == "error":
                    st["diag"][t["message"]] = st["diag"].get(t["message"], 0) + 1
            d = judge_model(r, mrecs.get(c["id"])) if model else None
            if d is not None:
                if len(dis) < 5:
                    small = shrink_tiny(env, c)
                    dis.append({"stream": "static-rules-tiny", "case": jsonable_tiny(small), "detail": d})
                else:
                    dis.append({"stream": "static-rules-tiny"})
    return st, dis, fails


def jsonable_tiny(c):
    return {"id": c["id"], "stream": c["stream"], "source": c["source"]}


def shrink_tiny(env, case, budget=30):
    tag = [0]

    def disagrees(tree):
        tag[0] += 1
        c = {"id": "sh", "source": tinygen.render(tree)}
        try:
            recs = run_front_end(env, "tshrink%d" % (tag[0] % 4), [c])
            m = run_model(env, "tshrink%d" % (tag[0] % 4), recs, ["sh"])
            return judge_model(recs.get("sh"), m.get("sh")) is not None
        except Exception:
            return False
    if case.get("tree") is None:
        return case
    small = tinygen.shrink(case["tree"], disagrees, budget)
    return dict(case, source=tinygen.render(small), tree=small)


def correspond(env, searching=False, model=True):
    n = 1500 if env.tier == "quick" else 15000
    if searching:
        n *= 2
    cases, stats = build_cases(env, n)
    failures, disagreements, samples = [], [], []
    nontrivial = set()
    evaluations = 0
    accepted_wf = rejected_inj = compared = matrix_ok = tie_differs = 0
    shard = 1000
    for s0 in range(0, len(cases), shard):
        part = cases[s0:s0 + shard]
        for c, r, o, d in evaluate(env, part, "s%d" % s0, model):
            evaluations += 1
            if r is not None and r.get("ast"):
                compared += 1
            if o is not None:
                if c["stream"] == "matrix":
                    key = "matrix:" + c["kind"]
                else:
                    key = c.get("key") or ("%s:%s" % (c["stream"] + (":" + c["kind"] if c.get("kind") else ""), common.chash(c["source"])))
                if d is not None:
                    tie_differs += 1
                if not any(f["key"] == key for f in failures) and len(failures) < 40:
                    small = shrink(env, c)
                    failures.append({"key": key, "case": jsonable(small), "observed": o,
                                     "model_vs_implementation": d or "agree",
                                     "diags": [diag_tuple(x) for x in (r or {}).get("diags", [])][:6]})
                continue            # a keyed oracle failure is reported once, as a failure
            if d is not None:
                if len(disagreements) < 5:
                    disagreements.append({"stream": "static-rules", "case": jsonable(c), "detail": d})
                else:
                    disagreements.append({"stream": "static-rules"})
                continue
            if c["stream"] == "wellformed":
                accepted_wf += 1
                if "do " in c["source"] and ("jasi" in c["source"] or "start\n" in c["source"]):
                    nontrivial.add(common.chash(c["source"]))
            elif c["stream"] == "injected":
                rejected_inj += 1
                nontrivial.add(common.chash(c["source"]))
            elif c["stream"] == "matrix":
                matrix_ok += 1
                nontrivial.add(common.chash(c["kind"]))
            if c["stream"] == "injected" and len(samples) < 5 and evaluations % 211 == 0:
                samples.append({"kind": c["kind"], "context": c["context"], "expected": [c["expect"]["message"], c["expect"]["label"]],
                                "diags": [(x["message"], x["label"]) for x in (diag_tuple(y) for y in r["diags"]) if x["severity"] == "error"]})
    tn = TINY_QUICK if env.tier == "quick" else 10 * TINY_QUICK
    tst, tdis, tfails = tiny_stream(env, tn, model)
    evaluations += tst["programs"]
    disagreements += tdis
    failures += tfails
    tiny_nontrivial = tst["compared"]
    if env.work.endswith(".%d" % os.getpid()):
        shutil.rmtree(env.work, ignore_errors=True)
    pct = lambda k: round(100.0 * tst["features"].get(k, 0) / max(1, tst["programs"]), 1)
    tiny_report = {"programs": tst["programs"], "compared_with_model": tst["compared"], "parse_errors": tst["parse_errors"],
                   "accepted_percent": round(100.0 * tst["accepted"] / max(1, tst["programs"]), 1),
                   "percent_with_shadowed_function_name": pct("shadowed_fn"), "percent_with_null_operand": pct("null_operand"),
                   "percent_with_call_2_levels_below_shadowing_definition": pct("deep_call_below_shadow"),
                   "percent_with_same_block_redeclaration": pct("redeclare"), "percent_name_is_variable_and_function": pct("var_fn_clash"),
                   "percent_nesting_depth_3_or_more": pct("depth>=3"), "statement_kinds": tst["stmt"], "expression_kinds": tst["expr"],
                   "resolver_error_messages": tst["diag"], "disagreements": len(tdis)}
    return {
        "evaluations": evaluations,
        "distinct_nontrivial": len(nontrivial) + tiny_nontrivial,
        "rule": "each case = one program through the real Lexer/Parser/Resolver (front end only, nothing is executed) and, when it parses, through the extracted StaticRules.check on the "
                "dumped AST; streams: well-formed by construction (oracle: accepted), one single-rule injection per program at a random slot/nesting "
                "context or in place (oracle: rejected with the message+label of the broken rule, nothing outside its cascade), keyed corpus; "
                "non-trivial = distinct injected program whose expected diagnostic was produced, or distinct accepted program with a function and a nested block",
        "samples": samples,
        "failures": failures,
        "disagreements": disagreements,
        "extra": {"wellformed_accepted": accepted_wf, "injections_rejected_as_expected": rejected_inj, "compared_with_model": compared,
                  "injection_kinds": stats["kinds"], "injection_contexts": dict(sorted(stats["contexts"].items(), key=lambda kv: -kv[1])[:25]),
                  "injections_in_function_inside_loop": stats["fn_in_loop_injections"], "no_position_for_kind": stats["no_position"],
                  "generator_stats": stats["gen"], "corpus_cases": len(CORPUS),
                  "matrix_cells": stats.get("matrix_cells"), "matrix_cells_well_typed": stats.get("matrix_accepting"),
                  "matrix_cells_as_expected": matrix_ok, "oracle_failures_where_model_tie_differs_too": tie_differs, "wellformed_enriched_with": stats.get("enriched_with"), "tiny_grammar_fuzz": tiny_report},
    }


SHRINK_BUDGET_S = 60


def shrink(env, case):
    """a well-formed program that is rejected: delete lines while it still parses and is rejected with
    exactly the same error diagnostics (so no deletion that itself breaks a rule survives)"""
    if case["stream"] != "wellformed":
        return case
    lines = case["source"].split("\n")
    if len(lines) > 400:
        return case
    tag = [0]
    deadline = time.time() + SHRINK_BUDGET_S

    def errors_of(cand):
        if time.time() > deadline:
            raise TimeoutError("shrink budget used up")
        c = dict(case, source="\n".join(cand) + "\n", id="sh")
        tag[0] += 1
        (_, r, _o, _d), = evaluate(env, [c], "shrink%d" % (tag[0] % 4), model=False)
        if r is None or r.get("parse") != 0 or r.get("accepted") is not False:
            return None
        return sorted((d["message"], d["label"]) for d in (diag_tuple(x) for x in r["diags"]) if d["severity"] == "error")
    best = [lines]

    def keeps(cand):
        if errors_of(cand) == want:
            best[0] = cand
            return True
        return False
    try:
        want = errors_of(lines)
        if not want:
            return case
        common.ddmin_lines(lines, keeps, keep_head=0)
    except Exception:
        pass                        # budget used up or a harness hiccup: report the smallest input found so far
    return dict(case, source="\n".join(best[0]) + "\n")


def replay(env, payload):
    common.refresh_tables()
    common.build_nsmodel()
    case = payload.get("case") or {}
    c = case.get("case") if "case" in case else None
    if c is None:
        ds = payload.get("disagreements") or [{}]
        c = ds[0].get("case")
    if not c or "source" not in c:
        print("replay: no concrete case in this file (obligations: %s)" % payload.get("no_longer_checks"))
        return 1
    c = dict(c, id="replay")
    e = dict(c["expect"])
    if isinstance(e.get("allowed"), list):
        e["allowed"] = set(e["allowed"])
    c["expect"] = e
    (_, r, o, d), = evaluate(env, [c], "replay", model=True)
    print(c["source"])
    print("expected: %s" % c["expect"])
    print("implementation: accepted=%s diags=%s" % ((r or {}).get("accepted"),
          [(x["phase"], x["message"], x["label"]) for x in (diag_tuple(y) for y in (r or {}).get("diags", [])) if x["severity"] == "error"]))
    print("oracle: %s" % (o or "holds"))
    print("model vs implementation: %s" % (d or "agree"))
    bad = o is not None or d is not None
    print("replay: %s" % ("still failing" if bad else "passes now"))
    return 1 if bad else 0
