"""C10 — layout is insignificant.

Three streams (see DESIGN.md section 6, C10 and coq/Properties/C10.v):
  * proof (lexer half): `C10_lex_layout_invariant` over theories/Layout.v + theories/Lexer.v;
  * property oracle on the implementation (parser / resolver / runtime halves, which are NOT
    modelled): `nsverif layout` re-renders every program k ways from the real lexer's token spans
    and compares tokens, parser diagnostics, AST without spans, resolver diagnostics, the run
    gate, Runtime.output and the ending with the original; it also wraps random sub-expressions
    in redundant parentheses (`parens_redundant`);
  * model tie: for every re-layout the extracted lexer model must give the implementation's
    token kinds / payloads / ownership, and the re-layout, abstracted into (token list, layout),
    must satisfy the hypotheses of the theorem (tk_ok, wf_layout, separating) and be its
    `render` — so the theorem speaks about exactly the texts the oracle runs.
"""
import binascii
import os
import re
import subprocess

import common

EXTRA_STREAM_MODULES = ["parser", "pipeline"]   # the parser model's correspondence (lib/props/parser.py) runs as part of this check
TRUSTED_EXTRA = [
    "C10: theories/Lexer.v (transcription of src/syntax/scanner.rs by the C07 work, tied by the token dump differential) is the object the theorem speaks about",
    "C10: the parser, resolver and runtime are not modelled; their layout independence is checked only by the oracle on the implementation (harness/src/layout.rs)",
    "C10: harness/src/layout.rs (re-rendering from real token spans, span-free AST printer) and coq/extract/mode_layout.ml (decoding) are glue; a wrong abstraction of a re-layout shows up as R0 (render differs from the text) on the model side",
]
ASSUMPTIONS = [
    "programs are valid UTF-8 and lex without lexer diagnostics (a token with a lexical error, e.g. an unterminated string, has no layout-independent text); others are counted as skipped",
    "between the words of a multi-word keyword only whitespace is varied (the property statement allows comments only between tokens)",
    "runs are compared up to resource exhaustion: a case on which the implementation dies by signal or exceeds the time limit is counted inconclusive, not as agreement",
]
SIDE_OBLIGATIONS = []
CAN_RUN_WITHOUT_MODEL = True
COQ_TIMEOUT = 1500


# ------------------------------------------------------------------ program generator

NUM_LITS = ["0", "1", "2", "3", "7", "10", "42", "100", "2.5", "0.5", "3.14159", "0.125", "12.0", "1000000", "9.75"]
STR_RAW = ["", "a", "abc", "hello world", "naija", "x,y,z", "  pad  ", "café", "日本", "a b", "if to say", "# not a comment",
           "end", "it's", "100%", "tab\\there", "line\\nbreak", "back\\\\slash", "{{braces}}", "q\\\"q"]
NAMES_N = ["x", "y", "n", "i", "count", "total", "acc", "k2", "_t", "small", "value1", "to", "say", "so", "passx", "iffy", "smallest"]
NAMES_S = ["s", "name", "msg", "word", "txt", "label_1"]
NAMES_B = ["flag", "ok", "done", "b1"]
NAMES_A = ["arr", "items", "xs", "list2"]
FN_NAMES = ["f", "g", "helper", "calc", "mk", "twice", "do_it"]


class Gen:
    def __init__(self, rng):
        self.r = rng
        self.scopes = [{}]
        self.fns = {}          # name -> (nparams, return type)
        self.out = []
        self.depth = 0
        self.in_loop = 0
        self.in_fn = None
        self.counter = 0
        self.protected = set()   # loop counters: never reassigned in the body (termination)

    # -- scope helpers
    def vars_of(self, t):
        return [n for sc in self.scopes for n, ty in sc.items() if ty == t]

    def declare(self, n, t):
        self.scopes[-1][n] = t

    def fresh(self, t):
        pool = {"n": NAMES_N, "s": NAMES_S, "b": NAMES_B, "a": NAMES_A}[t]
        n = self.r.choice(pool)
        if any(n in sc for sc in self.scopes) or n in self.fns:
            self.counter += 1
            n = "%s_%d" % (self.r.choice(pool[:4]), self.counter)
        return n

    # -- expressions
    def num(self, d=0):
        r = self.r
        c = r.random()
        vs = self.vars_of("n")
        if d > 3 or c < 0.25:
            return r.choice(NUM_LITS)
        if c < 0.5 and vs:
            return r.choice(vs)
        if c < 0.75:
            op = r.choice(["add", "minus", "times", "divide", "mod", "add", "times"])
            a, b = self.num(d + 1), self.num(d + 1)
            if r.random() < 0.3:
                a = "(" + a + ")"
            if r.random() < 0.3:
                b = "(" + b + ")"
            return "%s %s %s" % (a, op, b)
        if c < 0.8:
            return "minus %s" % self.atom_num(d + 1)
        if c < 0.86:
            fs = [f for f, (k, t) in self.fns.items() if t == "n" and f != self.in_fn]
            if fs:
                f = r.choice(fs)
                return "%s(%s)" % (f, ", ".join(self.num(d + 2) for _ in range(self.fns[f][0])))
        if c < 0.9:
            a = self.atom_num(d + 1)
            if a[0].isdigit():
                # `7.round()` is a lexical error (`7.` wants a digit); `7 .round()`, `(7).round()`, `2.5.round()` are fine
                a = (a + " ") if r.random() < 0.3 else (a if "." in a and r.random() < 0.5 else "(" + a + ")")
            return "%s.%s()" % (a, r.choice(["abs", "floor", "ceil", "round", "sqrt"]))
        if c < 0.94:
            return "%s.len()" % self.atom_str(d + 1)
        arrs = self.vars_of("a")
        if arrs:
            a = r.choice(arrs)
            return r.choice(["%s.len()" % a, "%s[%s]" % (a, r.choice(["0", "1", "0"]))])
        return r.choice(NUM_LITS)

    def atom_num(self, d):
        vs = self.vars_of("n")
        if vs and self.r.random() < 0.5:
            return self.r.choice(vs)
        if self.r.random() < 0.5:
            return "(" + self.num(d + 1) + ")"
        return self.r.choice(NUM_LITS)

    def str_lit(self):
        r = self.r
        body = r.choice(STR_RAW)
        if r.random() < 0.35:
            vs = self.vars_of("n") + self.vars_of("s") + self.vars_of("b")
            if vs and "\\" not in body:
                v = r.choice(vs)
                body = body + r.choice(["{%s}", "{ %s }", " v={%s}!", "{%s}{%s}" % (v, "%s")]) % v
        q = r.choice(['"', '"', "'"])
        if q == "'":
            body = body.replace("'", "\\'").replace('\\"', '"')
        return q + body + q

    def atom_str(self, d):
        vs = self.vars_of("s")
        if vs and self.r.random() < 0.6:
            return self.r.choice(vs)
        return self.str_lit()

    def strx(self, d=0):
        r = self.r
        c = r.random()
        if d > 3 or c < 0.35:
            return self.atom_str(d)
        if c < 0.55:
            return "%s add %s" % (self.strx(d + 1), self.strx(d + 1))
        if c < 0.65:
            return "to_string(%s)" % self.num(d + 1)
        if c < 0.7:
            return "typeof(%s)" % r.choice([self.num(d + 1), self.strx(d + 1), self.boolx(d + 1), "null"])
        if c < 0.8:
            return "%s.%s()" % (self.atom_str(d), r.choice(["to_uppercase", "to_lowercase", "trim"]))
        if c < 0.86:
            return "%s.slice(%s, %s)" % (self.atom_str(d), r.choice(["0", "1", "minus 2"]), r.choice(["2", "3", "10"]))
        if c < 0.92:
            return '%s.replace(%s, %s)' % (self.atom_str(d), self.str_lit(), self.str_lit())
        arrs = self.vars_of("a")
        if arrs:
            return '%s.join(%s)' % (r.choice(arrs), r.choice(['","', '" "', "'-'"]))
        return self.atom_str(d)

    def boolx(self, d=0):
        r = self.r
        c = r.random()
        vs = self.vars_of("b")
        if d > 3 or c < 0.15:
            return r.choice(["true", "false"])
        if c < 0.3 and vs:
            return r.choice(vs)
        if c < 0.6:
            return "%s %s %s" % (self.num(d + 1), r.choice(["na", "pass", "small pass", "small  pass", "small\tpass"]), self.num(d + 1))
        if c < 0.7:
            return "%s na %s" % (self.strx(d + 1), self.strx(d + 1))
        if c < 0.85:
            return "%s %s %s" % (self.boolx(d + 1), r.choice(["and", "or"]), self.boolx(d + 1))
        if c < 0.95:
            return "not %s" % (self.boolx(d + 1) if r.random() < 0.5 else "(" + self.boolx(d + 1) + ")")
        return "(%s)" % self.boolx(d + 1)

    def arrx(self, d=0):
        r = self.r
        n = r.randint(0, 4)
        items = [self.num(d + 2) for _ in range(n)]
        if r.random() < 0.2:
            items.append("[%s]" % ", ".join(self.num(d + 2) for _ in range(r.randint(0, 2))))
        if r.random() < 0.2:
            items.append(self.str_lit())
        s = ", ".join(items)
        if items and r.random() < 0.2:
            s += ","
        return "[" + s + "]"

    def expr(self, t, d=0):
        return {"n": self.num, "s": self.strx, "b": self.boolx, "a": self.arrx}[t](d)

    # -- statements
    def emit(self, line):
        ind = "  " * self.depth
        c = self.r.random()
        if c < 0.08:
            self.out.append(ind + "# " + self.r.choice(["note", "if to say (x) start", "TODO: end", "café ✓", "make x get 1"]))
        if c > 0.92:
            line += self.r.choice(["  # trailing", " #", "\t# small pass"])
        self.out.append(ind + line)

    def block(self, n):
        self.scopes.append({})
        self.depth += 1
        for _ in range(n):
            self.stmt()
        self.depth -= 1
        self.scopes.pop()

    def stmt(self):
        r = self.r
        c = r.random()
        if self.depth > 3:
            c = c * 0.55
        if c < 0.2:
            t = r.choice("nnnssba")
            n = self.fresh(t)
            if r.random() < 0.05:
                self.emit("make %s" % n)
                self.declare(n, "?")
            else:
                self.emit("make %s get %s" % (n, self.expr(t)))
                self.declare(n, t)
        elif c < 0.32:
            t = r.choice("nnsb")
            vs = [v for v in self.vars_of(t) if v not in self.protected]
            if vs:
                v = r.choice(vs)
                e = self.expr(t)
                if e.strip() != v:
                    self.emit("%s get %s" % (v, e))
            else:
                self.emit("shout(%s)" % self.expr(t))
        elif c < 0.5:
            t = r.choice("nnssba")
            self.emit("shout(%s)" % self.expr(t))
        elif c < 0.56:
            arrs = self.vars_of("a")
            if arrs:
                a = r.choice(arrs)
                k = r.random()
                if k < 0.4:
                    self.emit("%s.push(%s)" % (a, self.num(1)))
                elif k < 0.55:
                    self.emit("%s.pop()" % a)
                elif k < 0.7:
                    self.emit("%s.reverse()" % a)
                else:
                    self.emit("%s[%s] get %s" % (a, r.choice(["0", "0", "1"]), self.num(1)))
            else:
                self.emit("shout(%s)" % self.arrx())
        elif c < 0.72:
            self.emit("%s (%s) start" % (r.choice(["if to say", "if to say", "if  to  say", "if\tto say"]), self.boolx()))
            self.block(r.randint(0, 3))
            if r.random() < 0.5:
                self.emit("end %s start" % r.choice(["if not so", "if not so", "if not  so"]))
                self.block(r.randint(0, 3))
            self.emit("end")
        elif c < 0.82:
            i = self.fresh("n")
            self.emit("make %s get 0" % i)
            self.declare(i, "n")
            self.emit("jasi (%s small pass %d) start" % (i, r.randint(0, 4)))
            self.scopes.append({})
            self.depth += 1
            self.emit("%s get %s add 1" % (i, i))
            self.protected.add(i)
            self.in_loop += 1
            for _ in range(r.randint(0, 3)):
                self.stmt()
            if r.random() < 0.3:
                self.emit("if to say (%s) start %s end" % (self.boolx(1), r.choice(["comot", "next"])))
            self.in_loop -= 1
            self.protected.discard(i)
            self.depth -= 1
            self.scopes.pop()
            self.emit("end")
        elif c < 0.9 and self.in_fn is None and self.depth == 0:
            f = r.choice(FN_NAMES)
            if f in self.fns or any(f in sc for sc in self.scopes):
                self.counter += 1
                f = "%s%d" % (f, self.counter)
            k = r.randint(0, 3)
            params = ["p%d" % j for j in range(k)]
            rt = r.choice("nns")
            self.emit("do %s(%s) start" % (f, ", ".join(params)))
            saved = self.scopes
            self.scopes = [dict((p, "n") for p in params)]
            self.in_fn = f
            self.depth += 1
            for _ in range(r.randint(0, 3)):
                self.stmt()
            self.emit("return %s" % self.expr(rt))
            self.depth -= 1
            self.in_fn = None
            self.scopes = saved
            self.emit("end")
            self.fns[f] = (k, rt)
        elif c < 0.94:
            self.emit("start")
            self.block(r.randint(0, 3))
            self.emit("end")
        elif self.in_fn and r.random() < 0.5:
            self.emit("return %s" % self.num(1))
        elif self.in_loop and r.random() < 0.2:
            self.emit(r.choice(["comot", "next"]))
        else:
            fs = list(self.fns)
            if fs:
                f = r.choice(fs)
                self.emit("%s(%s)" % (f, ", ".join(self.num(2) for _ in range(self.fns[f][0]))))
            else:
                self.emit("shout(%s)" % self.num())

    def program(self, n):
        for _ in range(n):
            self.stmt()
        nl = self.r.choice(["\n", "\n", "\n", "\r\n"])
        text = nl.join(self.out)
        if self.r.random() < 0.8:
            text += nl
        return text


TOKEN_RE = re.compile(r'"(?:[^"\\\n]|\\.)*"|\'(?:[^\'\\\n]|\\.)*\'|#[^\n]*|[A-Za-z_][A-Za-z_0-9]*|[0-9]+(?:\.[0-9]+)?|\s+|.', re.S)


def mutate(rng, text):
    """Token-level damage (drop / duplicate / swap / insert) so that the parser or the resolver
    rejects the program; a hand tokeniser is good enough here because the result is just
    another input program."""
    toks = TOKEN_RE.findall(text)
    idx = [i for i, t in enumerate(toks) if not t.isspace() and not t.startswith("#")]
    if len(idx) < 3:
        return text
    for _ in range(rng.randint(1, 2)):
        i = rng.choice(idx)
        k = rng.random()
        if k < 0.3:
            toks[i] = ""
        elif k < 0.5:
            toks[i] = toks[i] + " " + toks[i]
        elif k < 0.7:
            j = rng.choice(idx)
            toks[i], toks[j] = toks[j], toks[i]
        else:
            toks[i] = toks[i] + " " + rng.choice(["end", "start", ")", "(", "get", "make", "add", "]", ",", "undeclared_v", "return", "comot", "if not so", "."])
    return "".join(toks)


SPECIAL = [
    # boundary and regression inputs (kept verbatim; the comment keeps `small` and `pass` apart)
    ("small-comment-pass", 'make small get 5\nshout(small #c\n pass 3)\n'),
    ("if-ident", 'make if get 2\nshout(if #x\n)\nmake to get 1\nshout(if add to)\n'),
    ("if-ident-to", 'make if get 2\nmake to get 1\nmake tot get if\nto get 3\nshout(tot add to)\n'),
    ("number-dot-method", 'shout(1 .abs())\nshout(2.5.floor())\nshout((3).sqrt())\n'),
    ("keyword-then-digit", 'if to say(1 small pass 2)start shout("yes")end if not so start shout("no")end\n'),
    ("crlf-comments", '# head\r\nmake x get 1 # one\r\nshout(x)\r\n# tail'),
    ("cr-only", 'make x get 1\rshout(x)\r# c\rshout(x add 1)'),
    ("formfeed", 'make\x0cx\x0cget\x0c1\x0cshout(x)'),
    ("empty", ''),
    ("only-comment", '# nothing'),
    ("only-ws", ' \t\r\n\x0c'),
    ("interp-owned", 'make n get 3\nshout("a{n}")\nshout("a\\t{n}")\nshout(\'{n}\\\'s\')\nshout("{{n}}")\n'),
    ("nested-fn", 'do outer(a) start\n  do inner(b) start return b times 2 end\n  return inner(a) add 1\nend\nshout(outer(4))\n'),
    ("return-newline", 'do f() start\n  return\nend\nshout(f())\n'),
    ("unterminated-block", 'if to say (true) start\n shout(1)\n'),
    ("stray-else", 'if not so start end\n'),
    ("trailing-comma", 'shout([1,2,])\nmake a get [1,]\na.push(2,)\nshout(a)\n'),
    ("unary-chain", 'shout(not not true)\nshout(minus minus 3)\nshout(not (1 pass 2) and true)\n'),
    ("deep-parens", 'shout(((((1 add 2)))) times ((3)))\n'),
    ("index-chain", 'make a get [[1,2],[3,[4,5]]]\nshout(a[1][1][0])\na[1][1][0] get 9\nshout(a)\n'),
    ("method-on-literal", 'shout("abc".to_uppercase().len())\nshout([1,2,3].len())\n'),
    ("undeclared", 'shout(nope)\n'),
    ("comot-outside", 'comot\n'),
    ("dup-fn", 'do f() start end\ndo f() start end\n'),
    ("runtime-error", 'make a get [1]\nshout(a[5])\nshout("after")\n'),
    ("div-zero", 'shout(1 divide 0)\nshout(2)\n'),
]


def collect_corpus():
    out = []
    repo = common.REPO
    for d in ("examples", os.path.join("tests", "stress")):
        p = os.path.join(repo, d)
        if os.path.isdir(p):
            for fn in sorted(os.listdir(p)):
                if fn.endswith(".ns"):
                    out.append(("%s/%s" % (os.path.basename(d), fn), open(os.path.join(p, fn), encoding="utf-8").read()))
    docs = os.path.join(repo, "docs")
    if os.path.isdir(docs):
        for fn in sorted(os.listdir(docs)):
            if fn.endswith(".md"):
                txt = open(os.path.join(docs, fn), encoding="utf-8").read()
                for i, m in enumerate(re.finditer(r"```naijascript\n(.*?)```", txt, re.S)):
                    out.append(("docs/%s#%d" % (fn, i), m.group(1)))
    rd = os.path.join(repo, "README.md")
    if os.path.exists(rd):
        for i, m in enumerate(re.finditer(r"```naijascript\n(.*?)```", open(rd, encoding="utf-8").read(), re.S)):
            out.append(("README#%d" % i, m.group(1)))
    cdir = os.path.join(common.VERIF, "gen", "corpus", "C10")
    if os.path.isdir(cdir):
        for fn in sorted(os.listdir(cdir)):
            out.append(("corpus/%s" % fn, open(os.path.join(cdir, fn), encoding="utf-8", newline="").read()))
    out += [("special/" + k, v) for k, v in SPECIAL]
    # no console / process interaction in this check
    return [(k, v) for k, v in out if "read_line" not in v and "command(" not in v]


KW_TEMPLATES = {
    # accepted programs around each multi-word keyword; {KW} is replaced by the keyword with the separators under test
    "IfToSay": 'make a get 1\n{KW} (a na 1) start shout("yes") end\n',
    "IfNotSo": 'make a get 1\nif to say (a na 2) start shout("yes") end {KW} start shout("no") end\n',
    "SmallPass": 'make a get 1\nshout(a {KW} 2)\n',
}
KW_GENERIC = '{KW}\n'          # a keyword this module has no program for: tokens and rejection are still compared
WS_BYTES = b" \t\n\x0c\r"
GAP_KINDS = ["space", "tab", "lf", "cr", "ff", "crlf", "lf-indent", "mixed"]
GAP_LENGTHS_ALL = list(range(1, 65))
GAP_LENGTHS_BIG = [100, 127, 128, 129, 255, 256, 257, 1000, 4096, 5000]
FOLLOWERS = ["", "(", "1", "_", "x", "0x", " ", "\n", "\r", "\t", "#c", "#c\n", '"s"', "'s'", "[", "]", ")", ",", ".", " (a)"]


def model_keywords(env):
    """The multi-word keywords of the regenerated table (GenLexer.multi_table through the extracted model)."""
    outp = os.path.join(env.work, "keywords.txt")
    try:
        rc, out = common.sh([common.NSMODEL, "layout-keywords", outp], timeout=60)
    except OSError:
        return None
    if rc != 0 or not os.path.exists(outp):
        return None
    kws = []
    for l in open(outp):
        p = l.split()
        if len(p) >= 3:
            kws.append((p[0], p[1:]))
        elif len(p) == 2:
            env.c10_single_keywords = getattr(env, "c10_single_keywords", []) + [p[1]]
    return kws


def source_keywords():
    """Fallback without the model: the same list read off scanner.rs (`if word == "x"` ... try_consume_word("y"))."""
    src = open(os.path.join(common.REPO, "src", "syntax", "scanner.rs"), encoding="utf-8").read()
    kws = []
    for m in re.finditer(r'if word == "(\w+)" \{(.*?)\n        \}', src, re.S):
        for a in re.finditer(r'if ((?:self\.try_consume_word\("\w+"\)(?:\s*&&\s*)?)+)\s*\{\s*return Token::(\w+);', m.group(2)):
            kws.append((a.group(2), [m.group(1)] + re.findall(r'try_consume_word\("(\w+)"\)', a.group(1))))
    return kws


def gap_bytes(rng, kind, n):
    if kind == "space":
        return b" " * n
    if kind == "tab":
        return b"\t" * n
    if kind == "lf":
        return b"\n" * n
    if kind == "cr":
        return b"\r" * n
    if kind == "ff":
        return b"\x0c" * n
    if kind == "crlf":
        return (b"\r\n" * n)[:n] if n > 1 else b"\r"
    if kind == "lf-indent":
        return b"\n" + b" " * (n - 1)
    return bytes(rng.choice(WS_BYTES) for _ in range(n))


def keyword_sweep(env, keywords):
    """Separators INSIDE the multi-word keywords: every keyword of the table x every gap position (and all
    gaps at once) x every whitespace kind x every length 1..64 and some up to 5 000, as source programs whose
    re-layouts (identity = model tie on the text itself, single line = oracle against the canonical spelling)
    must agree; plus every keyword followed directly by each kind of byte (right boundary of the look-ahead)."""
    rng = env.rng
    quick = env.tier == "quick"
    progs = []
    for name, words in keywords:
        tmpl = KW_TEMPLATES.get(name, KW_GENERIC)
        ngaps = len(words) - 1
        positions = list(range(ngaps)) + ([-1] if ngaps > 1 else [])
        for pos in positions:
            for kind in GAP_KINDS:
                lengths = GAP_LENGTHS_ALL + GAP_LENGTHS_BIG
                if not quick:
                    lengths = lengths + [rng.randint(65, 6000) for _ in range(12)]
                for n in lengths:
                    gaps = [gap_bytes(rng, kind, n) if (pos == -1 or g == pos) else b" " for g in range(ngaps)]
                    kw = words[0].encode()
                    for g, w in zip(gaps, words[1:]):
                        kw += g + w.encode()
                    progs.append(("kw/%s/gap%d/%s/%d" % (name, pos, kind, n), tmpl.replace("{KW}", kw.decode("latin-1")), 2))
        # right boundary: what may follow the last word (and the end of input)
        for fol in FOLLOWERS:
            for gap in (" ", "\t\t\t\t\t\t\t\t\t", "\r\n" * 20):
                progs.append(("kw/%s/follow/%s/%d" % (name, binascii.hexlify(fol.encode()).decode() or "eof", len(gap)),
                              gap.join(words) + fol, 2))
            progs.append(("kw/%s/lead-follow/%s" % (name, binascii.hexlify(fol.encode()).decode() or "eof"),
                          "make a get 1\n" + " ".join(words) + fol, 2))
    return progs


# one program with every token kind; written as a token list so that a comment can follow every token
COMMENT_TOKS = ['make', 'a', 'get', '[', '1', ',', '2.5', ']', 'if to say', '(', 'a', '[', '0', ']', 'small pass', '2', 'and', 'not',
                'false', ')', 'start', 'shout', '(', '"s{a}"', 'add', "'q\\t'", ')', 'end', 'if not so', 'start', 'shout', '(', 'a', '.',
                'len', '(', ')', ')', 'end', 'do', 'f', '(', 'x', ')', 'start', 'return', 'x', 'end', 'jasi', '(', 'false', ')', 'start',
                'comot', 'end', 'make', 'i', 'get', '0', 'jasi', '(', 'i', 'small pass', '1', ')', 'start', 'i', 'get', 'i', 'add', '1',
                'next', 'end', 'shout', '(', 'f', '(', 'null', ')', ')', 'shout', '(', 'minus', '7', 'times', '3', 'divide', '2', 'mod', '2',
                'minus', '1', ')', 'shout', '(', '1', 'pass', '2', 'or', 'true', 'na', 'true', ')', 'total', 'get', '40', 'shout', '(',
                'total', ')']
COMMENT_TOKS = ['make', 'total', 'get', '0'] + COMMENT_TOKS
PUNCT = [chr(c) for c in range(33, 127) if not chr(c).isalnum()]
COMMENT_FRAGMENTS = PUNCT + ["]#", "#[", "[1]", "[1] the bonus is applied below", "[note]", "[x, y]", "[[", "]]", "#!", "##", "{x}", "{{", "}}",
                             '"open', "'open", '"closed"', "\\n", '\\"', "\\\\", "start", "end", "0", "9", "1.", "2.5", "0x1f", "\x00", "\x7f",
                             "é", "日本", "🌍", "\t", "\x0c", "*/", "/*", "//", "--", "<!--", "(", "((", "))"]


def comment_sweep(env, keywords):
    """Comment CONTENT: a `#` comment is layout whatever it contains.  Every fragment (each ASCII punctuation
    character, bracket / quote / brace / backslash shapes, token-like text, digits, NUL, multi-byte characters,
    every keyword of the regenerated tables) at the start, inside, at the end of and as the whole comment text,
    glued to the token or after a blank, the same comment after EVERY token of a program with all token kinds;
    comment lengths 0..200; the last comment ended by LF, CR, CRLF or the end of the input.  The harness
    compares each such source with its comment-free single-line re-layout (oracle) and the identity
    re-layout ties the lexer model's comment rule to the implementation on the commented text itself."""
    rng = env.rng
    quick = env.tier == "quick"
    frags = list(COMMENT_FRAGMENTS) + [" ".join(w) for _, w in keywords] + list(getattr(env, "c10_single_keywords", []))
    progs = []

    def program(body_of, glue, nl, last):
        parts = []
        for i, t in enumerate(COMMENT_TOKS):
            end = last if i == len(COMMENT_TOKS) - 1 else nl
            parts.append(t + glue + "#" + body_of(i) + end)
        return "".join(parts)

    nls = ["\n", "\r", "\r\n"]
    lasts = ["\n", "", "\r", "\r\n"]
    n = 0
    for fi, f in enumerate(frags):
        modes = [("start", f + " the bonus is applied below"), ("inside", " see " + f + " below"), ("end", " note" + f), ("whole", f),
                 ("start-blank", " " + f + " x")]
        for mi, (mode, body) in enumerate(modes):
            glue = ["", " "][(fi + mi) % 2]
            nl = nls[(fi + mi) % 3]
            last = lasts[(fi * 5 + mi) % 4]
            progs.append(("kw/comment/%s/%d" % (mode, fi), program(lambda i: body, glue, nl, last), 2))
            n += 1
            if not quick:
                progs.append(("kw/comment/%s/%d/b" % (mode, fi), program(lambda i: body, ["", " "][(fi + mi + 1) % 2], rng.choice(nls), rng.choice(lasts)), 2))
    # a different fragment after every token
    for rnd in range(20 if quick else 200):
        pick = [rng.choice(frags) for _ in COMMENT_TOKS]
        progs.append(("kw/comment/varied/%d" % rnd, program(lambda i: pick[i] + rng.choice(["", " x", " the rest"]), rng.choice(["", " "]),
                                                           rng.choice(nls), rng.choice(lasts)), 2))
    # lengths 0..200 (filler with a fragment at both ends), one comment line between two statements and at the end
    for L in range(0, 201):
        f = frags[L % len(frags)]
        body = (f + "x" * L)[:max(L - len(f), 0)] + (f if L >= len(f) else "")
        body = body if L else ""
        text = ("make total get 40\nshout(total)\n#" + body + rng.choice(nls) + "total get total add 2\nshout(total)"
                + rng.choice(["", " ", "\n"]) + "#" + body + rng.choice(lasts))
        progs.append(("kw/comment/len/%d" % L, text, 2))
    return progs


def gen_inputs(env):
    rng = env.rng
    quick = env.tier == "quick"
    n_gen = 600 if quick else 12000
    k = 8 if quick else 12
    progs = []
    for key, text in collect_corpus():
        progs.append((key, text, 12 if quick else 24))
    for i in range(n_gen):
        g = Gen(rng)
        text = g.program(rng.randint(1, 6 if quick else 10))
        key = "gen%d" % i
        if rng.random() < 0.25:
            text = mutate(rng, text)
            key = "mut%d" % i
        progs.append((key, text, k))
    kws = model_keywords(env) or source_keywords()
    env.c10_keywords = kws
    progs += keyword_sweep(env, kws)
    progs += comment_sweep(env, kws)
    return progs


# ------------------------------------------------------------------ running

def hx(s):
    b = s.encode("utf-8")
    return binascii.hexlify(b).decode() if b else "-"


def unhx(h):
    return "" if h == "-" else binascii.unhexlify(h).decode("utf-8", "replace")


def run_harness(env, name, lines, timeout, release=False):
    """Runs `nsverif layout` over the input lines, resuming after a case on which the process
    died or hung.  Returns (output lines, [indices of cases that killed the process])."""
    inp = os.path.join(env.work, name + ".in")
    outp = os.path.join(env.work, name + ".out")
    open(inp, "w").write("".join(lines))
    if os.path.exists(outp):
        os.remove(outp)
    dead = []
    start = 0
    while start < len(lines):
        try:
            p = subprocess.run([common.harness_bin(release), "layout", "--limit-ms", "60000", "--from", str(start), inp, outp],
                               stdin=subprocess.DEVNULL, stdout=subprocess.DEVNULL, stderr=subprocess.PIPE, timeout=timeout)
            rc = p.returncode
        except subprocess.TimeoutExpired:
            rc = 124
        if rc == 0:
            break
        # find the case that was announced last without END
        last_case = None
        ended = set()
        if os.path.exists(outp):
            for l in open(outp, encoding="utf-8", errors="replace"):
                if l.startswith("CASE "):
                    last_case = int(l.split()[1])
                elif l.startswith("END "):
                    ended.add(int(l.split()[1]))
        if last_case is None or last_case in ended:
            dead.append((start, rc))
            start += 1
        else:
            dead.append((last_case, rc))
            open(outp, "a").write("DEAD %d %d\nEND %d\n" % (last_case, rc, last_case))
            start = last_case + 1
    out = open(outp, encoding="utf-8", errors="replace").read().splitlines() if os.path.exists(outp) else []
    return out, dead


def run_model(env, name, lines, timeout=1500):
    inp = os.path.join(env.work, name + ".min")
    outp = os.path.join(env.work, name + ".mout")
    open(inp, "w").write("".join(lines))
    if os.path.exists(outp):
        os.remove(outp)
    rc, out = common.sh([common.NSMODEL, "layout", inp, outp], timeout=timeout)
    if rc != 0 or not os.path.exists(outp):
        return None, out[-800:]
    res = {}
    for l in open(outp):
        p = l.split()
        if p:
            res[p[0]] = p[1:]
    return res, ""


def new_result():
    return {"evaluations": 0, "failures": [], "disagreements": [], "samples": [], "nontrivial": set(),
            "skipped": {}, "gates": {}, "layout_kinds": {}, "relayouts": 0, "paren_variants": 0, "dead": [],
            "model_checked": 0}


def bump(d, k, n=1):
    d[k] = d.get(k, 0) + n


def eval_shard(env, name, progs, seeds, model, timeout, release=False):
    """Oracle and model tie on one shard: a list of (key, text, k) with their seeds."""
    lines = ["%s %s %d %d %s\n" % ("Q" if key.startswith("kw/") else "P", key, seed, k, hx(text))
             for (key, text, k), seed in zip(progs, seeds)]
    out, dead = run_harness(env, name, lines, timeout=timeout, release=release)
    res = new_result()
    cur = None
    texts = {}
    kinds = {}
    mlines = []
    impl_tokens = {}
    for l in out:
        p = l.split(" ")
        tag = p[0]
        if tag == "CASE":
            cur = int(p[1])
            res["evaluations"] += 1
        elif cur is None:
            continue
        elif tag == "SKIP":
            bump(res["skipped"], p[1])
        elif tag == "DEAD":
            key, text, _ = progs[cur]
            res["dead"].append({"key": key, "rc": int(p[2]), "text": text[:400]})
        elif tag == "BASE":
            gate = p[1]
            bump(res["gates"], gate)
            if int(p[2]) >= 4:
                res["nontrivial"].add(common.chash(progs[cur][1]))
            if len(res["samples"]) < 2 and cur % 23 == 5:
                res["samples"].append({"program": progs[cur][1][:300], "gate": gate, "observation": unhx(p[3])[:300]})
        elif tag == "L":
            j, kind, th = int(p[1]), p[2], p[3]
            texts[(cur, j)] = th
            kinds[(cur, j)] = kind
            res["relayouts"] += 1
            bump(res["layout_kinds"], kind)
            mlines.append("c%d_%d %s\n" % (cur, j, " ".join(p[3:])))
        elif tag == "T":
            impl_tokens[(cur, int(p[1]))] = p[2]
        elif tag == "O":
            j = int(p[1])
            if p[2] != "same":
                key, text, _ = progs[cur]
                res["failures"].append({
                    "key": "relayout:%s:%s" % (p[3], common.chash(text)), "program_key": key, "case": text,
                    "relayout": unhx(texts.get((cur, j), "-")), "field": p[3],
                    "observed": {"original": unhx(p[4])[:600], "relayout": unhx(p[5])[:600]}})
        elif tag == "XT":
            texts[(cur, "x" + p[1])] = p[3]
        elif tag == "X":
            res["paren_variants"] += 1
            if p[3] != "same":
                key, text, _ = progs[cur]
                if p[3] == "-":
                    bump(res["skipped"], "parens-unmapped")
                else:
                    res["failures"].append({
                        "key": "parens:%s:%s" % (p[4], common.chash(text)), "program_key": key, "case": text,
                        "relayout": unhx(texts.get((cur, "x" + p[1]), "-")), "field": p[4],
                        "observed": {"original": unhx(p[5])[:600], "with_parentheses": unhx(p[6])[:600]}})
    for idx, rc in dead:
        if idx < len(progs) and not any(progs[idx][0] == d["key"] for d in res["dead"]):
            res["dead"].append({"key": progs[idx][0], "rc": rc, "text": progs[idx][1][:400]})
    # model tie
    if model and mlines:
        mres, err = run_model(env, name, mlines)
        if mres is None:
            res["disagreements"].append({"stream": "layout-model", "error": err})
        else:
            for (cur_j, toks) in impl_tokens.items():
                m = mres.get("c%d_%d" % cur_j)
                if m is None:
                    continue
                res["model_checked"] += 1
                flags = m[:4]
                bad = None
                if kinds.get(cur_j) == "orig" and flags == ["R1", "K1", "W1", "S0"]:
                    # the source as written may lie outside the theorem's (sufficient) guard condition, e.g. the
                    # identifier `small` followed by `passx`; the token comparison below still applies
                    bump(res["skipped"], "orig-outside-guard")
                    flags = ["R1", "K1", "W1", "S1"]
                    if len(m) >= 7 and m[4] == "E0" and m[5] == toks and m[6] == "0":
                        m = m[:4] + ["E1"] + m[5:]
                if flags != ["R1", "K1", "W1", "S1"]:
                    bad = "premises " + " ".join(flags)
                elif len(m) < 7 or m[4] != "E1":
                    bad = "model lexer result " + " ".join(m[4:6])[:200]
                elif m[5] != toks or m[6] != "0":
                    bad = "tokens differ"
                if bad:
                    key, text, _ = progs[cur_j[0]]
                    res["disagreements"].append({
                        "stream": "layout-model", "what": bad, "program_key": key,
                        "text": unhx(texts.get(cur_j, "-"))[:600], "impl": toks[:400], "model": " ".join(m)[:400]})
    return res


def evaluate(env, progs, model=True, jobs=8, release=False):
    """Runs the oracle and the tie on a list of (key, text, k), in parallel shards."""
    from concurrent.futures import ThreadPoolExecutor
    seeds = [env.rng.randrange(1, 2 ** 62) for _ in progs]
    jobs = max(1, min(jobs, len(progs)))
    timeout = 900 if env.tier == "quick" else 5400
    shards = [([], []) for _ in range(jobs)]
    for i, (pr, sd) in enumerate(zip(progs, seeds)):
        shards[i % jobs][0].append(pr)
        shards[i % jobs][1].append(sd)
    env.c10_run = getattr(env, "c10_run", 0) + 1
    with ThreadPoolExecutor(max_workers=jobs) as ex:
        parts = list(ex.map(lambda a: eval_shard(env, "r%d_s%d" % (env.c10_run, a[0]), a[1][0], a[1][1], model, timeout, release),
                            enumerate(shards)))
    res = new_result()
    for part in parts:
        for k in ("evaluations", "relayouts", "paren_variants", "model_checked"):
            res[k] += part[k]
        for k in ("failures", "disagreements", "samples", "dead"):
            res[k] += part[k]
        res["nontrivial"] |= part["nontrivial"]
        for k in ("skipped", "gates", "layout_kinds"):
            for kk, n in part[k].items():
                bump(res[k], kk, n)
    if len(res["disagreements"]) > 8:
        res["disagreements"] = res["disagreements"][:8] + [{"stream": "layout-model"}] * (len(res["disagreements"]) - 8)
    return res


SHRINK_BUDGET_S = 60     # for all representatives together: a violating run must stay within minutes


def shrink(env, f):
    """Line-wise reduction of a failing program while the same field still differs (time-boxed)."""
    import time
    if not hasattr(env, "c10_shrink_deadline"):
        env.c10_shrink_deadline = time.time() + SHRINK_BUDGET_S
    text = f["case"]
    lines = text.split("\n")
    if len(lines) <= 1 or len(lines) > 400:
        return f
    field = f["field"]
    kind = f["key"].split(":")[0]

    def still(cand):
        if time.time() > env.c10_shrink_deadline:
            return False
        r = evaluate(env, [(f["program_key"] if f["program_key"].startswith("kw/") else "shrink", "\n".join(cand), 12)], model=False, jobs=1)
        return any(x["field"] == field and x["key"].split(":")[0] == kind for x in r["failures"])
    try:
        small = common.ddmin_lines(lines, still, keep_head=0)
    except Exception:
        return f
    if len(small) < len(lines):
        r = evaluate(env, [(f["program_key"], "\n".join(small), 12)], model=False, jobs=1)
        for x in r["failures"]:
            if x["field"] == field:
                x["shrunk_from"] = f["key"]
                return x
    return f


def correspond(env, searching=False, model=True):
    progs = gen_inputs(env)
    res = evaluate(env, progs, model=model, jobs=8 if env.tier == "quick" else 12)
    failures = res["failures"]
    profiles = ["debug"]
    release_stats = {}
    if env.tier == "thorough":
        ok, out = common.build_harness(release=True)
        if not ok:
            raise RuntimeError("release harness build failed:\n" + out[-1500:])
        sub = progs[:len([p for p in progs if not p[0].startswith(("gen", "mut"))])] + [p for p in progs if p[0].startswith(("gen", "mut"))][:1500]
        rel = evaluate(env, sub, model=False, jobs=12, release=True)
        for f in rel["failures"]:
            f["profile"] = "release"
            f["key"] = f["key"]
        failures = failures + rel["failures"]
        res["dead"] += rel["dead"]
        profiles.append("release")
        release_stats = {"programs": rel["evaluations"], "relayouts": rel["relayouts"], "paren_variants": rel["paren_variants"],
                         "oracle_failures": len(rel["failures"])}
    # one representative per (kind, field), shrunk
    seen = {}
    for f in failures:
        k = (f["key"].split(":")[0], f["field"])
        seen.setdefault(k, []).append(f)
    reps = []
    for k, fs in seen.items():
        fs.sort(key=lambda x: len(x["case"]))
        reps.append(shrink(env, fs[0]))
        reps += fs[1:3]
    return {
        "evaluations": res["evaluations"],
        "distinct_nontrivial": len(res["nontrivial"]),
        "rule": "programs = generated (all statement kinds, operators, escapes, interpolation, decimals, nested blocks/functions, methods, arrays, "
                "comments; a quarter damaged at token level so that they are rejected) + /repo examples, tests/stress, docs snippets + boundary inputs; "
                "each re-rendered from the real lexer's token spans (orig = identity, line, mixed, comments, crlf, respace, dense, random, tall, cr, formfeed; whitespace inside multi-word keywords heavy-tailed up to 5 000 bytes) and with "
                "redundant parentheses; plus the sweep of separators INSIDE every multi-word keyword of the regenerated table (each gap position x "
                "space/tab/LF/CR/FF/CRLF/LF+indent/mixed x every length 1..64 and lengths up to 5 000) and of the byte that follows the keyword; "
                "the identity re-layout ties the model to the source text itself; compared: tokens, parser diagnostics, AST without spans, resolver diagnostics, run gate, Runtime.output, ending; "
                "non-trivial = distinct program with at least 4 tokens that lexes without lexer diagnostics",
        "samples": res["samples"],
        "failures": reps,
        "disagreements": res["disagreements"],
        "extra": {"relayouts": res["relayouts"], "paren_variants": res["paren_variants"], "layout_kinds": res["layout_kinds"],
                  "gates": res["gates"], "skipped": res["skipped"], "inconclusive_dead_or_timeout": res["dead"][:10],
                  "inconclusive_count": len(res["dead"]), "model_tie_relayouts": res["model_checked"],
                  "oracle_failures_total": len(failures), "profiles": profiles,
                  "multiword_keywords": ["%s = %s" % (n, " ".join(w)) for n, w in getattr(env, "c10_keywords", [])],
                  "keyword_sweep_programs": len([p for p in progs if p[0].startswith("kw/")]), "release_pass": release_stats},
    }


def replay(env, payload):
    common.refresh_tables()
    common.build_nsmodel()
    case = payload.get("case") or {}
    text = case.get("case")
    if text is None:
        ds = payload.get("disagreements") or []
        text = ds[0].get("text") if ds else None
    if text is None:
        print("replay: no concrete input in this file (obligations: %s)" % payload.get("no_longer_checks"))
        return 1
    r = evaluate(env, [("replay", text, 24)], model=True)
    print("program:\n%s" % text)
    for f in r["failures"][:3]:
        print("FAIL %s\n relayout:\n%s\n observed: %s" % (f["key"], f["relayout"], f["observed"]))
    for d in r["disagreements"][:3]:
        print("DISAGREE %s" % d)
    bad = bool(r["failures"] or r["disagreements"])
    print("replay: %s" % ("still failing" if bad else "passes now"))
    return 1 if bad else 0
