"""C11 — bump arena: op-history correspondence between theories/Bump.v (extracted) and
src/arena/bump.rs driven through the Allocator API and the guarded accessors."""
import os
import common

TRUSTED_EXTRA = [
    "C11: commit/decommit system calls modelled as always succeeding; usize arithmetic modelled in unbounded Z (sizes < 2^63)",
]
ASSUMPTIONS = [
    "client histories use power-of-two alignments, non-negative sizes, grow/shrink only of live blocks, shrink only of the tail block",
]

SIZES = [0, 1, 7, 8, 9, 63, 64, 128, 129, 160, 161, 256, 257, 1000, 4095, 4096, 4097,
         65535, 65536, 65537, 131072]


def gen_history(rng, hid, tier):
    big = rng.random() < 0.3
    cap = rng.choice([65536, 65536 * 2, 65536 * 4, 65536 * 16, 100000, 1]) if not big else rng.choice([1 << 20, 1 << 22])
    n = rng.randint(5, 60 if tier == "quick" else 200)
    lines = ["H %d %d" % (hid, cap)]
    kinds = {}
    for _ in range(n):
        r = rng.random()
        if r < 0.30:
            sz = rng.choice(SIZES) if rng.random() < 0.7 else rng.randint(0, 70000)
            if rng.random() < 0.08:
                sz = cap + rng.choice([-65536, -1, 0, 1, 65536])  # around the capacity
                sz = max(sz, 0)
            lines.append("%s %d %d" % ("A" if rng.random() < 0.8 else "Z", sz, rng.choice([0, 0, 1, 2, 3, 3, 4, 6, 12, 16])))
        elif r < 0.45:
            lines.append("G %d %d %d" % (rng.randint(0, 8), rng.choice(SIZES) if rng.random() < 0.7 else rng.randint(0, 70000), rng.randint(0, 1)))
        elif r < 0.55:
            lines.append("S %d %d" % (rng.randint(0, 8), rng.randint(0, 5000)))
        elif r < 0.62:
            lines.append("R %d" % rng.randint(0, 300000))
        elif r < 0.70:
            lines.append("RB %d" % rng.randint(0, 8))
        elif r < 0.75:
            lines.append("D")
        elif r < 0.90:
            lines.append("W %d %d" % (rng.randint(0, 8), rng.randint(0, 250)))
        elif r < 0.95:
            lines.append("B")
        else:
            lines.append("E")
        k = lines[-1].split()[0]
        kinds[k] = kinds.get(k, 0) + 1
    return lines, kinds


def run_pair(env, name, text, dbg, release=False):
    inp = os.path.join(env.work, name + ".in")
    open(inp, "w").write(text)
    oi = os.path.join(env.work, name + ".impl")
    om = os.path.join(env.work, name + ".model")
    rc1, o1 = common.sh([common.harness_bin(release), "bump", inp, oi], timeout=900)
    li = open(oi).read().splitlines() if rc1 == 0 and os.path.exists(oi) else None
    if li is None:
        return None, None, o1
    # the model needs the reservation's base address (alignment is of absolute addresses):
    # take it from the implementation's header lines
    bases = [l.split("base=")[1] for l in li if l.startswith("H ")]
    minp = os.path.join(env.work, name + ".min")
    with open(minp, "w") as f:
        k = 0
        for l in text.splitlines():
            if l.startswith("H "):
                l = l + " " + bases[k]
                k += 1
            f.write(l + "\n")
    rc2, o2 = common.sh([common.NSMODEL, "bump", "1" if dbg else "0", minp, om], timeout=900)
    lm = open(om).read().splitlines() if rc2 == 0 and os.path.exists(om) else None
    return li, lm, (o1 if rc1 else "") + (o2 if rc2 else "")


def split_histories(inp_lines, out_lines):
    """Groups op lines and output lines per history."""
    hs = []
    cur = None
    for l in inp_lines:
        if l.startswith("H "):
            cur = [l]
            hs.append(cur)
        else:
            cur.append(l)
    outs = []
    cur = None
    for l in (out_lines or []):
        if l.startswith("H "):
            cur = [l]
            outs.append(cur)
        else:
            cur.append(l)
    return hs, outs


def oracle_flags(line):
    return [w for w in ("CORRUPT", "MISALIGNED", "OUTOFBOUNDS", "OVERLAP") if w in line]


def shrink_history(env, hist, dbg, release, pred):
    """Greedy delta debugging on op lines while pred(history) stays true."""
    cur = list(hist)
    changed = True
    while changed and len(cur) > 2:
        changed = False
        i = 1
        while i < len(cur):
            cand = cur[:i] + cur[i + 1:]
            if pred(cand):
                cur = cand
                changed = True
            else:
                i += 1
    return cur


def correspond(env, searching=False, model=True):
    n_hist = 400 if env.tier == "quick" else 20000
    if searching:
        n_hist *= 4
    profiles = [(True, False)] if env.tier == "quick" else [(True, False), (False, True)]
    if env.tier == "thorough":
        ok, out = common.build_harness(release=True)
        if not ok:
            raise RuntimeError("release harness build failed: " + out[-2000:])
    rng = env.rng
    hists = []
    kinds_total = {}
    # corpus first
    corpus_dir = os.path.join(common.VERIF, "gen", "corpus", "C11")
    if os.path.isdir(corpus_dir):
        for fn in sorted(os.listdir(corpus_dir)):
            ls = open(os.path.join(corpus_dir, fn)).read().splitlines()
            ls[0] = "H %d %s" % (len(hists), ls[0].split()[2])
            hists.append(ls)
    while len(hists) < n_hist:
        ls, kinds = gen_history(rng, len(hists), env.tier)
        for k, v in kinds.items():
            kinds_total[k] = kinds_total.get(k, 0) + v
        hists.append(ls)
    failures = []
    disagreements = []
    evaluations = 0
    nontrivial = set()
    samples = []
    for (dbg, release) in profiles:
        # shard
        shard = 2000
        for s0 in range(0, len(hists), shard):
            part = hists[s0:s0 + shard]
            text = "\n".join("\n".join(h) for h in part) + "\n"
            li, lm, err = run_pair(env, "h%d_%d" % (int(release), s0), text, dbg, release)
            if li is None:
                # implementation crashed: find the history by running one by one
                for h in part:
                    l1, l2, e = run_pair(env, "single", "\n".join(h) + "\n", dbg, release)
                    if l1 is None:
                        small = shrink_history(env, h, dbg, release,
                                               lambda c: run_pair(env, "shr", "\n".join(c) + "\n", dbg, release)[0] is None)
                        failures.append({"key": "crash:" + common.chash("\n".join(small)), "history": small,
                                         "observed": "implementation crashed/aborted: " + e[-400:],
                                         "profile": "release" if release else "debug"})
                        break
                continue
            if lm is None:
                disagreements.append({"stream": "bump-history", "error": "model run failed: " + err[-400:]})
                continue
            hs, oi = split_histories([l for h in part for l in h], li)
            _, om = split_histories([], lm)
            for h, a, b in zip(hs, oi, om):
                evaluations += 1
                flags = [f for l in a for f in oracle_flags(l)]
                if (a != b or flags) and not flags and len(disagreements) >= 2:
                    disagreements.append({"stream": "bump-history", "history": h[:3] + ["..."]})
                elif a != b or flags:
                    def pred(c, want_flags=bool(flags)):
                        x, y, _ = run_pair(env, "shr", "\n".join(c) + "\n", dbg, release)
                        if x is None:
                            return False
                        if want_flags:
                            return any(oracle_flags(l) for l in x)
                        return x != y
                    small = shrink_history(env, h, dbg, release, pred)
                    x, y, _ = run_pair(env, "shr", "\n".join(small) + "\n", dbg, release)
                    if x is not None and x == y and not any(oracle_flags(l) for l in x):
                        # the reservation's base address differs from run to run, so a case that
                        # depends on it may not reproduce after shrinking: keep the original
                        small = h
                        x, y = a, b
                    rec = {"history": small, "impl": x, "model": y, "profile": "release" if release else "debug"}
                    if flags or any(oracle_flags(l) for l in (x or [])):
                        rec["key"] = "oracle:" + common.chash("\n".join(small))
                        rec["observed"] = "shadow-ledger oracle: " + ",".join(sorted(set(flags)))
                        failures.append(rec)
                    else:
                        rec["stream"] = "bump-history"
                        # a disagreement on returned blocks is itself an oracle failure when the
                        # implementation's block violates the contract; otherwise only the tie broke
                        disagreements.append(rec)
                    if failures:
                        break
                else:
                    ops = [l.split()[0] for l in h[1:]]
                    fails = sum(1 for l in a if l.startswith("blk 0"))
                    if len(set(ops)) >= 4 and any(o in ops for o in ("G", "R", "RB", "E")):
                        nontrivial.add(common.chash("\n".join(h[1:])))
                    if len(samples) < 3 and len(h) < 14:
                        samples.append({"history": h, "impl_output": a})
            if failures:
                break
    return {
        "evaluations": evaluations,
        "distinct_nontrivial": len(nontrivial),
        "rule": "random op histories on real arenas (capacities 64 KiB..4 MiB, sizes around 0/8/128/256/4 KiB/64 KiB/capacity); "
                "non-trivial = distinct op sequence with >= 4 op kinds including a grow or a reset/release; every op's returned "
                "(offset,len), offset(), commit, live count and sampled-content checksum compared with the extracted model; full "
                "byte-for-byte shadow ledger checked on the implementation after every op",
        "samples": samples,
        "failures": failures,
        "disagreements": disagreements,
        "extra": {"op_histogram": kinds_total, "profiles": ["debug"] + (["release"] if env.tier == "thorough" else [])},
    }


def replay(env, payload):
    common.refresh_tables()
    common.build_nsmodel()
    case = payload.get("case") or (payload.get("disagreements") or [{}])[0]
    hist = case.get("history")
    if not hist:
        print("replay: no concrete history in this file (obligations: %s)" % payload.get("no_longer_checks"))
        return 1
    release = case.get("profile") == "release"
    if release:
        common.build_harness(release=True)
    li, lm, err = run_pair(env, "replay", "\n".join(hist) + "\n", not release, release)
    print("impl:\n" + "\n".join(li or ["<crashed> " + err]))
    print("model:\n" + "\n".join(lm or ["<failed>"]))
    bad = li is None or li != lm or any(oracle_flags(l) for l in li)
    print("replay: %s" % ("still failing" if bad else "passes now"))
    return 1 if bad else 0
