"""C11 — bump arena: op-history correspondence between theories/Bump.v + theories/BumpVec.v
(extracted) and src/arena/bump.rs driven through the Allocator API and the guarded accessors,
and src/arena/string.rs driven through its public API (container ops K*, interleaved with the
raw block ops in the same arena)."""
import importlib.util
import os
import common

EXTRA_COQ_TARGETS = ["extract/ExtractBumpVec.vo"]

TRUSTED_EXTRA = [
    "C11: commit/decommit system calls modelled as always succeeding; usize arithmetic modelled in unbounded Z (sizes < 2^63)",
]
ASSUMPTIONS = [
    "client histories use power-of-two alignments, non-negative sizes, grow/shrink only of live blocks, shrink only of the tail block",
    "container histories skip a container op whose worst-case request might not fit the reservation (an allocation failure inside Vec aborts the process); "
    "shrink_to_fit only on a container that is the last block (API contract); string ranges are snapped to char boundaries (the API asserts them)",
]
TRUSTED_EXTRA.append(
    "C11 containers: the growth policy of alloc::raw_vec (amortized max(2*cap, len+additional, 8|4|1); exact len+additional; "
    "with_capacity/clone exact) is modelled in BumpVec.v and checked only by the differential run; fmt::Write / format_args! "
    "are taken to issue one write_str per \"{}\" argument")

# history op -> items of the translator's surface list (translator/gen_arenastr.py) it drives
OP_API = {
    "KN": ["ArenaString::new_in", "ArenaString::with_capacity_in"],
    "KF": ["ArenaString::from_str", "ArenaString::from_utf8_unchecked", "ArenaString::from_utf8_lossy_owned",
           "ArenaString::from_utf8_lossy"],
    "KA": ["arena_format!", "ArenaString as fmt::Write::write_str"],
    "KD": ["ArenaString: Clone (derived)"],
    "KP": ["ArenaString::push_str", "ArenaString as fmt::Write::write_str", "ArenaString::as_mut_vec"],
    "KC": ["ArenaString::push", "ArenaString as fmt::Write::write_char"],
    "KR": ["ArenaString::push_repeat"],
    "KV": ["ArenaString::reserve"],
    "KE": ["ArenaString::reserve_exact"],
    "KX": ["ArenaString::replace_range", "Vec<T, A> as ReplaceRange<T>::replace_range", "fn vec_replace_impl (private)"],
    "KO": ["ArenaString::replace_once_in_place", "Vec<T, A> as ReplaceRange<T>::replace_range", "fn vec_replace_impl (private)"],
    "KS": ["ArenaString::shrink_to_fit"],
    "KZ": ["ArenaString::clear"],
    # read by the oracle after every op
    "*": ["ArenaString::len", "ArenaString::capacity", "ArenaString::as_bytes"],
}


# driven, but not on every path
PARTIAL = {
    "ArenaString::from_utf8_lossy": "only the all-valid outcome (borrows, no allocation) via from_utf8_lossy_owned; the replacing "
                                    "branch (new_in + reserve + push_str per chunk) is not driven",
    "ArenaString::from_utf8_lossy_owned": "only with valid UTF-8 (wraps the vector)",
    "Vec<T, A> as ReplaceRange<T>::replace_range": "only T = u8 through ArenaString (the trait is not exported from the crate)",
}


def string_api():
    spec = importlib.util.spec_from_file_location("gen_arenastr", os.path.join(common.VERIF, "translator", "gen_arenastr.py"))
    mod = importlib.util.module_from_spec(spec)
    spec.loader.exec_module(mod)
    return mod.api(common.REPO)


KSIZES = [0, 1, 2, 3, 4, 5, 7, 8, 9, 15, 16, 17, 31, 32, 33, 63, 64, 65, 100, 127, 128, 129, 255, 256, 257, 1000,
          4095, 4096, 4097]
KBIG = [32767, 32768, 32769, 65535, 65536, 65537, 70000, 131071, 131072]
MB = ["\u00e9", "\u20ac", "\U0001F600", "\u00df", "a", "Z", " ", "-"]
HUGE = 1 << 60


def ksize(rng, big=0.06):
    r = rng.random()
    if r < big:
        return rng.choice(KBIG) + rng.choice([0, 0, -8, 8])
    if r < 0.75:
        return rng.choice(KSIZES)
    return rng.randint(0, 300)


def kdata(rng, n):
    if n <= 0:
        return "-"
    if n <= 96 and rng.random() < 0.25:
        t = ""
        while len(t.encode()) < n:
            t += rng.choice(MB)
        return "x" + t.encode().hex()
    return "p%d:%d" % (rng.randint(0, 94), n)


def gen_khistory(rng, hid, tier):
    """Container history: ArenaString / Vec<u32> ops interleaved with raw allocations, so that
    a container is / is not the most recent block when it has to grow."""
    cap = rng.choice([65536, 131072, 131072, 262144, 1 << 20, 1 << 22])
    n = rng.randint(6, 45 if tier == "quick" else 150)
    lines = ["H %d %d" % (hid, cap)]
    kinds = {}
    vi = lambda: rng.randint(0, 5)
    for _ in range(n):
        r = rng.random()
        if r < 0.12:
            lines.append("KF %d %s" % (rng.randint(0, 2), kdata(rng, ksize(rng))))
        elif r < 0.17:
            lines.append("KN %d %d" % (rng.choice([0, 0, 0, 2]), rng.choice([0, 0, 1, 7, 8, 9]) if rng.random() < 0.7 else ksize(rng)))
        elif r < 0.20:
            lines.append("KA %s" % kdata(rng, ksize(rng)))
        elif r < 0.24:
            lines.append("KD %d" % vi())
        elif r < 0.38:
            lines.append("KP %d %d %s" % (vi(), rng.randint(0, 2), kdata(rng, ksize(rng))))
        elif r < 0.43:
            lines.append("KC %d %d %d" % (vi(), rng.randint(0, 1), rng.choice([65, 97, 126, 0xE9, 0x20AC, 0x1F600, 0x7FF, 0x800, 0xFFFD])))
        elif r < 0.47:
            lines.append("KR %d %d %d" % (vi(), rng.choice([32, 120, 0xE9, 0x20AC, 0x1F600]), rng.choice([0, 1, 2, 3, 7, 8, 9, 40, 1000, 21845, 21846, 65536])))
        elif r < 0.53:
            lines.append("%s %d %d" % (rng.choice(["KV", "KE"]), vi(), rng.choice([0, 0, 1, 1, 2]) if rng.random() < 0.5 else ksize(rng)))
        elif r < 0.69:
            form = rng.choice([0, 0, 0, 1, 2, 3, 4, 5, 6])
            a = rng.randint(0, 40) if rng.random() < 0.8 else ksize(rng, 0.2)
            b = a + (rng.choice([0, 0, 1, 2, 3, 5, 8, 20]) if rng.random() < 0.85 else ksize(rng, 0.2))
            if form in (2, 4):
                a = 0
            if form in (3, 4):
                b = HUGE
            if rng.random() < 0.05:
                b = rng.randint(0, a)          # reversed / empty range
            d = rng.choice([0, 1, 2, 3, 5, 8, 9, 14, 17, 33]) if rng.random() < 0.75 else ksize(rng, 0.15)
            lines.append("KX %d %d %d %d %s" % (vi(), form, a, b, kdata(rng, d)))
        elif r < 0.76:
            a = rng.randint(0, 60)
            lines.append("KO %d %d %d %s" % (vi(), a, a + rng.choice([0, 1, 1, 2, 3, 5, 9]),
                                              kdata(rng, rng.choice([0, 1, 2, 4, 9, 18, 40]) if rng.random() < 0.8 else ksize(rng, 0.15))))
        elif r < 0.79:
            lines.append("KS %d" % vi())
        elif r < 0.81:
            lines.append("KZ %d" % vi())
        elif r < 0.91:
            sz = rng.choice([1, 8, 64, 100, 255]) if rng.random() < 0.8 else rng.choice(SIZES)
            lines.append("%s %d %d" % ("A" if rng.random() < 0.8 else "Z", sz, rng.choice([0, 0, 1, 3, 4, 6])))
        elif r < 0.94:
            lines.append("W %d %d" % (rng.randint(0, 8), rng.randint(0, 250)))
        elif r < 0.955:
            lines.append("G %d %d %d" % (rng.randint(0, 8), rng.choice(SIZES[:12]), rng.randint(0, 1)))
        elif r < 0.97:
            lines.append("RB %d" % rng.randint(0, 8))
        elif r < 0.98:
            lines.append("R %d" % rng.randint(0, 300000))
        elif r < 0.988:
            lines.append("B")
        elif r < 0.995:
            lines.append("E")
        else:
            lines.append("D")
        k = lines[-1].split()[0]
        kinds[k] = kinds.get(k, 0) + 1
    return lines, kinds

SIZES = [0, 1, 7, 8, 9, 63, 64, 128, 129, 160, 161, 256, 257, 1000, 4095, 4096, 4097,
         65535, 65536, 65537, 131072]


def gen_history(rng, hid, tier):
    big = rng.random() < 0.3
    cap = rng.choice([65536, 65536 * 2, 65536 * 4, 65536 * 16, 100000, 1]) if not big else rng.choice([1 << 20, 1 << 22])
    n = rng.randint(5, 60 if tier == "quick" else 120)
    lines = ["H %d %d" % (hid, cap)]
    kinds = {}
    for _ in range(n):
        r = rng.random()
        if r < 0.30:
            sz = rng.choice(SIZES) if rng.random() < 0.7 else rng.randint(0, 70000)
            if rng.random() < 0.08:
                sz = cap + rng.choice([-65536, -1, 0, 1, 65536])  # around the capacity
                sz = max(sz, 0)
            lines.append("%s %d %d" % ("A" if rng.random() < 0.8 else "Z", sz, rng.choice([0, 0, 1, 2, 3, 3, 4, 6, 12, 16])))
        elif r < 0.45:
            lines.append("G %d %d %d" % (rng.randint(0, 8), rng.choice(SIZES) if rng.random() < 0.7 else rng.randint(0, 70000), rng.randint(0, 1)))
        elif r < 0.55:
            lines.append("S %d %d" % (rng.randint(0, 8), rng.randint(0, 5000)))
        elif r < 0.62:
            lines.append("R %d" % rng.randint(0, 300000))
        elif r < 0.70:
            lines.append("RB %d" % rng.randint(0, 8))
        elif r < 0.75:
            lines.append("D")
        elif r < 0.90:
            lines.append("W %d %d" % (rng.randint(0, 8), rng.randint(0, 250)))
        elif r < 0.95:
            lines.append("B")
        else:
            lines.append("E")
        k = lines[-1].split()[0]
        kinds[k] = kinds.get(k, 0) + 1
    return lines, kinds


LAST_TAGS = []


def run_pair(env, name, text, dbg, release=False):
    inp = os.path.join(env.work, name + ".in")
    open(inp, "w").write(text)
    oi = os.path.join(env.work, name + ".impl")
    om = os.path.join(env.work, name + ".model")
    rc1, o1 = common.sh([common.harness_bin(release), "bump", inp, oi], timeout=900)
    li = open(oi).read().splitlines() if rc1 == 0 and os.path.exists(oi) else None
    if li is None:
        return None, None, o1
    # " #tag" at the end of a line is a comment of the harness (how a container's buffer changed)
    LAST_TAGS[:] = [l.split(" #", 1)[1] if " #" in l else "" for l in li]
    li = [l.split(" #", 1)[0] for l in li]
    # the model needs the reservation's base address (alignment is of absolute addresses):
    # take it from the implementation's header lines
    bases = [l.split("base=")[1] for l in li if l.startswith("H ")]
    minp = os.path.join(env.work, name + ".min")
    with open(minp, "w") as f:
        k = 0
        for l in text.splitlines():
            if l.startswith("H "):
                l = l + " " + bases[k]
                k += 1
            f.write(l + "\n")
    rc2, o2 = common.sh([common.NSMODEL, "bumpvec", "1" if dbg else "0", minp, om], timeout=900)
    lm = open(om).read().splitlines() if rc2 == 0 and os.path.exists(om) else None
    return li, lm, (o1 if rc1 else "") + (o2 if rc2 else "")


def split_histories(inp_lines, out_lines):
    """Groups op lines and output lines per history."""
    hs = []
    cur = None
    for l in inp_lines:
        if l.startswith("H "):
            cur = [l]
            hs.append(cur)
        else:
            cur.append(l)
    outs = []
    cur = None
    for l in (out_lines or []):
        if l.startswith("H "):
            cur = [l]
            outs.append(cur)
        else:
            cur.append(l)
    return hs, outs


def oracle_flags(line):
    return [w for w in ("CORRUPT", "MISALIGNED", "OUTOFBOUNDS", "OVERLAP", "CONTENT", "LENGTH") if w in line]


def shrink_history(env, hist, dbg, release, pred):
    """Greedy delta debugging on op lines while pred(history) stays true."""
    cur = list(hist)
    changed = True
    while changed and len(cur) > 2:
        changed = False
        i = 1
        while i < len(cur):
            cand = cur[:i] + cur[i + 1:]
            if pred(cand):
                cur = cand
                changed = True
            else:
                i += 1
    return cur


def correspond(env, searching=False, model=True):
    n_hist = 400 if env.tier == "quick" else 6000
    if searching:
        n_hist *= 4
    profiles = [(True, False)] if env.tier == "quick" else [(True, False), (False, True)]
    if env.tier == "thorough":
        ok, out = common.build_harness(release=True)
        if not ok:
            raise RuntimeError("release harness build failed: " + out[-2000:])
    rng = env.rng
    hists = []
    kinds_total = {}
    # corpus first
    corpus_dir = os.path.join(common.VERIF, "gen", "corpus", "C11")
    if os.path.isdir(corpus_dir):
        for fn in sorted(os.listdir(corpus_dir)):
            ls = open(os.path.join(corpus_dir, fn)).read().splitlines()
            ls[0] = "H %d %s" % (len(hists), ls[0].split()[2])
            hists.append(ls)
    while len(hists) < n_hist:
        ls, kinds = gen_history(rng, len(hists), env.tier)
        for k, v in kinds.items():
            kinds_total[k] = kinds_total.get(k, 0) + v
        hists.append(ls)
    # container histories (src/arena/string.rs through its public API, same arena as raw blocks)
    n_khist = (220 if env.tier == "quick" else 5000) * (4 if searching else 1)
    for _ in range(n_khist):
        ls, kinds = gen_khistory(rng, len(hists), env.tier)
        for k, v in kinds.items():
            kinds_total[k] = kinds_total.get(k, 0) + v
        hists.append(ls)
    buffer_events = {}     # "<op> <how the container's buffer changed>" -> count (implementation side)
    failures = []
    disagreements = []
    evaluations = 0
    nontrivial = set()
    samples = []
    for (dbg, release) in profiles:
        # shard
        shard = 2000
        for s0 in range(0, len(hists), shard):
            part = hists[s0:s0 + shard]
            text = "\n".join("\n".join(h) for h in part) + "\n"
            li, lm, err = run_pair(env, "h%d_%d" % (int(release), s0), text, dbg, release)
            if li is None:
                # implementation crashed: find the history by running one by one
                for h in part:
                    l1, l2, e = run_pair(env, "single", "\n".join(h) + "\n", dbg, release)
                    if l1 is None:
                        small = shrink_history(env, h, dbg, release,
                                               lambda c: run_pair(env, "shr", "\n".join(c) + "\n", dbg, release)[0] is None)
                        failures.append({"key": "crash:" + common.chash("\n".join(small)), "history": small,
                                         "observed": "implementation crashed/aborted: " + e[-400:],
                                         "profile": "release" if release else "debug"})
                        break
                continue
            if lm is None:
                disagreements.append({"stream": "bump-history", "error": "model run failed: " + err[-400:]})
                continue
            hs, oi = split_histories([l for h in part for l in h], li)
            _, om = split_histories([], lm)
            tags = list(LAST_TAGS)
            relocs = []
            pos = 0
            for h, a in zip(hs, oi):
                r = 0
                for opl, tg in zip(h[1:], tags[pos + 1:pos + len(a)]):
                    if tg:
                        key = "%s %s" % (opl.split()[0], tg)
                        buffer_events[key] = buffer_events.get(key, 0) + 1
                        r += tg == "reloc"
                pos += len(a)          # a history stops at its first oracle failure
                relocs.append(r)
            for h, a, b, nreloc in zip(hs, oi, om, relocs):
                evaluations += 1
                flags = [f for l in a for f in oracle_flags(l)]
                if (a != b or flags) and not flags and len(disagreements) >= 2:
                    disagreements.append({"stream": "bump-history", "history": h[:3] + ["..."]})
                elif a != b or flags:
                    def pred(c, want_flags=bool(flags)):
                        x, y, _ = run_pair(env, "shr", "\n".join(c) + "\n", dbg, release)
                        if x is None:
                            return False
                        if want_flags:
                            return any(oracle_flags(l) for l in x)
                        return x != y
                    small = shrink_history(env, h, dbg, release, pred)
                    x, y, _ = run_pair(env, "shr", "\n".join(small) + "\n", dbg, release)
                    if x is not None and x == y and not any(oracle_flags(l) for l in x):
                        # the reservation's base address differs from run to run, so a case that
                        # depends on it may not reproduce after shrinking: keep the original
                        small = h
                        x, y = a, b
                    rec = {"history": small, "impl": x, "model": y, "profile": "release" if release else "debug"}
                    if flags or any(oracle_flags(l) for l in (x or [])):
                        rec["key"] = "oracle:" + common.chash("\n".join(small))
                        rec["observed"] = "shadow-ledger oracle: " + ",".join(sorted(set(flags)))
                        failures.append(rec)
                    else:
                        rec["stream"] = "bump-history"
                        # a disagreement on returned blocks is itself an oracle failure when the
                        # implementation's block violates the contract; otherwise only the tie broke
                        disagreements.append(rec)
                    if failures:
                        break
                else:
                    ops = [l.split()[0] for l in h[1:]]
                    fails = sum(1 for l in a if l.startswith("blk 0"))
                    if any(o.startswith("K") for o in ops):
                        if len(set(ops)) >= 4 and nreloc >= 1:
                            nontrivial.add(common.chash("\n".join(h[1:])))
                    elif len(set(ops)) >= 4 and any(o in ops for o in ("G", "R", "RB", "E")):
                        nontrivial.add(common.chash("\n".join(h[1:])))
                    if len(samples) < 3 and len(h) < 14:
                        samples.append({"history": h, "impl_output": a})
            if failures:
                break
    # which items of src/arena/string.rs's surface the histories drive (enumerated from the source)
    try:
        items, flags = string_api()
        driven = set(x for k, v in OP_API.items() if k == "*" or kinds_total.get(k) for x in v)
        surface = {
            "items": len(items),
            "exercised": sorted(n for n, _ in items if n in driven),
            "exercised_partially": {n: PARTIAL[n] for n, _ in items if n in driven and n in PARTIAL},
            "not_exercised_may_allocate": sorted(n for n, a in items if a and n not in driven),
            "not_exercised_no_allocation": sorted(n for n, a in items if not a and n not in driven),
            "mapped_but_absent_from_source": sorted(driven - set(n for n, _ in items)),
            "source_shape": flags,
        }
    except Exception as e:  # the translator step reports the same problem as a broken obligation
        surface = {"error": str(e)}
    return {
        "evaluations": evaluations,
        "distinct_nontrivial": len(nontrivial),
        "rule": "random op histories on real arenas (capacities 64 KiB..4 MiB, sizes around 0/8/128/256/4 KiB/64 KiB/capacity); "
                "non-trivial = distinct op sequence with >= 4 op kinds including a grow or a reset/release; every op's returned "
                "(offset,len), offset(), commit, live count and sampled-content checksum compared with the extracted model; full "
                "byte-for-byte shadow ledger checked on the implementation after every op; plus container histories "
                "(ArenaString / Vec<u32> ops of src/arena/string.rs interleaved with raw blocks; every container's contents "
                "compared with a plain Vec<u8> shadow after every op, its buffer is a ledger block; (address,len,capacity) compared "
                "with BumpVec.v; non-trivial = >= 4 op kinds and at least one growth that relocated a container)",
        "samples": samples,
        "failures": failures,
        "disagreements": disagreements,
        "extra": {"op_histogram": kinds_total, "container_buffer_events": dict(sorted(buffer_events.items())),
                  "string_rs_surface": surface, "profiles": ["debug"] + (["release"] if env.tier == "thorough" else [])},
    }


def replay(env, payload):
    common.refresh_tables()
    common.build_nsmodel()
    case = payload.get("case") or (payload.get("disagreements") or [{}])[0]
    hist = case.get("history")
    if not hist:
        print("replay: no concrete history in this file (obligations: %s)" % payload.get("no_longer_checks"))
        return 1
    release = case.get("profile") == "release"
    if release:
        common.build_harness(release=True)
    li, lm, err = run_pair(env, "replay", "\n".join(hist) + "\n", not release, release)
    print("impl:\n" + "\n".join(li or ["<crashed> " + err]))
    print("model:\n" + "\n".join(lm or ["<failed>"]))
    bad = li is None or li != lm or any(oracle_flags(l) for l in li)
    print("replay: %s" % ("still failing" if bad else "passes now"))
    return 1 if bad else 0
