"""C12 — string pool: op-history correspondence between theories/Pool.v (extracted) and
src/arena/pool.rs driven through the guarded wrappers (small pools and the real PoolSet)."""
import os
import common

TRUSTED_EXTRA = [
    "C12: PoolSet modelled on the C11 arena model; the `expect(\"arena capacity exceeded\")` path (backing arena exhausted) is outside the compared histories",
]
ASSUMPTIONS = [
    "clients release only live buffers, with the size they were allocated with (the documented safety contract of PoolSet::dealloc)",
]
BOUNDARY = [0, 1, 7, 8, 9, 16, 17, 120, 121, 128, 129, 159, 160, 161, 192, 193, 224, 225, 255, 256, 257, 300, 1000, 5000]
FLAGS = ("CORRUPT", "OVERLAP", "CLOBBERED", "PANIC", "CONTAINS-WRONG")


def gen_small(rng, hid, tier):
    ssz = rng.choice([8, 16, 24, 32, 64, 128, 160, 256])
    cnt = rng.randint(1, 8)
    lines = ["P %d %d %d" % (hid, ssz, cnt)]
    for _ in range(rng.randint(4, 80 if tier == "quick" else 200)):
        r = rng.random()
        if r < 0.5:
            lines.append("a")
        elif r < 0.9:
            lines.append("f %d" % rng.randint(0, 10))
        else:
            lines.append("c %d" % rng.choice([0, 1, ssz - 1, ssz, ssz * cnt - 1, ssz * cnt, ssz * cnt + 1, rng.randint(0, 3000)]))
    return lines


_EDGES = None


def block_edges():
    """Start and end offsets of the 20 slot blocks, from the regenerated tables (PoolSet::new
    on a fresh arena: block aligned 8, then the u32 free list aligned 4)."""
    global _EDGES
    if _EDGES is None:
        import json
        t = json.load(open(os.path.join(common.BUILD, "tables.json")))
        off = 0
        edges = []
        for ssz, cnt in zip(t["slot_sizes"], t["slot_counts"]):
            base = (off + 7) // 8 * 8
            edges += [base, base + ssz * cnt]
            off = (base + ssz * cnt + 3) // 4 * 4 + cnt * 4
        _EDGES = edges
    return _EDGES


def gen_set(rng, hid, tier, exhaust=False):
    lines = ["PS %d" % hid]
    if exhaust:
        cls_size = rng.choice([129, 161, 200])
        nxt = {129: 161, 161: 200, 200: 256}[cls_size]
        # live buffers in the low slots of the NEXT class first (a free list that outgrows its
        # storage would clobber them), then exhaust the class, release more than a quarter of
        # it, refill beyond capacity (arena fallback), release everything of that class again
        for _ in range(12):
            lines.append("a %d" % nxt)
        for _ in range(515):
            lines.append("a %d" % cls_size)
        for _ in range(200):
            lines.append("f %d" % rng.randint(0, 500))
        for _ in range(230):
            lines.append("a %d" % cls_size)
        for _ in range(560):
            lines.append("f 0")
        return lines
    for _ in range(rng.randint(4, 80 if tier == "quick" else 250)):
        r = rng.random()
        if r < 0.5:
            lines.append("a %d" % (rng.choice(BOUNDARY) if rng.random() < 0.75 else rng.randint(0, 400)))
        elif r < 0.85:
            lines.append("f %d" % rng.randint(0, 30))
        elif r < 0.93:
            ends = block_edges()
            lines.append("c %d" % rng.choice([0, 8, rng.choice(ends) - 1, rng.choice(ends), rng.choice(ends) + 1, 1400000, rng.randint(0, 1500000), rng.randint(0, 4 << 20)]))
        else:
            lines.append("k %d" % (rng.choice(BOUNDARY) if rng.random() < 0.7 else rng.randint(0, 100000)))
    return lines


# ---------------------------------------------------------------------------------------------
# client stream: the CONTENT-writing entry point PoolSet::alloc_str, reached the only way the
# crate reaches it (Value::promote of a computed string stored into a variable / array element /
# function local).  Strings of length slot-1 / slot / slot+1 for every class, several live
# neighbours of the same class, every live string re-read after every store; the expectation is
# computed here from plain string semantics (no model involved).

def _pat(tagch, serial, n):
    """n recognisable bytes: first byte identifies the variable, then a serial number, then a ramp."""
    base = "%s%d" % (tagch, serial)
    ramp = "abcdefghijklmnopqrstuvwxyzABCDEFGHIJKLMNOPQRSTUVWXYZ0123456789"
    t = base
    i = 0
    while len(t) < n:
        t += ramp[(i + serial) % len(ramp)]
        i += 1
    return t[:n]


def gen_client(rng, cid, ssz, shape, sizes):
    """-> (case id, source, expected printed strings).  shape: 'vars' | 'func' | 'array'."""
    K = rng.randint(4, 6)
    names = ["v%s" % "abcdef"[i] for i in range(K)]
    tagch = "PQRSTU"
    serial = [0]
    expected = []
    body = []
    lens_below = [x for x in range(max(1, ssz - 7), ssz + 1)]
    upper = [ssz + 1] if ssz + 1 <= 300 else []

    def computed(i, L, nexpr, nval):
        """an expression whose value has exactly L bytes and is built at run time"""
        serial[0] += 1
        if L <= len(nval):
            L = len(nval) + 1
        lit = _pat(tagch[i], serial[0], L - len(nval))
        return '"%s" add to_string(%s)' % (lit, nexpr), lit + nval

    def emit(nexpr, nval):
        cur = {}
        out = []
        exp = []
        ref = (lambda i: names[i]) if shape != "array" else (lambda i: "arr[%d]" % i)
        if shape == "array":
            items = []
            for i in range(K):
                e, v = computed(i, rng.choice(lens_below), nexpr, nval)
                items.append(e)
                cur[i] = v
            out.append("make arr get [%s]" % ", ".join(items))
        else:
            for i in range(K):
                e, v = computed(i, rng.choice(lens_below), nexpr, nval)
                out.append("make %s get %s" % (names[i], e))
                cur[i] = v
        steps = []
        for i in range(K):
            steps += [(i, ssz - 1), (i, ssz)] + [(i, u) for u in upper]
        # exact fit first for every variable (each lands in a recycled slot between live
        # neighbours), then the shuffled rest, then exact fit again after the class moves
        order = [(i, ssz) for i in range(K)]
        rng.shuffle(steps)
        order += steps + [(i, ssz) for i in reversed(range(K))]
        for (i, L) in order:
            e, v = computed(i, L, nexpr, nval)
            out.append("%s get %s" % (ref(i), e))
            cur[i] = v
            for j in range(K):
                out.append("shout(%s)" % ref(j))
                exp.append(cur[j])
        return out, exp

    if shape == "func":
        lines, e1 = emit("k", "7")
        src = ["do work(k) start"] + ["    " + l for l in lines] + ["    return k", "end"]
        src += ["make r get work(7)", "r get work(7)", "shout(r)"]
        expected = e1 + e1 + ["\x00NUM7"]
    else:
        lines, e1 = emit("n", "1")
        src = ["make n get 1"] + lines
        expected = e1
    return ("cl%d_%d_%s" % (cid, ssz, shape), "\n".join(src) + "\n", expected)


def client_stream(env):
    """Runs the client programs through the real pipeline (nsverif lang) and compares every
    printed string with the expectation.  Returns (evaluations, failures, info)."""
    import json
    import langrun
    t = json.load(open(os.path.join(common.BUILD, "tables.json")))
    sizes = t["slot_sizes"]
    rng = env.rng
    cases = []
    reps = 1 if env.tier == "quick" else 6
    cid = 0
    for _ in range(reps):
        for ssz in sizes:
            for shape in ("vars", "func", "array"):
                cid += 1
                cases.append(gen_client(rng, cid, ssz, shape, sizes))
    cfgs = ["nn", "pf"] if env.tier == "quick" else ["nn", "pn", "nf", "pf"]
    recs = langrun.run_impl(env, "c12client", [(c[0], c[1]) for c in cases], cfgs)
    failures = []
    stores = 0
    for (cid_, src, exp) in cases:
        stores += src.count(" get ")
        r = recs.get(cid_) or {}
        want = " ".join(("n:401c000000000000" if e == "\x00NUM7" else "s:" + e.encode().hex()) for e in exp)
        for cfg in cfgs:
            ending, vals = (r.get("runs") or {}).get(cfg, ("missing", ""))
            if ending == "ok" and vals == want:
                continue
            got = vals.split()
            w = want.split()
            k = next((i for i in range(min(len(got), len(w))) if got[i] != w[i]), min(len(got), len(w)))
            failures.append({
                "key": "client:" + common.chash(src + cfg), "case": {"id": cid_, "source": src, "cfg": cfg},
                "observed": "a live string read back differently after a store of another string (ending %s, first "
                            "difference at printed value %d: got %s, expected %s)"
                            % (ending, k, got[k] if k < len(got) else "<nothing>", w[k] if k < len(w) else "<nothing>"),
                "expected_values": want})
            break
        if len(failures) >= 3:
            break
    return len(cases) * len(cfgs), failures, {"client_programs": len(cases), "client_configs": cfgs,
                                                "client_stores_followed_by_full_reread": stores}


def pool_api(env):
    """pub / pub(crate) functions of pool.rs (regenerated by translator/gen_poolstr.py) and the
    stream that exercises each one; an entry point nobody exercises is listed as such."""
    import json
    p = os.path.join(common.BUILD, "pool_api.json")
    if not os.path.exists(p):
        return {}
    api = json.load(open(p))
    how = {
        "PoolSet::new": "pool-history (PS header)", "PoolSet::alloc": "pool-history (a)",
        "PoolSet::dealloc": "pool-history (f)", "PoolSet::contains": "pool-history (c)",
        "PoolSet::alloc_str": "client stream (computed strings through the interpreter) + C12_alloc_str_* over the regenerated body",
        "PoolSet::arena": "accessor; client stream (promote reads it)",
    }
    return {"entry_points": {a["name"]: how.get(a["name"], "NOT EXERCISED") for a in api["pub"]},
            "private_fns": api["all"], "alloc_str_extra_stores": api["alloc_str_extra_stores"]}


def flags(lines):
    return sorted({w for l in (lines or []) for w in FLAGS if w in l})


def shadow_flags(hist, out_lines):
    """Independent reading of the property on the implementation's own output for a PoolSet
    history (needs no Coq model): a pooled buffer lies in the block of ITS size class, the
    class counters obey live + free + never-used = capacity at every step, live equals the
    number of pooled buffers of that class the client holds, and a request served while the
    class is exhausted comes from the arena."""
    import json
    if not hist or not hist[0].startswith("PS "):
        return []
    t = json.load(open(os.path.join(common.BUILD, "tables.json")))
    sizes, counts = t["slot_sizes"], t["slot_counts"]
    edges = block_edges()

    def cls(n):
        for i, sz in enumerate(sizes):
            if n <= sz:
                return i
        return None
    live = []          # (class or None, pooled?, addr)
    bad = set()
    for op, line in zip(hist[1:], out_lines[1:]):
        w = op.split()
        o = line.split()
        if w[0] == "a" and o and o[0] in ("pool", "arena"):
            c = cls(int(w[1]))
            pooled = o[0] == "pool"
            addr = int(o[1])
            if pooled:
                if c is None or not (edges[2 * c] <= addr < edges[2 * c + 1]):
                    bad.add("WRONG-CLASS")
            held = sum(1 for (c2, p2, _) in live if p2 and c2 == c)
            if c is not None and not pooled and held < counts[c]:
                bad.add("FALLBACK-WHILE-FREE")
            if c is not None and pooled and held >= counts[c]:
                bad.add("OVERCOMMIT")
            live.insert(0, (c, pooled, addr))
        elif w[0] == "f" and o and o[0] == "freed":
            k = int(w[1]) % len(live)
            live.pop(k)
        if "|" in o:
            tail = o[o.index("|") + 1:]
            if len(tail) >= 5 and tail[0] != "-":
                c, l, f, b = (int(x) for x in tail[:4])
                if l + f + (counts[c] - b) != counts[c]:
                    bad.add("CONSERVATION")
                if l != sum(1 for (c2, p2, _) in live if p2 and c2 == c):
                    bad.add("LIVE-COUNT")
    return sorted(bad)


def correspond(env, searching=False, model=True):
    n = 300 if env.tier == "quick" else 6000
    if searching:
        n *= 3
    profiles = [False] if env.tier == "quick" else [False, True]
    if env.tier == "thorough":
        ok, out = common.build_harness(release=True)
        if not ok:
            raise RuntimeError("release harness build failed: " + out[-2000:])
    rng = env.rng
    hists = []
    # exhaustive size_class sweep first (finite domain of interest 0..600) + exhaustion history
    hists.append(["PS 0"] + ["k %d" % i for i in range(0, 600)])
    hists.append(gen_set(rng, 1, env.tier, exhaust=True))
    while len(hists) < n:
        if rng.random() < 0.5:
            hists.append(gen_small(rng, len(hists), env.tier))
        else:
            hists.append(gen_set(rng, len(hists), env.tier))
    for i, h in enumerate(hists):
        h[0] = " ".join([h[0].split()[0], str(i)] + h[0].split()[2:])
    failures, disagreements, samples = [], [], []
    evaluations = 0
    nontrivial = set()
    hist_kinds = {"P": 0, "PS": 0}
    is_h = lambda l: l.startswith("P ") or l.startswith("PS ")
    for release in profiles:
        dbg = "0" if release else "1"
        shard = 500
        for s0 in range(0, len(hists), shard):
            part = hists[s0:s0 + shard]
            text = "\n".join("\n".join(h) for h in part) + "\n"
            li, lm, err = common.run_both(env, "p%d_%d" % (int(release), s0), "pool", text, [dbg], release)
            if li is None:
                for h in part:
                    l1, _, e = common.run_both(env, "single", "pool", "\n".join(h) + "\n", [dbg], release)
                    if l1 is None:
                        small = common.ddmin_lines(h, lambda c: common.run_both(env, "shr", "pool", "\n".join(c) + "\n", [dbg], release)[0] is None)
                        failures.append({"key": "crash:" + common.chash("\n".join(small)), "history": small,
                                         "observed": "implementation panicked/aborted: " + e[-400:],
                                         "profile": "release" if release else "debug"})
                        break
                continue
            if lm is None:
                disagreements.append({"stream": "pool-history", "error": err})
                continue
            gi = common.group_by_header(li, is_h)
            gm = common.group_by_header(lm, is_h)
            for h, a, b in zip(part, gi, gm):
                evaluations += 1
                hist_kinds[h[0].split()[0]] += 1
                fl = flags(a) + shadow_flags(h, a)
                if a != b or fl:
                    if not fl and len(disagreements) >= 2:
                        disagreements.append({"stream": "pool-history", "history": h[:3] + ["..."]})
                        continue

                    def pred(c, want=bool(fl)):
                        x, y, _ = common.run_both(env, "shr", "pool", "\n".join(c) + "\n", [dbg], release)
                        if x is None:
                            return False
                        return bool(flags(x) + shadow_flags(c, x)) if want else x != y
                    small = common.ddmin_lines(h, pred)
                    x, y, _ = common.run_both(env, "shr", "pool", "\n".join(small) + "\n", [dbg], release)
                    rec = {"history": small, "impl": x, "model": y, "profile": "release" if release else "debug"}
                    if fl:
                        rec["key"] = "oracle:" + common.chash("\n".join(small))
                        rec["observed"] = "ownership oracle on the implementation: " + ",".join(fl)
                        failures.append(rec)
                        break
                    rec["stream"] = "pool-history"
                    disagreements.append(rec)
                else:
                    ops = [l.split()[0] for l in h[1:]]
                    reused = any(l.startswith("freed") for l in a) and ops.count("a") >= 2
                    if reused:
                        nontrivial.add(common.chash("\n".join(h[1:])))
                    if len(samples) < 3 and len(h) < 12 and reused:
                        samples.append({"history": h, "impl_output": a})
            if failures:
                break
    client_info = {}
    if not failures:
        n_cl, cl_fail, client_info = client_stream(env)
        evaluations += n_cl
        failures += cl_fail
        if not cl_fail:
            nontrivial.add("client-stream:%d" % client_info["client_stores_followed_by_full_reread"])
    client_info.update(pool_api(env))
    return {
        "evaluations": evaluations,
        "distinct_nontrivial": len(nontrivial),
        "rule": "random histories on small single-class pools (1-8 slots) and on the real 20-class PoolSet (boundary sizes "
                "0/8/9/128/129/160/161/256/257, exhaustion of a 512-slot class and refill, contains/size_class queries; size_class "
                "swept exhaustively over 0..599); non-trivial = distinct history with at least one release followed by reuse; "
                "returned addresses (relative), lengths, origin, the three counters and the arena offset compared with the extracted "
                "model; overlap/clobber oracle on live buffers (full contents) checked on the implementation after every op; "
                "client stream: programs storing computed strings of length slot-1/slot/slot+1 for each of the 20 classes into "
                "4-6 neighbouring variables / function locals / array elements (PoolSet::alloc_str), all live strings re-read "
                "after every store and compared with plain string semantics",
        "samples": samples,
        "failures": failures,
        "disagreements": disagreements,
        "extra": {"history_kinds": hist_kinds, "profiles": ["debug"] + (["release"] if env.tier == "thorough" else []),
                  "exhaustive": False, **client_info},
    }


def replay(env, payload):
    common.refresh_tables()
    common.build_nsmodel()
    case = payload.get("case") or (payload.get("disagreements") or [{}])[0]
    inner = case.get("case") if isinstance(case.get("case"), dict) else case
    if inner.get("source"):
        import langrun
        common.build_harness()
        r = langrun.run_impl(env, "c12replay", [("r", inner["source"])], [inner["cfg"]]).get("r") or {}
        ending, vals = (r.get("runs") or {}).get(inner["cfg"], ("missing", ""))
        bad = not (ending == "ok" and vals == case.get("expected_values"))
        print("ending %s; printed values %s the expectation" % (ending, "differ from" if bad else "equal"))
        print("replay: %s" % ("still failing" if bad else "passes now"))
        return 1 if bad else 0
    hist = case.get("history")
    if not hist:
        print("replay: no concrete history in this file (obligations: %s)" % payload.get("no_longer_checks"))
        return 1
    release = case.get("profile") == "release"
    if release:
        common.build_harness(release=True)
    li, lm, err = common.run_both(env, "replay", "pool", "\n".join(hist) + "\n", ["0" if release else "1"], release)
    print("impl:\n" + "\n".join(li or ["<crashed> " + err]))
    print("model:\n" + "\n".join(lm or ["<failed>"]))
    bad = li is None or li != lm or bool(flags(li) + shadow_flags(hist, li))
    print("replay: %s" % ("still failing" if bad else "passes now"))
    return 1 if bad else 0
