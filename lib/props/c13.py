"""C13 — string built-ins: function-level correspondence between theories/StrLib.v
(extracted) and src/builtins/{tw,replace,string,array}.rs, plus an independent Python
reading of the specification used as the property oracle on the implementation."""
import itertools
import math
import os
import common

TRUSTED_EXTRA = [
    "C13: memchr-rs modelled by its specification; str::split / str::trim / chars() are std functions modelled by their specification (split on leftmost non-overlapping occurrences; Unicode White_Space); to_uppercase/to_lowercase/to_number are std calls with no model (not covered)",
]
ASSUMPTIONS = ["inputs are valid UTF-8 (they are &str in the implementation)"]

WS = set(list(range(9, 14)) + [32, 133, 160, 5760] + list(range(8192, 8203)) + [8232, 8233, 8239, 8287, 12288])


def hx(b):
    return b.hex() if b else "-"


def spec(case):
    """Python reading of the documented behaviour. Returns the canonical output line."""
    t = case.split()
    un = lambda s: b"" if s == "-" else bytes.fromhex(s)
    if t[0] == "find":
        i = un(t[1]).find(un(t[2]))
        return "found %d" % i if i >= 0 else "notfound"
    if t[0] == "replace":
        h, f, to = un(t[1]), un(t[2]), un(t[3])
        if f:
            return "str " + hx(h.replace(f, to))
        return "str " + hx(h.decode().replace("", to.decode()).encode())
    if t[0] == "split":
        s, sep = un(t[1]), un(t[2])
        parts = s.split(sep) if sep else [b""] + [c.encode() for c in s.decode()] + [b""]
        return "arr " + ",".join(hx(p) for p in parts)
    if t[0] == "splitjoin":
        return "str " + hx(un(t[1]))
    if t[0] == "len":
        return "num %d" % len(un(t[1]).decode())
    if t[0] == "slice":
        cs = un(t[1]).decode()
        n = len(cs)

        def conv(x):
            f = float(x)
            if math.isnan(f):
                return 0
            f = math.floor(f) if not math.isinf(f) else f
            if f >= 2 ** 62:
                return 2 ** 62
            if f <= -2 ** 62:
                return -2 ** 62
            return int(f)
        a, b = conv(t[2]), conv(t[3])
        if a < 0:
            a += n
        if b < 0:
            b += n
        a, b = max(0, min(a, n)), max(0, min(b, n))
        return "str " + hx(cs[a:b].encode() if a < b else b"")
    if t[0] == "trim":
        cs = un(t[1]).decode()
        i, j = 0, len(cs)
        while i < j and ord(cs[i]) in WS:
            i += 1
        while j > i and ord(cs[j - 1]) in WS:
            j -= 1
        return "str " + hx(cs[i:j].encode())
    if t[0] == "ws":
        lo, hi = int(t[1]), int(t[2])
        return "ws" + "".join(" %d" % c for c in sorted(WS) if lo <= c < hi)
    raise ValueError(case)


def words(alpha, maxlen):
    for k in range(maxlen + 1):
        for w in itertools.product(alpha, repeat=k):
            yield b"".join(w)


def long_needles(rng, count):
    out = []
    units = [b"a", b"ab", b"aab", b"abc", b"abab", b"aba", "é".encode(), "aé".encode(), b"ba", b"abcab"]
    for _ in range(count):
        u = rng.choice(units)
        L = rng.randint(17, 40)
        n = (u * (L // len(u) + 1))[:L]
        if u[0] >= 0x80 or b"\xc3" in u:
            # keep UTF-8 well formed: cut on the unit boundary
            n = u * max(1, L // len(u))
            if len(n) < 17:
                n = n + b"a" * (17 - len(n))
        if rng.random() < 0.5:
            k = rng.randrange(len(n))
            if n[k] < 0x80:
                n = n[:k] + rng.choice([b"b", b"c", b"a"]) + n[k + 1:]
        pre = (rng.choice(units) * rng.randint(0, 20))[:rng.randint(0, 40)]
        if b"\xc3" in pre or b"\xa9" in pre:
            pre = pre.decode("utf-8", "ignore").encode()
        post = rng.choice([b"", b"a", b"ab", n[:5].decode("utf-8", "ignore").encode()])
        mode = rng.random()
        if mode < 0.5:
            h = pre + n + post
        elif mode < 0.7:
            h = pre + n[:-1].decode("utf-8", "ignore").encode() + post + n
        else:
            h = pre + (n[:-1].decode("utf-8", "ignore").encode()) * 2 + post
        out.append((h, n))
    return out


def gen_cases(env):
    rng = env.rng
    quick = env.tier == "quick"
    cases = []
    hl, nl = (8, 4) if quick else (12, 6)
    ab = [b"a", b"b"]
    needles = list(words(ab, nl))
    hay = list(words(ab, hl))
    if quick:
        hay = hay[::3] + hay[-40:]
    for h in hay:
        for n in needles:
            cases.append("find %s %s" % (hx(h), hx(n)))
    exhaustive_find = len(cases)
    # multi-byte alphabet
    abe = [b"a", b"b", "é".encode()]
    hm, nm = (5, 2) if quick else (7, 3)
    for h in words(abe, hm):
        for n in words(abe, nm):
            cases.append("find %s %s" % (hx(h), hx(n)))
            if rng.random() < 0.3:
                cases.append("replace %s %s %s" % (hx(h), hx(n), hx(rng.choice([b"", b"x", n + n, "é".encode()]))))
            if rng.random() < 0.2:
                cases.append("split %s %s" % (hx(h), hx(n)))
                cases.append("splitjoin %s %s" % (hx(h), hx(n)))
    # replace/split on the two-letter alphabet (overlapping patterns)
    for h in words(ab, 7 if quick else 10):
        if rng.random() < (0.5 if quick else 0.3):
            n = rng.choice(needles)
            cases.append("replace %s %s %s" % (hx(h), hx(n), hx(rng.choice([b"", b"a", b"ab", n + b"b"]))))
            cases.append("split %s %s" % (hx(h), hx(n)))
    # long needles (> SIMD_THRESHOLD): find, replace
    for h, n in long_needles(rng, 2000 if quick else 100000):
        cases.append("find %s %s" % (hx(h), hx(n)))
        if rng.random() < 0.2:
            cases.append("replace %s %s %s" % (hx(h), hx(n), hx(b"X")))
    # slice / len / trim
    texts = ["", "a", "héllo", "日本語テキスト", "a🌎b", " \t x  ", " pad　", "ab" * 20]
    bounds = ["0", "-0", "0.5", "-0.5", "1", "-1", "2", "-2", "3.9", "-3.1", "100", "-100", "1e18", "-1e18", "nan", "inf", "-inf"]
    for s in texts:
        b = s.encode()
        cases.append("len %s" % hx(b))
        cases.append("trim %s" % hx(b))
        for a in bounds:
            for c in bounds:
                if quick and rng.random() < 0.5:
                    continue
                cases.append("slice %s %s %s" % (hx(b), a, c))
    for cp in sorted(WS) + [0x1c, 0x1f, 0x200b, 0x180e, 0xfeff]:
        cases.append("trim %s" % hx((chr(cp) + "x" + chr(cp)).encode()))
    cases.append("ws 0 1114112")
    return cases, exhaustive_find


def bisect_bad(env, part, release):
    lo, hi = 0, len(part)
    while hi - lo > 1:
        mid = (lo + hi) // 2
        li, _, _ = common.run_both(env, "bis", "strlib", "\n".join(part[lo:mid]) + "\n", [], release, timeout=20)
        if li is None:
            hi = mid
        else:
            lo = mid
    return part[lo]


def correspond(env, searching=False, model=True):
    cases, exhaustive_find = gen_cases(env)
    corpus = os.path.join(common.VERIF, "gen", "corpus", "C13")
    pre = []
    if os.path.isdir(corpus):
        for fn in sorted(os.listdir(corpus)):
            pre += [l for l in open(os.path.join(corpus, fn)).read().splitlines() if l.strip()]
    cases = pre + cases
    profiles = [False] if env.tier == "quick" else [False, True]
    if env.tier == "thorough":
        ok, out = common.build_harness(release=True)
        if not ok:
            raise RuntimeError("release harness build failed")
    failures, disagreements, samples = [], [], []
    nontrivial = set()
    evaluations = 0
    kinds = {}
    for release in profiles:
        shard = 40000
        for s0 in range(0, len(cases), shard):
            part = cases[s0:s0 + shard]
            li, lm, err = common.run_both(env, "s%d_%d" % (int(release), s0), "strlib", "\n".join(part) + "\n", [], release, timeout=120)
            if li is None:
                # the implementation died or hung on this shard: bisect to the case
                bad = bisect_bad(env, part, release)
                failures.append({"key": "hang-or-crash:" + common.chash(bad), "case": bad,
                                 "observed": "implementation did not terminate normally (timeout/abort): " + err[-200:],
                                 "expected_by_spec": spec(bad), "profile": "release" if release else "debug"})
                continue
            if lm is None:
                disagreements.append({"stream": "strlib", "error": err})
                continue
            for c, a, b in zip(part, li, lm):
                evaluations += 1
                k = c.split()[0]
                kinds[k] = kinds.get(k, 0) + 1
                want = spec(c)
                if a != want:
                    key = "spec:" + c if len(c) < 200 else "spec:" + common.chash(c)
                    if a.startswith("PANIC") and c.startswith(("find", "replace")):
                        n = c.split()[2]
                        if len(n) // 2 > 16:
                            key = "long-needle-panic"
                    if len([f for f in failures if f["key"] == key]) == 0:
                        failures.append({"key": key, "case": c, "observed": a, "expected_by_spec": want,
                                         "model": b, "profile": "release" if release else "debug"})
                elif a != b:
                    if len(disagreements) < 5:
                        disagreements.append({"stream": "strlib", "case": c, "impl": a, "model": b})
                    else:
                        disagreements.append({"stream": "strlib"})
                else:
                    if a not in ("notfound", "str -", "arr -") :
                        nontrivial.add(common.chash(c))
                    if len(samples) < 4 and evaluations % 7919 == 0:
                        samples.append({"case": c, "output": a})
    if not samples:
        samples = [{"case": cases[len(cases) // 2], "output": spec(cases[len(cases) // 2])}]
    return {
        "evaluations": evaluations,
        "distinct_nontrivial": len(nontrivial),
        "rule": "bounded-exhaustive (haystack,needle) pairs over {a,b} and {a,b,é}, generated periodic / near-periodic needles of 17-40 bytes, "
                "replace/split/split+join on the same sets, slice over a pool of bounds (0, ±0.5, ±1, huge, NaN, ±inf) x texts with multi-byte "
                "characters, trim over every White_Space code point, plus a sweep of all code points for the trim whitespace set; each case run on the "
                "implementation, the extracted model and an independent Python reading of the specification; non-trivial = distinct case with a non-empty / found result",
        "samples": samples,
        "failures": failures,
        "disagreements": disagreements,
        "extra": {"case_kinds": kinds, "exhaustive_find_pairs": exhaustive_find, "exhaustive": False,
                  "profiles": ["debug"] + (["release"] if env.tier == "thorough" else [])},
    }


def replay(env, payload):
    common.refresh_tables()
    common.build_nsmodel()
    case = payload.get("case") or (payload.get("disagreements") or [{}])[0]
    c = case.get("case")
    if not c:
        print("replay: no concrete case in this file (obligations: %s)" % payload.get("no_longer_checks"))
        return 1
    li, lm, err = common.run_both(env, "replay", "strlib", c + "\n", [], False)
    print("case: %s\nimpl: %s\nmodel: %s\nspec: %s" % (c, li, lm, spec(c)))
    bad = li is None or li[0] != spec(c) or li != lm
    print("replay: %s" % ("still failing" if bad else "passes now"))
    return 1 if bad else 0
