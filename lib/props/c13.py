"""C13 — string built-ins: function-level correspondence between theories/StrLib.v
(extracted) and src/builtins/{tw,replace,string,array}.rs, plus an independent Python
reading of the specification used as the property oracle on the implementation."""
import itertools
import json
import math
import os
import re
import struct
import unicodedata
from decimal import Decimal
import common

TRUSTED_EXTRA = [
    "C13: memchr-rs modelled by its specification; str::split / str::trim / chars() are std functions modelled by their specification (split on leftmost non-overlapping occurrences; Unicode White_Space)",
    "C13: to_number: std's dec2flt (fast path, Eisel-Lemire, big-decimal fallback) is modelled by its grammar (transcribed) and by correct rounding of the exact decimal (theories/NumParse.v); that std computes the correctly rounded value is validated by correspondence against rustc, not proved; numerals whose exponent literal is >= 65536 AND that are longer than 65 000 bytes are outside the validated domain (std saturates the exponent while scanning)",
    "C13: to_uppercase/to_lowercase: the mapping tables are regenerated from the toolchain's library/core/src/unicode/unicode_data.rs by translator/gen_unicode.py and the lookup is transcribed (theories/CaseMap.v); validated against rustc on every scalar value on each run",
    "C13: Python oracle for case mapping: per-character str.upper()/str.lower() of CPython's unicodedata (an older Unicode version than rustc's); used as the reference on every code point where it is defined for both versions; differences are accepted only when the source or an image character is unassigned in Python's Unicode version (listed in the evidence under extra.case_python_version_diffs)",
]
ASSUMPTIONS = ["inputs are valid UTF-8 (they are &str in the implementation)"]

WS = set(list(range(9, 14)) + [32, 133, 160, 5760] + list(range(8192, 8203)) + [8232, 8233, 8239, 8287, 12288])


def hx(b):
    return b.hex() if b else "-"


def spec(case, caseref=None):
    """Python reading of the documented behaviour. Returns the canonical output line."""
    t = case.split()
    un = lambda s: b"" if s == "-" else bytes.fromhex(s)
    if t[0] == "tonum":
        return "num " + spec_to_number(un(t[1]))
    if t[0] == "roundtrip":
        x = struct.unpack(">d", bytes.fromhex(t[1]))[0]
        return "txt %s num %s" % (hx(display_f64(x).encode()), f64_bits(x))
    if t[0] in ("upper", "lower"):
        ref = caseref or CaseRef()
        return "str " + hx(ref.map_text(un(t[1]).decode(), t[0] == "upper").encode())
    if t[0] == "find":
        i = un(t[1]).find(un(t[2]))
        return "found %d" % i if i >= 0 else "notfound"
    if t[0] == "replace":
        h, f, to = un(t[1]), un(t[2]), un(t[3])
        if f:
            return "str " + hx(h.replace(f, to))
        return "str " + hx(h.decode().replace("", to.decode()).encode())
    if t[0] == "split":
        s, sep = un(t[1]), un(t[2])
        parts = s.split(sep) if sep else [b""] + [c.encode() for c in s.decode()] + [b""]
        return "arr " + ",".join(hx(p) for p in parts)
    if t[0] == "splitjoin":
        return "str " + hx(un(t[1]))
    if t[0] == "len":
        return "num %d" % len(un(t[1]).decode())
    if t[0] == "slice":
        cs = un(t[1]).decode()
        n = len(cs)

        def conv(x):
            f = float(x)
            if math.isnan(f):
                return 0
            f = math.floor(f) if not math.isinf(f) else f
            if f >= 2 ** 62:
                return 2 ** 62
            if f <= -2 ** 62:
                return -2 ** 62
            return int(f)
        a, b = conv(t[2]), conv(t[3])
        if a < 0:
            a += n
        if b < 0:
            b += n
        a, b = max(0, min(a, n)), max(0, min(b, n))
        return "str " + hx(cs[a:b].encode() if a < b else b"")
    if t[0] == "trim":
        cs = un(t[1]).decode()
        i, j = 0, len(cs)
        while i < j and ord(cs[i]) in WS:
            i += 1
        while j > i and ord(cs[j - 1]) in WS:
            j -= 1
        return "str " + hx(cs[i:j].encode())
    if t[0] == "ws":
        lo, hi = int(t[1]), int(t[2])
        return "ws" + "".join(" %d" % c for c in sorted(WS) if lo <= c < hi)
    raise ValueError(case)


# ----------------------------------------------------------------------------
# to_number: explicit reading of the grammar of Rust's `f64::from_str` (on bytes, so that no
# Unicode digit / case-folding rule of Python's `re` or `float` can leak in), then the value by
# Python's correctly rounded `float()` of the (pure ASCII, already validated) numeral.
_NUM = re.compile(rb"\A[+-]?(?:(?:[0-9]+(?:\.[0-9]*)?|\.[0-9]+)(?:[eE][+-]?[0-9]+)?)\Z")
_INF = re.compile(rb"\A[+-]?(?:[iI][nN][fF]|[iI][nN][fF][iI][nN][iI][tT][yY])\Z")
_NAN = re.compile(rb"\A[+-]?[nN][aA][nN]\Z")
NAN_BITS = "7ff8000000000000"


def f64_bits(x):
    if x != x:
        return NAN_BITS
    return "%016x" % struct.unpack(">Q", struct.pack(">d", x))[0]


def spec_to_number(b):
    if _NUM.match(b):
        return f64_bits(float(b.decode("ascii")))
    if _INF.match(b):
        return f64_bits(float("-inf") if b[:1] == b"-" else float("inf"))
    return NAN_BITS     # "nan" in any case, and every parse error


def display_f64(x):
    """Rust's `{}` for f64: the shortest digit string that parses back to x, the candidate nearest to
    the exact value when two of that length do (an exact tie goes up in magnitude — Rust's
    Grisu/Dragon, unlike Python's repr which breaks that tie to even), positional notation without
    exponent and without a trailing `.0`.  The digit count comes from repr(), the choice from exact
    decimal arithmetic and from float() as the parse-back test."""
    if x != x:
        return "NaN"
    if x in (float("inf"), float("-inf")):
        return "inf" if x > 0 else "-inf"
    if x == 0:
        return "-0" if math.copysign(1.0, x) < 0 else "0"
    import decimal
    ctx = decimal.Context(prec=1200, rounding=decimal.ROUND_DOWN)
    ax = abs(x)
    exact = Decimal(ax)
    r = repr(ax)
    mant = r.split("e")[0].replace(".", "").lstrip("0").rstrip("0") or "0"
    n = len(mant)
    k = exact.adjusted()                       # position of the first significant digit
    unit = Decimal(1).scaleb(k - n + 1, ctx)
    lo = (exact / unit).to_integral_value(rounding=decimal.ROUND_FLOOR) * unit
    cands = [c for c in (lo, lo + unit) if c > 0 and float(c) == ax]
    if len(cands) == 2:
        dl, dh = exact - cands[0], cands[1] - exact
        best = cands[0] if dl < dh else cands[1]
    elif cands:
        best = cands[0]
    else:
        best = Decimal(r)
    t = format(best, "f")
    if "." in t:
        t = t.rstrip("0").rstrip(".")
    return ("-" if x < 0 else "") + t


# ----------------------------------------------------------------------------
# case mapping: per-character reference from CPython's unicodedata, reconciled with the full
# sweep of the implementation (see TRUSTED_EXTRA)
def py_assigned(cp):
    return unicodedata.category(chr(cp)) != "Cn"


def py_case(cp):
    c = chr(cp)
    return [ord(x) for x in c.upper()], [ord(x) for x in c.lower()]


class CaseRef:
    """Expected per-code-point mappings: Python's, except on code points where the implementation
    differs only because of characters unassigned in Python's Unicode version."""
    def __init__(self):
        self.over_u, self.over_l = {}, {}
        self.diffs = []

    def upper(self, cp):
        return self.over_u.get(cp) or py_case(cp)[0]

    def lower(self, cp):
        return self.over_l.get(cp) or py_case(cp)[1]

    def map_text(self, text, up):
        out = []
        for ch in text:
            out += self.upper(ord(ch)) if up else self.lower(ord(ch))
        return "".join(chr(c) for c in out)


def parse_casemap_line(line):
    """'cm cp:u.u:l ...' -> {cp: (upper seq, lower seq)}"""
    d = {}
    for ent in line.split()[1:]:
        cp, u, l = ent.split(":")
        d[int(cp, 16)] = ([int(x, 16) for x in u.split(".")], [int(x, 16) for x in l.split(".")])
    return d


def excusable(cp, want, got):
    """A difference between Python's (older Unicode) and the implementation's mapping that is
    explained by the version gap: the source or an image character did not exist for Python."""
    return (not py_assigned(cp)) or any(not py_assigned(c) for c in got)


def casemap_spec_line(lo, hi):
    o = ["cm"]
    for cp in range(lo, hi):
        if 0xD800 <= cp <= 0xDFFF:
            continue
        u, l = py_case(cp)
        if u != [cp] or l != [cp]:
            o.append("%x:%s:%s" % (cp, ".".join("%x" % c for c in u), ".".join("%x" % c for c in l)))
    return " ".join(o)


CASE_CHUNK = 0x4000


def run_case_sweep(env, release, model=True):
    """Full sweep 0..0x10FFFF through the built-ins (and the model).  Returns (CaseRef, failures,
    disagreements, stats)."""
    cases = ["casemap %d %d" % (lo, min(lo + CASE_CHUNK, 0x110000)) for lo in range(0, 0x110000, CASE_CHUNK)]
    # the implementation is swept completely on every run; the extracted model completely in the thorough
    # tier, and in the quick tier on planes 0-1 (where every mapping lives) plus a random sample of the
    # chunks of planes 2-16 (the model is ~16 us per code point there: 15 s for the identity part)
    if env.tier == "quick":
        hi_chunks = [c for c in cases if int(c.split()[1]) >= 0x20000]
        mcases = [c for c in cases if int(c.split()[1]) < 0x20000] + env.rng.sample(hi_chunks, 6)
    else:
        mcases = cases
    inp = os.path.join(env.work, "casefull%d.in" % int(release))
    outp = os.path.join(env.work, "casefull%d.impl" % int(release))
    open(inp, "w").write("\n".join(cases) + "\n")
    rc, o = common.sh([common.harness_bin(release), "strlib", inp, outp], timeout=600)
    li = open(outp).read().splitlines() if rc == 0 and os.path.exists(outp) else None
    err = o[-300:] if rc else ""
    lm_by_case = {}
    if model and li is not None:
        li2, lm, err2 = common.run_both(env, "case%d" % int(release), "strlib", "\n".join(mcases) + "\n", [], release, timeout=900)
        if lm is not None and len(lm) == len(mcases):
            lm_by_case = dict(zip(mcases, lm))
        else:
            err = err2
    ref = CaseRef()
    failures, disagreements = [], []
    stats = {"code_points": 0x110000 - 0x800, "upper_non_identity": 0, "lower_non_identity": 0, "multi_char": 0,
             "python_agrees": 0, "version_diffs": 0, "model_lines_equal": 0, "model_chunks": len(mcases), "chunks": len(cases)}
    if li is None:
        failures.append({"key": "casemap-crash", "case": "casemap 0 1114112", "observed": err[-300:]})
        return ref, failures, disagreements, stats
    for idx, c in enumerate(cases):
        lo, hi = int(c.split()[1]), int(c.split()[2])
        got = parse_casemap_line(li[idx])
        for cp in range(lo, hi):
            if 0xD800 <= cp <= 0xDFFF:
                continue
            wu, wl = py_case(cp)
            gu, gl = got.get(cp, ([cp], [cp]))
            if gu != [cp]:
                stats["upper_non_identity"] += 1
            if gl != [cp]:
                stats["lower_non_identity"] += 1
            if len(gu) > 1 or len(gl) > 1:
                stats["multi_char"] += 1
            for up, w, g in ((True, wu, gu), (False, wl, gl)):
                if w == g:
                    continue
                if excusable(cp, w, g):
                    (ref.over_u if up else ref.over_l)[cp] = g
                    ref.diffs.append("%s U+%04X: python %s, implementation %s" % (
                        "upper" if up else "lower", cp, ".".join("%04X" % x for x in w), ".".join("%04X" % x for x in g)))
                    stats["version_diffs"] += 1
                else:
                    failures.append({"key": "casemap:%s:%x" % ("u" if up else "l", cp),
                                     "case": "%s %s" % ("upper" if up else "lower", hx(chr(cp).encode())),
                                     "observed": "str " + hx("".join(chr(x) for x in g).encode()),
                                     "expected_by_spec": "str " + hx("".join(chr(x) for x in w).encode()),
                                     "profile": "release" if release else "debug"})
        if model and c in mcases:
            if c not in lm_by_case:
                if not disagreements:
                    disagreements.append({"stream": "casemap", "error": err[-300:] or "model output missing"})
            elif lm_by_case[c] != li[idx]:
                a, b = parse_casemap_line(li[idx]), parse_casemap_line(lm_by_case[c])
                bad = sorted(k for k in set(a) | set(b) if a.get(k) != b.get(k))[:3]
                disagreements.append({"stream": "casemap", "case": c,
                                      "first_differences": ["U+%04X impl %s model %s" % (k, a.get(k), b.get(k)) for k in bad]})
            else:
                stats["model_lines_equal"] += 1
    stats["python_agrees"] = stats["code_points"] * 2 - stats["version_diffs"] - len(failures)
    return ref, failures, disagreements, stats


def words(alpha, maxlen):
    for k in range(maxlen + 1):
        for w in itertools.product(alpha, repeat=k):
            yield b"".join(w)


def long_needles(rng, count):
    out = []
    units = [b"a", b"ab", b"aab", b"abc", b"abab", b"aba", "é".encode(), "aé".encode(), b"ba", b"abcab"]
    for _ in range(count):
        u = rng.choice(units)
        L = rng.randint(17, 40)
        n = (u * (L // len(u) + 1))[:L]
        if u[0] >= 0x80 or b"\xc3" in u:
            # keep UTF-8 well formed: cut on the unit boundary
            n = u * max(1, L // len(u))
            if len(n) < 17:
                n = n + b"a" * (17 - len(n))
        if rng.random() < 0.5:
            k = rng.randrange(len(n))
            if n[k] < 0x80:
                n = n[:k] + rng.choice([b"b", b"c", b"a"]) + n[k + 1:]
        pre = (rng.choice(units) * rng.randint(0, 20))[:rng.randint(0, 40)]
        if b"\xc3" in pre or b"\xa9" in pre:
            pre = pre.decode("utf-8", "ignore").encode()
        post = rng.choice([b"", b"a", b"ab", n[:5].decode("utf-8", "ignore").encode()])
        mode = rng.random()
        if mode < 0.5:
            h = pre + n + post
        elif mode < 0.7:
            h = pre + n[:-1].decode("utf-8", "ignore").encode() + post + n
        else:
            h = pre + (n[:-1].decode("utf-8", "ignore").encode()) * 2 + post
        out.append((h, n))
    return out


def mixed_script_cases(rng, count):
    """(haystack, needle, replacement) byte triples over a deliberately colliding repertoire."""
    ascii_pats = " a_e-0.,"
    out = []

    def colliders(ch):
        b = ord(ch)
        cps = [0x100 + b, 0x400 + b, 0x2000 + b, 0x1F600 + (b & 0x3F), 0x10000 + b]
        # code points one of whose UTF-8 continuation/lead bytes could be confused with b are
        # impossible for ASCII b (all >= 0x80); for non-ASCII needles the shared-lead cases below
        return [chr(c) for c in cps if not (0xD800 <= c <= 0xDFFF)]

    scripts = [
        [chr(c) for c in range(0x430, 0x450)],            # Cyrillic (2-byte, shared lead bytes D0/D1)
        [chr(c) for c in range(0x3B1, 0x3CA)],            # Greek
        [chr(c) for c in range(0x3041, 0x3060)],          # Hiragana (3-byte, shared E3 81)
        ["é", "è", "ê", "ë", "ē", "ė"],                    # shared lead C3 / C4
        [chr(c) for c in range(0x1F600, 0x1F610)],        # 4-byte, shared F0 9F 98
    ]
    for _ in range(count):
        kind = rng.random()
        if kind < 0.35:
            p = rng.choice(ascii_pats)
            pool = colliders(p) + [p, p, "x", "é", rng.choice(rng.choice(scripts))]
            h = "".join(rng.choice(pool) for _ in range(rng.randint(0, 14)))
            n = p
        elif kind < 0.6:
            sc = rng.choice(scripts)
            pool = sc[:4] + [" ", "a"]
            h = "".join(rng.choice(pool) for _ in range(rng.randint(0, 14)))
            n = rng.choice(sc[:5])
        elif kind < 0.85:
            # words with a repeated first letter; overlapping partial matches before a real one
            sc = rng.choice(scripts[:4] + [["a", "b", "c"]])
            a, b, c = sc[0], sc[1], sc[2]
            w = rng.choice([a + b + a + c, a + b + c + a + b + "d", a + a + b, a + b + a + b + c, b + a + b + a, a + b + a])
            pre = rng.choice(["", a, a + b, w[:-1], w[:2] * 2, b, " "]) * rng.randint(0, 2)
            h = pre + rng.choice([w, w[:-1] + w, w[:2] + w, w[:-1]]) + rng.choice(["", a, w[:2], " " + w])
            n = w
        else:
            sc = rng.choice(scripts)
            pool = sc[:3] + ["a", " "]
            h = "".join(rng.choice(pool) for _ in range(rng.randint(1, 16)))
            i = rng.randrange(len(h)); j = rng.randint(i + 1, min(len(h), i + 6))
            n = h[i:j]
            if rng.random() < 0.4:
                k = rng.randrange(len(n))
                n = n[:k] + rng.choice(pool) + n[k + 1:]
        r = rng.choice(["", "_", "A", "é", n + n, "ж", n[:1]])
        out.append((h.encode(), n.encode(), r.encode()))
    return out


# ----------------------------------------------------------------------------
# numerals for to_number
def exact_decimal(n, k):
    """n * 2^k (n > 0 integer) as (digit string, position of the decimal point from the left)."""
    if k >= 0:
        d = str(n << k)
        return d, len(d)
    d = str(n * 5 ** (-k))
    return d, len(d) + k


def render(digits, point, rng, style=None):
    """digits * 10^(point - len(digits)) written positionally or with an exponent."""
    style = style or rng.choice(["plain", "sci", "sci", "shift"])
    if style == "plain" and -40 < point < len(digits) + 40:
        if point <= 0:
            return "0." + "0" * (-point) + digits
        if point >= len(digits):
            return digits + "0" * (point - len(digits)) + rng.choice(["", ".", ".0"])
        return digits[:point] + "." + digits[point:]
    if style == "shift":
        # decimal point somewhere inside the digits, exponent compensates
        cut = rng.randint(0, len(digits))
        e = point - cut
        body = (digits[:cut] or rng.choice(["", "0"])) + "." + digits[cut:] if cut < len(digits) or rng.random() < 0.5 else digits
        if body in ("", "."):
            body = "0."
        if body == digits:
            e = point - len(digits)
        return body + rng.choice(["e", "E"]) + rng.choice(["", "+"] if e >= 0 else [""]) + str(e)
    e = point - 1
    body = digits[0] + ("." + digits[1:] if len(digits) > 1 else rng.choice(["", ".", ".0"]))
    return body + rng.choice(["e", "E"]) + (rng.choice(["", "+"]) if e >= 0 else "") + str(e)


def random_double(rng):
    r = rng.random()
    if r < 0.25:
        ex = rng.randint(1, 2046)
    elif r < 0.5:
        ex = rng.choice([0, 0, 1, 2, 1022, 1023, 1024, 1075, 1076, 2045, 2046, rng.randint(960, 1100)])
    elif r < 0.75:
        ex = rng.randint(1023 - 70, 1023 + 70)
    else:
        ex = rng.randint(1023 - 330, 1023 + 330)
    mant = rng.choice([0, 1, 2 ** 52 - 1, 2 ** 51, rng.getrandbits(52), rng.getrandbits(52), rng.getrandbits(20) << 32])
    return (ex << 52) | mant


JUNK = ["", "+", "-", ".", "+.", "-.", "e5", "E5", ".e5", "1e", "1e+", "1e-", "1E", "1.2.3", "1..2", "1_000", "1_0.5", " 1", "1 ", "\t1",
        "1\n", "0x10", "0b1", "1f", "1f64", "1d5", "1e5.5", "1e5e5", "1,5", "--1", "+-1", "-+1", "++1", "1-", "1+", "1e--5", "1e+-5",
        "inf", "INF", "Inf", "iNf", "+inf", "-inf", "-INF", "infinity", "INFINITY", "Infinity", "iNfInItY", "+infinity", "-Infinity",
        "in", "infi", "infin", "infinit", "infinityy", "infinity ", " inf", "inf ", "inff", "i", "nan", "NaN", "NAN", "nAn", "+nan", "-nan",
        "-NaN", "na", "nann", "nan ", "nan(0)", "nan0", "snan", "+ inf", "- 1", "1 e5", "1e 5", "٣", "١٢٣", "1٣", "１２", "½", "1e٣",
        "ınf", "İnf", "inſ", "ⁿan", "ℕan", "in\x46", "\x49nf", "iNF", ")NF", "i.f", "In&", "n!n", "\x00", "1\x00", "0", "-0", "+0", "00",
        "0.", ".0", "-.0", "+0.e0", "0e0", "-0e-0", "0e99999999999999999999", "0e-99999999999999999999", "1e99999999999999999999",
        "1e-99999999999999999999", "1e65535", "1e65536", "1e-65536", "1e655360", "123e-65540", "1e0000000000000000000000005",
        "1e+0000000000000000000000005", "1e-0000000000000000000000005", "0." + "0" * 400 + "1e401", "1" + "0" * 400 + "e-400",
        "0" * 500 + "7", "0" * 500 + ".5", "9007199254740993", "9007199254740992.999999999999999999999", "9007199254740993.0000000000000001",
        "18446744073709551615", "18446744073709551616", "18446744073709551617e-19", "184467440737095516150", "99999999999999999999",
        "1.7976931348623157e308", "1.7976931348623158e308", "1.7976931348623159e308", "1.797693134862315807e308", "1.797693134862315808e308",
        "17976931348623157" + "0" * 292, "17976931348623158" + "0" * 292 + ".0", "4.9e-324", "5e-324", "2.4703282292062327e-324",
        "2.4703282292062328e-324", "2.47032822920623272e-324", "2.4703282292062327208751865e-324", "2.4703282292062327208751866e-324",
        "2e-324", "3e-324", "2.2250738585072014e-308", "2.2250738585072011e-308", "2.2250738585072012e-308", "2.225073858507201e-308",
        "1e22", "1e23", "8.5e22", "1.0e23", "9e15", "123456789012345678e-18", "0.1", "0.2", "0.3", "0.30000000000000004", "1e-7",
        "6.0221409e+23", "1.e5", "1.E+5", ".5e1", "5.e-1", "1e308", "1e309", "-1e309", "1e-323", "1e-324", "-1e-324", "1e-400", "-1e-400"]


def tonum_cases(rng, count):
    out = list(JUNK)
    # 2^1024 - 2^970 (half-way to overflow) and 2^-1075 (half of the least subnormal), exactly and just around
    for n, k in ((2 ** 54 - 1, 970), (1, -1075), (3, -1075), (2 ** 53 - 1, -1075), (2 ** 53 + 1, -1075)):
        d, pt = exact_decimal(n, k)
        for digs in (d, d + "1", d[:-1] + str(int(d[-1]) - 1) + "9"):
            out.append(render(digs, pt, rng, "sci"))
            out.append(render(digs, pt, rng, "plain" if pt > -40 else "shift"))
    while len(out) < count:
        r = rng.random()
        sign = rng.choice(["", "", "-", "+"])
        if r < 0.30:
            # any numeral of the grammar (leading zeros, empty parts, long parts)
            ni = rng.choice([0, 1, 1, 2, 3, 8, 16, 19, 20, 25, rng.randint(0, 40)])
            nf = rng.choice([0, 0, 1, 2, 5, 15, 17, 19, 20, 30, rng.randint(0, 40)])
            ip = "".join(rng.choice("0123456789") for _ in range(ni))
            fp = "".join(rng.choice("0123456789") for _ in range(nf))
            if rng.random() < 0.15:
                ip = "0" * rng.randint(1, 5) + ip
            body = ip + rng.choice([".", "."] if nf else ["", "", "."]) + fp if (nf or rng.random() < 0.5) else ip
            if rng.random() < 0.6:
                body += rng.choice("eE") + rng.choice(["", "+", "-", "-"]) + rng.choice(
                    [str(rng.randint(0, 30)), str(rng.randint(0, 400)), "0" * rng.randint(1, 3) + str(rng.randint(0, 99)), str(rng.randint(280, 345))])
            out.append(sign + body)       # may be malformed (no digits at all): then NaN is the expectation
        elif r < 0.60:
            # exact half-way points between adjacent doubles, and the decimals just above / below
            b = random_double(rng) & (2 ** 63 - 1)
            ex, mant = b >> 52, b & (2 ** 52 - 1)
            q = rng.random()          # long expansions are expensive for the extracted model: keep them a minority
            if q < 0.75:
                ex = rng.randint(1023 - 60, 1023 + 60)
            elif q < 0.9:
                ex = rng.randint(1023 - 330, 1023 + 330)
            if ex == 2047:
                continue
            m, e = (mant, -1074) if ex == 0 else (mant + 2 ** 52, ex - 1075)
            d, pt = exact_decimal(2 * m + 1, e - 1)
            which = rng.random()
            if which < 0.4:
                digs = d
            elif which < 0.7:
                digs = d + "0" * rng.randint(0, 30) + "1"
            else:
                digs = d[:-1] + str(int(d[-1]) - 1) + "9" * rng.randint(1, 30)
            if rng.random() < 0.3 and len(digs) > 25:
                # truncated / rounded versions of the long expansion
                digs = digs[:rng.choice([17, 18, 19, 20, 21, 25, 40, 100, 766, 767, 768, 769, 770])]
            out.append(sign + render(digs, pt, rng))
        elif r < 0.85:
            # shortest / 17-digit renderings of doubles and their neighbours in the last digit
            b = random_double(rng) & (2 ** 63 - 1)
            if (b >> 52) == 2047:
                continue
            x = struct.unpack(">d", struct.pack(">Q", b))[0]
            t = rng.choice([repr(x), "%.17g" % x, "%.16e" % x, "%.20e" % x, display_f64(x), "%.15g" % x])
            if rng.random() < 0.3:
                # perturb one digit
                ds = [i for i, ch in enumerate(t.split("e")[0]) if ch.isdigit()]
                if ds:
                    i = rng.choice(ds[-3:])
                    t = t[:i] + rng.choice("0123456789") + t[i + 1:]
            out.append(sign + t)
        elif r < 0.93:
            # integers around 2^53 .. 2^64 and powers of ten
            n = rng.choice([2 ** 53, 2 ** 63, 2 ** 64, 10 ** 19, 10 ** 22, 10 ** 23, 2 ** rng.randint(53, 200), 10 ** rng.randint(15, 40)]) + rng.randint(-3, 3)
            t = str(n)
            if rng.random() < 0.3:
                t += rng.choice([".", ".0", ".5", ".49999999999999999999", ".50000000000000000001", "e0", "e-1", "e1"])
            out.append(sign + t)
        else:
            # mutate a well-formed numeral into (mostly) junk
            t = rng.choice(JUNK + ["12.5e3", "-7.25", "1e10", "infinity", "nan"])
            if t:
                i = rng.randrange(len(t))
                t = t[:i] + rng.choice(["", "_", " ", "e", ".", "-", "+", "x", "0", "E", "é", "∞", "n", "I"]) + t[i + (rng.random() < 0.5):]
            out.append(t)
    return out


CASE_POOL = ["", "hello", "HELLO World 123", "straße", "ŉ", "ǰ", "İstanbul", "ıi", "ΑΣ", "ΟΔΥΣΣΕΥΣ", "ὈΔΥΣΣΕΎΣ", "ς", "Σ", "σς", "ǅ", "ǆǄ", "ﬁ", "ﬃ",
             "ΐ", "ᾳ", "ᾼ", "ῼ", "ẞ", "ß", "ƛ", "ꟊ", "Ꟊ", "ⱥ", "Ⱥ", "𐐀", "𐐨", "𞤀𞤢", "𑢠", "ǈ", "日本語", "a🌎b", "Ⅷ", "ⓐ", "µ", "ÿ", "ſ", "K", "Å",
             "ͅ", "ά", "և", "ﬓ", "ẘ", "ṡ", "Ᲊ", "ᲊ", "Ა", "ა", "ꭰ", "Ꭰ", "ᏸ", "Ᏸ", "ԱԲ", "\u0000", "a\u0000b"]


def case_strings(rng, count):
    out = list(CASE_POOL)
    alpha = [c for s in CASE_POOL for c in s] + [chr(c) for c in (0xB5, 0xDF, 0xFF, 0x130, 0x131, 0x149, 0x17F, 0x1F0, 0x390, 0x3A3, 0x3C2, 0x3C3,
                                                                    0x587, 0x1E96, 0x1E9E, 0x1F80, 0x1FB3, 0x1FE4, 0x2126, 0x212A, 0x212B, 0xFB00, 0xFB17,
                                                                    0x10400, 0x10428, 0x1E900, 0x1E922, 0x16E40, 0x16E60, 0x10FFFF, 0x7F, 0x80, 0x7FF, 0x800, 0xFFFF, 0x10000)]
    while len(out) < count:
        n = rng.choice([1, 2, 3, 5, 8, 20])
        t = ""
        for _ in range(n):
            r = rng.random()
            if r < 0.5:
                t += rng.choice(alpha)
            elif r < 0.7:
                t += chr(rng.randint(0x20, 0x7E))
            else:
                cp = rng.choice([rng.randint(0xA0, 0x24F), rng.randint(0x370, 0x58F), rng.randint(0x10A0, 0x10FF), rng.randint(0x1C80, 0x1CBF),
                                 rng.randint(0x1E00, 0x1FFF), rng.randint(0x2C00, 0x2D2F), rng.randint(0xA640, 0xA7FF), rng.randint(0xFB00, 0xFB17),
                                 rng.randint(0xFF21, 0xFF5A), rng.randint(0x10400, 0x104FF), rng.randint(0x10C80, 0x10CFF), rng.randint(0x1E900, 0x1E943),
                                 rng.randint(0, 0x10FFFF)])
                if 0xD800 <= cp <= 0xDFFF:
                    continue
                t += chr(cp)
        out.append(t)
    return out


def gen_cases(env):
    rng = env.rng
    quick = env.tier == "quick"
    cases = []
    hl, nl = (8, 4) if quick else (12, 6)
    ab = [b"a", b"b"]
    needles = list(words(ab, nl))
    hay = list(words(ab, hl))
    if quick:
        hay = hay[::3] + hay[-40:]
    for h in hay:
        for n in needles:
            cases.append("find %s %s" % (hx(h), hx(n)))
    exhaustive_find = len(cases)
    # multi-byte alphabet
    abe = [b"a", b"b", "é".encode()]
    hm, nm = (5, 2) if quick else (7, 3)
    for h in words(abe, hm):
        for n in words(abe, nm):
            cases.append("find %s %s" % (hx(h), hx(n)))
            if rng.random() < 0.3:
                cases.append("replace %s %s %s" % (hx(h), hx(n), hx(rng.choice([b"", b"x", n + n, "é".encode()]))))
            if rng.random() < 0.2:
                cases.append("split %s %s" % (hx(h), hx(n)))
                cases.append("splitjoin %s %s" % (hx(h), hx(n)))
    # replace/split on the two-letter alphabet (overlapping patterns)
    for h in words(ab, 7 if quick else 10):
        if rng.random() < (0.5 if quick else 0.3):
            n = rng.choice(needles)
            cases.append("replace %s %s %s" % (hx(h), hx(n), hx(rng.choice([b"", b"a", b"ab", n + b"b"]))))
            cases.append("split %s %s" % (hx(h), hx(n)))
    # long needles (> SIMD_THRESHOLD): find, replace
    for h, n in long_needles(rng, 2000 if quick else 100000):
        cases.append("find %s %s" % (hx(h), hx(n)))
        if rng.random() < 0.2:
            cases.append("replace %s %s %s" % (hx(h), hx(n), hx(b"X")))
    # mixed-script texts: code points whose low byte, or one of whose UTF-8 bytes, equals a byte of
    # the pattern (a per-character fast path that truncates or compares the wrong unit shows only
    # there); needles = one ASCII char, one non-ASCII char, substrings of the haystack and their
    # one-character mutations, words of a two-byte script with a repeated first letter
    for h, n, r in mixed_script_cases(rng, 1500 if quick else 60000):
        cases.append("find %s %s" % (hx(h), hx(n)))
        cases.append("replace %s %s %s" % (hx(h), hx(n), hx(r)))
        if rng.random() < 0.4:
            cases.append("split %s %s" % (hx(h), hx(n)))
            cases.append("splitjoin %s %s" % (hx(h), hx(n)))
    # slice / len / trim
    texts = ["", "a", "héllo", "日本語テキスト", "a🌎b", " \t x  ", " pad　", "ab" * 20]
    bounds = ["0", "-0", "0.5", "-0.5", "1", "-1", "2", "-2", "3.9", "-3.1", "100", "-100", "1e18", "-1e18", "nan", "inf", "-inf"]
    for s in texts:
        b = s.encode()
        cases.append("len %s" % hx(b))
        cases.append("trim %s" % hx(b))
        for a in bounds:
            for c in bounds:
                if quick and rng.random() < 0.5:
                    continue
                cases.append("slice %s %s %s" % (hx(b), a, c))
    for cp in sorted(WS) + [0x1c, 0x1f, 0x200b, 0x180e, 0xfeff]:
        w = chr(cp)
        for t in (w + "x" + w, w + "x", "x" + w, w, w + w + "東京" + w, w + "x ", " x" + w, "\t" + w + "x" + w + "\n", "x" + w + "y", w + "42"):
            cases.append("trim %s" % hx(t.encode()))
    cases.append("ws 0 1114112")
    # to_number, Display -> to_number, case mapping of strings
    for t in tonum_cases(rng, 3000 if quick else 130000):
        cases.append("tonum %s" % hx(t.encode()))
    for _ in range(200 if quick else 15000):
        b = random_double(rng) | (rng.getrandbits(1) << 63)
        cases.append("roundtrip %016x" % b)
    for b in (0, 1 << 63, 1, 2 ** 52 - 1, 2 ** 52, 0x7FEFFFFFFFFFFFFF, 0x7FF0000000000000, 0xFFF0000000000000, 0x7FF8000000000000,
              0x4340000000000000, 0x433FFFFFFFFFFFFF, 0x3FF0000000000000, 0x3FB999999999999A, 0x44B52D02C7E14AF6, 0x3E7AD7F29ABCAF48):
        cases.append("roundtrip %016x" % b)
    for t in case_strings(rng, 1500 if quick else 30000):
        cases.append("%s %s" % (rng.choice(["upper", "lower"]), hx(t.encode())))
        if rng.random() < 0.3:
            cases.append("%s %s" % ("upper", hx(t.encode())))
            cases.append("%s %s" % ("lower", hx(t.encode())))
        if rng.random() < 0.15:
            cases.append("len %s" % hx(t.encode()))
            cases.append("trim %s" % hx((rng.choice([" ", "\u3000", "\u00a0", ""]) + t + rng.choice(["\n", "\u2003", "\u0085", ""])).encode()))
    return cases, exhaustive_find


# ----------------------------------------------------------------------------
# script level: the same cases through the interpreter's own dispatch (eval_string_member_call /
# eval_array_member_call in src/runtime.rs).  The function-level result of the implementation is
# already tied to the proved model and to the oracle above; a script that calls the same method on
# the same values must print exactly that value, whatever wrapper logic (fast paths, conversion of
# numeric arguments, result wrapping, Borrowed/Owned receivers, static vs dynamic typing of the
# receiver) sits between the script and the built-in.
import langrun

SCRIPT_KINDS = ("find", "replace", "split", "splitjoin", "slice", "len", "trim", "upper", "lower", "tonum")
SCRIPT_METHOD = {"find": "find", "replace": "replace", "split": "split", "slice": "slice", "len": "len", "trim": "trim",
                 "upper": "to_uppercase", "lower": "to_lowercase", "tonum": "to_number"}
SCRIPT_PRELUDE = """do m_find(s, a) start
    return s.find(a)
end
do m_replace(s, a, b) start
    return s.replace(a, b)
end
do m_split(s, a) start
    return s.split(a)
end
do m_splitjoin(s, a) start
    return s.split(a).join(a)
end
do m_join(xs, a) start
    return xs.join(a)
end
do m_slice(s, a, b) start
    return s.slice(a, b)
end
do m_len(s) start
    return s.len()
end
do m_trim(s) start
    return s.trim()
end
do m_upper(s) start
    return s.to_uppercase()
end
do m_lower(s) start
    return s.to_lowercase()
end
do m_tonum(s) start
    return s.to_number()
end
"""
_PLAIN_NUM = re.compile(r"\A[0-9]+(?:\.[0-9]+)?\Z")


def ns_literal(text, quote='"'):
    """NaijaScript string literal whose value is exactly `text`, or None when it cannot be written:
    the scanner knows \\\\ \\n \\t and the escaped quote; a raw CR/LF ends a literal (LF has an escape,
    CR has none); braces would be read as a template (C01's subject)."""
    if any(ch in text for ch in "\r{}"):
        return None
    body = text.replace("\\", "\\\\").replace(quote, "\\" + quote).replace("\n", "\\n").replace("\t", "\\t")
    return quote + body + quote


def ns_number(text):
    """Numeric argument: a plain literal when the scanner can read it, else built from text by to_number
    (negative, exponent, NaN, infinities) — which the tonum stream ties to the model."""
    if _PLAIN_NUM.match(text):
        return text
    return ns_literal(text) + ".to_number()"


def num_value(x):
    return "n:nan" if x != x else "n:%016x" % struct.unpack(">Q", struct.pack(">d", x))[0]


def fl_to_value(case, line):
    """Function-level observation line -> the value a script must print (lang.rs value_repr), or None."""
    k = case.split()[0]
    t = line.split()
    un = lambda h: h          # lang.rs prints the empty string as "-" too
    if not t or "INVALID-UTF8" in line or t[0] == "PANIC":
        return None
    if t[0] == "found":
        return num_value(float(int(t[1])))
    if t[0] == "notfound":
        return num_value(-1.0)
    if t[0] == "str":
        return "s:" + un(t[1])
    if t[0] == "arr":
        return "a[" + ",".join("s:" + un(h) for h in t[1].split(",")) + "]"
    if t[0] == "num":
        if k == "len":
            return num_value(float(int(t[1])))
        return "n:nan" if t[1] == NAN_BITS else "n:" + t[1]
    return None


def script_forms(case, idx, rng, fl_line=None):
    """[(form name, statements, expression)] for one function-level case; None when a string cannot be
    written as a literal."""
    t = case.split()
    k = t[0]
    un = lambda h: (b"" if h == "-" else bytes.fromhex(h)).decode()
    if k == "slice":
        strs, nums = [un(t[1])], [t[2], t[3]]
    elif k in ("find", "split", "splitjoin"):
        strs, nums = [un(t[1]), un(t[2])], []
    elif k == "replace":
        strs, nums = [un(t[1]), un(t[2]), un(t[3])], []
    else:
        strs, nums = [un(t[1])], []
    q = rng.choice(['"', '"', "'"])
    lits = [ns_literal(x, q) for x in strs]
    if any(l is None for l in lits):
        return None
    args = lits[1:] + [ns_number(n) for n in nums]
    names = ["v%d_%d" % (idx, i) for i in range(len(lits) + len(nums))]
    decl = "".join("make %s get %s\n" % (n, v) for n, v in zip(names, lits + [ns_number(n) for n in nums]))
    forms = []
    if k == "splitjoin":
        forms.append(("literal", "", "%s.split(%s).join(%s)" % (lits[0], lits[1], lits[1])))
        forms.append(("variables", decl, "%s.split(%s).join(%s)" % (names[0], names[1], names[1])))
        forms.append(("parameters", "", "m_splitjoin(%s, %s)" % (lits[0], lits[1])))
    else:
        m = SCRIPT_METHOD[k]
        forms.append(("literal", "", "%s.%s(%s)" % (lits[0], m, ", ".join(args))))
        forms.append(("variables", decl, "%s.%s(%s)" % (names[0], m, ", ".join(names[1:]))))
        forms.append(("parameters", "", "m_%s(%s)" % (k, ", ".join([lits[0]] + args))))
    return forms


def join_cases(rng, fl_split):
    """Array join from scripts: the pieces of a function-level split joined by the separator must give
    the text back (function-level splitjoin); and arrays with numbers, booleans and nested arrays
    (elements rendered as Display prints them, nested arrays joined with the same separator)."""
    out = []
    for case, line in fl_split:
        t = case.split()
        if not line.startswith("arr "):
            continue
        un = lambda h: (b"" if h == "-" else bytes.fromhex(h)).decode()
        parts = [un(h) for h in line.split()[1].split(",")]
        lits = [ns_literal(p) for p in parts]
        sep = ns_literal(un(t[2]))
        if sep is None or any(l is None for l in lits) or len(parts) > 40:
            continue
        arr = "[" + ", ".join(lits) + "]"
        want = "s:" + hx(un(t[2]).join(parts).encode())
        out.append(("join " + case, [("literal", "", "%s.join(%s)" % (arr, sep)), ("parameters", "", "m_join(%s, %s)" % (arr, sep))], want))
    mixed = [("[1, \"a\", 2.5]", ["1", "a", "2.5"]), ("[true, \"x\", false]", ["true", "x", "false"]), ("[\"a\", [\"b\", \"c\"], \"d\"]", ["a", None, "d"]),
             ("[]", []), ("[\"only\"]", ["only"]), ("[\"\", \"\"]", ["", ""]), ("[0.1, 100, 1.5]", ["0.1", "100", "1.5"]), ("[\"é\", \"日本\", \"🌎\"]", ["é", "日本", "🌎"])]
    for arr, parts in mixed:
        for sep in ("", ",", ", ", "é", "--"):
            rendered = [p if p is not None else sep.join(["b", "c"]) for p in parts]
            want = "s:" + hx(sep.join(rendered).encode())
            out.append(("join-mixed %s %s" % (arr, sep), [("literal", "", "%s.join(%s)" % (arr, ns_literal(sep))),
                                                           ("parameters", "", "m_join(%s, %s)" % (arr, ns_literal(sep)))], want))
    return out


def split_values(s):
    """' n:.. s:.. a[s:..,s:..]' -> list of top-level value tokens"""
    out, depth, cur = [], 0, ""
    for ch in s.strip():
        if ch == " " and depth == 0:
            if cur:
                out.append(cur)
            cur = ""
            continue
        depth += ch == "["
        depth -= ch == "]"
        cur += ch
    if cur:
        out.append(cur)
    return out


SCRIPT_CFGS = ["pf", "nn"]


def run_script_items(env, name, items, release=False):
    """items: [(label, forms, expected value)].  Batches them into scripts; a batch that does not run to
    the end with one value per shout is re-run item by item.  Returns (failures, evaluations)."""
    failures = []
    evals = 0

    def build(batch):
        src, n = SCRIPT_PRELUDE, 0
        for _, forms, _ in batch:
            for _, pre, expr in forms:
                src += pre + "shout(%s)\n" % expr
                n += 1
        return src, n

    def check(batch, recs, cid, single):
        nonlocal evals
        src, n = build(batch)
        r = recs.get(cid)
        problems = []
        if r is None or not r.get("accepted"):
            msg = "script rejected or not run: " + json.dumps((r or {}).get("diags", [])[:2])[:300]
            return None if not single else [(batch[0], "*", "-", msg)]
        for cfg in SCRIPT_CFGS:
            ending, vals = r["runs"].get(cfg, ("missing", ""))
            got = split_values(vals)
            if ending != "ok" or len(got) != n:
                if not single:
                    return None
                problems.append((batch[0], "*", cfg, "ending %s, %d of %d values: %s" % (ending, len(got), n, vals[:200])))
                continue
            i = 0
            for item in batch:
                for form, _, _ in item[1]:
                    evals += 1
                    if got[i] != item[2]:
                        problems.append((item, form, cfg, got[i]))
                    i += 1
        return problems

    B = 25
    batches = [items[i:i + B] for i in range(0, len(items), B)]
    recs = langrun.run_impl(env, name, [("b%d" % i, build(b)[0]) for i, b in enumerate(batches)], SCRIPT_CFGS, release=release)
    redo = []
    for i, b in enumerate(batches):
        res = check(b, recs, "b%d" % i, False)
        if res is None:
            redo += b
        else:
            for item, form, cfg, got in res:
                failures.append((item, form, cfg, got))
    if redo:
        recs = langrun.run_impl(env, name + "_one", [("o%d" % i, build([it])[0]) for i, it in enumerate(redo)], SCRIPT_CFGS, release=release)
        for i, it in enumerate(redo):
            for item, form, cfg, got in check([it], recs, "o%d" % i, True) or []:
                failures.append((item, form, cfg, got))
    out, seen = [], {}
    for item, form, cfg, got in failures:
        label = item[0]
        kind = label.split()[0]
        seen[kind] = seen.get(kind, 0) + 1
        if seen[kind] > 4:
            continue
        one = SCRIPT_PRELUDE + "".join(pre + "shout(%s)\n" % expr for f, pre, expr in item[1] if form in ("*", f))
        out.append({"key": "script:%s:%s" % (kind, label if len(label) < 160 else common.chash(label)), "case": label, "form": form, "cfg": cfg,
                    "observed": "script prints " + got, "expected_by_spec": "function-level result " + item[2], "script": one,
                    "profile": "release" if release else "debug"})
    return out, evals, len(failures)


def script_stream(env, fl_results, release=False):
    """fl_results: [(case, function-level implementation line)] of this run.  Picks a share of every kind."""
    rng = env.rng
    quick = env.tier == "quick"
    per_kind = 200 if quick else 2000
    by_kind = {}
    for c, a in fl_results:
        k = c.split()[0]
        if k in SCRIPT_KINDS and len(c) < 900:
            by_kind.setdefault(k, []).append((c, a))
    items, skipped, kinds = [], 0, {}
    chosen_split = []
    for k in SCRIPT_KINDS:
        pool = by_kind.get(k, [])
        if k in ("trim", "len"):
            pick = pool if quick and len(pool) < 600 else rng.sample(pool, min(len(pool), max(600, per_kind)))
        else:
            # keep the interesting ones likely: half from cases with a non-trivial result
            nt = [x for x in pool if x[1] not in ("notfound", "str -", "arr -", "num " + NAN_BITS)]
            # degenerate shapes always go through: empty receiver / argument, argument equal to the receiver,
            # one-character receivers (where a wrapper's shortcut or pre-test is most likely to differ)
            def edge(c):
                t = c.split()
                return "-" in t[1:] or (len(t) > 2 and t[1] == t[2]) or len(t[1]) <= 2
            def corner(c):
                t = c.split()
                return t[1:].count("-") >= 2 or (len(t) > 2 and t[1] == t[2]) or (t[1] == "-" and len(t) == 2)
            corners = [x for x in pool if corner(x[0])]
            corners = corners if len(corners) <= 60 else corners[:20] + rng.sample(corners[20:], 40)
            edges = [x for x in pool if edge(x[0])]
            edges = corners + (edges if len(edges) <= 80 else rng.sample(edges, 80))
            pick = edges + rng.sample(nt, min(len(nt), per_kind // 2)) + rng.sample(pool, min(len(pool), per_kind // 2))
            seen_c = set()
            pick = [x for x in pick if not (x[0] in seen_c or seen_c.add(x[0]))]
        for idx, (c, a) in enumerate(pick):
            want = fl_to_value(c, a)
            forms = script_forms(c, len(items), rng) if want is not None else None
            if forms is None:
                skipped += 1
                continue
            items.append((c, forms, want))
            kinds[k] = kinds.get(k, 0) + 1
            if k == "split":
                chosen_split.append((c, a))
    for label, forms, want in join_cases(rng, chosen_split[: (60 if quick else 600)]):
        items.append((label, forms, want))
        kinds["join"] = kinds.get("join", 0) + 1
    failures, evals, nfail = run_script_items(env, "scr%d" % int(release), items, release)
    return failures, {"script_items": len(items), "script_values_compared": evals, "script_kinds": kinds,
                      "script_skipped_unwritable": skipped, "script_mismatches": nfail, "script_cfgs": SCRIPT_CFGS}


def bisect_bad(env, part, release):
    lo, hi = 0, len(part)
    while hi - lo > 1:
        mid = (lo + hi) // 2
        li, _, _ = common.run_both(env, "bis", "strlib", "\n".join(part[lo:mid]) + "\n", [], release, timeout=20)
        if li is None:
            hi = mid
        else:
            lo = mid
    return part[lo]


def run_shard(env, name, part, release, cache, key, model=True):
    """Implementation with a short timeout (a hang is a finding), extracted model with a long one (exact
    integer arithmetic on ~1000-digit numerals is slow) and only once per shard: the release pass
    reuses the model lines of the debug pass."""
    inp = os.path.join(env.work, name + ".in")
    open(inp, "w").write("\n".join(part) + "\n")
    oi, om = os.path.join(env.work, name + ".impl"), os.path.join(env.work, name + ".model")
    for p in (oi, om):
        if os.path.exists(p):
            os.remove(p)
    rc1, o1 = common.sh([common.harness_bin(release), "strlib", inp, oi], timeout=180)
    li = open(oi).read().splitlines() if rc1 == 0 and os.path.exists(oi) else None
    err = ("impl rc=%s: %s" % (rc1, o1[-600:])) if rc1 else ""
    if not model:
        return li, None, err
    if key not in cache:
        rc2, o2 = common.sh([common.NSMODEL, "strlib", inp, om], timeout=14400)
        cache[key] = open(om).read().splitlines() if rc2 == 0 and os.path.exists(om) else None
        if rc2:
            err += "model rc=%s: %s" % (rc2, o2[-600:])
    return li, cache[key], err


def correspond(env, searching=False, model=True):
    cases, exhaustive_find = gen_cases(env)
    corpus = os.path.join(common.VERIF, "gen", "corpus", "C13")
    pre = []
    if os.path.isdir(corpus):
        for fn in sorted(os.listdir(corpus)):
            pre += [l for l in open(os.path.join(corpus, fn)).read().splitlines() if l.strip()]
    cases = pre + cases
    profiles = [False] if env.tier == "quick" else [False, True]
    if env.tier == "thorough":
        ok, out = common.build_harness(release=True)
        if not ok:
            raise RuntimeError("release harness build failed")
    failures, disagreements, samples = [], [], []
    nontrivial = set()
    evaluations = 0
    kinds = {}
    case_stats = {}
    script_stats = {}
    caseref = None
    model_cache = {}
    for release in profiles:
        caseref, cf, cd, case_stats = run_case_sweep(env, release, model)
        for f in cf:
            if not any(g["key"] == f["key"] for g in failures):
                failures.append(f)
        disagreements += cd
        evaluations += 0x110000 // CASE_CHUNK
        kinds["casemap"] = kinds.get("casemap", 0) + 0x110000 // CASE_CHUNK
        if not cf and not cd:
            nontrivial.add(common.chash("casemap-sweep upper %d lower %d" % (case_stats["upper_non_identity"], case_stats["lower_non_identity"])))
        shard = 40000
        fl_results = []
        for s0 in range(0, len(cases), shard):
            part = cases[s0:s0 + shard]
            li, lm, err = run_shard(env, "s%d_%d" % (int(release), s0), part, release, model_cache, s0, model)
            if li is None:
                # the implementation died or hung on this shard: bisect to the case
                bad = bisect_bad(env, part, release)
                failures.append({"key": "hang-or-crash:" + common.chash(bad), "case": bad,
                                 "observed": "implementation did not terminate normally (timeout/abort): " + err[-200:],
                                 "expected_by_spec": spec(bad, caseref), "profile": "release" if release else "debug"})
                continue
            if lm is None:
                disagreements.append({"stream": "strlib", "error": err})
                continue
            for c, a, b in zip(part, li, lm):
                evaluations += 1
                k = c.split()[0]
                kinds[k] = kinds.get(k, 0) + 1
                want = spec(c, caseref)
                if a == want and k in SCRIPT_KINDS:
                    fl_results.append((c, a))
                if a != want:
                    key = "spec:" + c if len(c) < 200 else "spec:" + common.chash(c)
                    if a.startswith("PANIC") and c.startswith(("find", "replace")):
                        n = c.split()[2]
                        if len(n) // 2 > 16:
                            key = "long-needle-panic"
                    if len([f for f in failures if f["key"] == key]) == 0:
                        failures.append({"key": key, "case": c, "observed": a, "expected_by_spec": want,
                                         "model": b, "profile": "release" if release else "debug"})
                elif a != b:
                    if len(disagreements) < 5:
                        disagreements.append({"stream": "strlib", "case": c, "impl": a, "model": b})
                    else:
                        disagreements.append({"stream": "strlib"})
                else:
                    if a not in ("notfound", "str -", "arr -", "num " + NAN_BITS) and not (k in ("upper", "lower") and a == "str " + c.split()[1]):
                        nontrivial.add(common.chash(c))
                    if len(samples) < 4 and evaluations % 7919 == 0:
                        samples.append({"case": c, "output": a})
        # the same cases through scripts (static and dynamic dispatch of the interpreter)
        sf, sstats = script_stream(env, fl_results, release)
        for f in sf:
            if not any(g["key"] == f["key"] for g in failures):
                failures.append(f)
        evaluations += sstats["script_values_compared"]
        kinds["script"] = kinds.get("script", 0) + sstats["script_items"]
        script_stats = sstats
        if not sf:
            nontrivial.add(common.chash("script-stream %s" % json.dumps(sstats["script_kinds"], sort_keys=True)))
    if not samples:
        samples = [{"case": cases[len(cases) // 2], "output": spec(cases[len(cases) // 2])}]
    return {
        "evaluations": evaluations,
        "distinct_nontrivial": len(nontrivial),
        "rule": "bounded-exhaustive (haystack,needle) pairs over {a,b} and {a,b,é}, generated periodic / near-periodic needles of 17-40 bytes, "
                "replace/split/split+join on the same sets, slice over a pool of bounds (0, ±0.5, ±1, huge, NaN, ±inf) x texts with multi-byte "
                "characters, trim over every White_Space code point, plus a sweep of all code points for the trim whitespace set; to_number on generated "
                "numerals of every shape of the grammar (empty parts, leading zeros, long parts, exponents of every sign and size), exact half-way points between adjacent "
                "doubles and the decimals just above/below them (up to ~1100 digits), shortest/17-digit renderings with perturbed digits, the overflow and "
                "underflow thresholds, integers around 2^53..2^64, and junk (wrong signs, spaces, underscores, non-ASCII digits, near-misses of inf/infinity/nan); "
                "Display -> to_number round trips of random doubles of every exponent class; to_uppercase/to_lowercase of EVERY scalar value 0..0x10FFFF "
                "through the built-ins (68 chunk cases) and of generated strings (special-casing characters, final-sigma contexts, all planes); each case run on the "
                "implementation, the extracted model and an independent Python reading of the specification; every result re-validated as UTF-8 in the harness; "
                "a share of every case kind (all trim and len cases up to 600, ~200 per other kind, plus array joins incl. numbers/booleans/nested arrays) is run again from SCRIPTS "
                "through the interpreter's member-call dispatch in three forms (literal receiver and arguments, statically typed variables, dynamically typed function "
                "parameters) under two runtime configurations, and must print exactly the function-level result; "
                "non-trivial = distinct case with a non-empty / found / non-NaN / changed result",
        "samples": samples,
        "failures": failures,
        "disagreements": disagreements,
        "extra": {"case_kinds": kinds, "exhaustive_find_pairs": exhaustive_find, "exhaustive": False,
                  "profiles": ["debug"] + (["release"] if env.tier == "thorough" else []),
                  "case_sweep": case_stats,
                  "script_stream": script_stats,
                  "case_python_unicode_version": unicodedata.unidata_version,
                  "case_python_version_diffs": caseref.diffs if caseref else []},
    }


def replay(env, payload):
    common.refresh_tables()
    common.build_nsmodel()
    case = payload.get("case") or (payload.get("disagreements") or [{}])[0]
    c = case.get("case")
    if not c:
        print("replay: no concrete case in this file (obligations: %s)" % payload.get("no_longer_checks"))
        return 1
    if case.get("script"):
        # script-level finding: every value the script prints must be the recorded function-level result
        want = case.get("expected_by_spec", "").replace("function-level result ", "")
        recs = langrun.run_impl(env, "replay", [("r", case["script"])], SCRIPT_CFGS)
        r = recs.get("r") or {}
        bad = not r.get("accepted")
        for cfg in SCRIPT_CFGS:
            ending, vals = (r.get("runs") or {}).get(cfg, ("missing", ""))
            got = split_values(vals)
            print("case: %s\ncfg %s: ending %s, prints %s\nfunction-level: %s" % (c, cfg, ending, " ".join(got)[:300], want))
            if ending != "ok" or not got or any(g != want for g in got):
                bad = True
        print("replay: %s" % ("still failing" if bad else "passes now"))
        return 1 if bad else 0
    caseref = None
    if c.split()[0] in ("upper", "lower"):
        caseref = run_case_sweep(env, False, model=False)[0]
    li, lm, err = common.run_both(env, "replay", "strlib", c + "\n", [], False)
    want = spec(c, caseref)
    print("case: %s\nimpl: %s\nmodel: %s\nspec: %s" % (c, li, lm, want))
    bad = li is None or li[0] != want or li != lm
    print("replay: %s" % ("still failing" if bad else "passes now"))
    return 1 if bad else 0
