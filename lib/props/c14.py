"""C14 — the shipped pipeline matches the library; runs do not influence each other.

Three streams (DESIGN.md §6 C14):
  (a) property oracle, no model: the real `naija` binary against the library pipeline wired with
      separate arenas inside the harness (`nsverif pipeline lib`): stdout bytes, exit status,
      status 0 iff no error diagnostic.  Input modes: script file, --eval, stdin via `-` fed by
      one write, by a redirected file (full read blocks) and by a pipe written in pieces cut inside
      multi-byte characters.  Besides random programs (2-/3-/4-byte characters included): scripts
      sized around every multiple of run_stdin's read block (size read from the source) with a
      character at every offset across the boundary, CRLF / no final newline; the same places with
      bytes that are not UTF-8 (every mode must refuse); one program per path through run_source,
      including "the resolver leaves no optimisation plan" (just over an analysis cap); programs
      with tiny live data and about three arena capacities of per-iteration garbage;
  (b) property oracle, no model: an in-process replica of wasm/src/lib.rs run_source
      (`nsverif pipeline wasm`; borrows, conflict arguments, arena roles and drop points are
      executed as read from the current source, the phase skeleton is fixed and cross-checked
      against a literal copy) — every program alone: its result must be what the library
      pipeline with separate arenas gives and both scratch arenas must be back at offset 0 /
      commit 0; then random sequences of programs back to back in one process (debug build:
      0xDD/0xCD poisoning makes stale reads visible): each result is compared with the same
      program's stand-alone result, programs recur within a sequence;
  (b*) scripts identical in byte length and token offsets that differ in literal content (numbers,
      strings, booleans, equal-length identifiers, or a single token), and scripts ending in
      different host errors, run back to back through the replica with the source text placed as
      the playground does (a heap string per call) and as `naija -` does (first allocation of the
      re-initialised scratch arena): every run must equal its stand-alone run;
  (b') runs that consume standard input: sequences of reader programs (read_line k times) through
      the playground replica in ONE process whose standard input is a pipe set up by this driver
      — last line terminated or not, everything in one write or trickled, end of input seen at
      once or late and hit never / once / repeatedly, no input at all — each run must print what
      C17's reference says for the input not yet consumed (the only state carried from run to run)
      and what the same program prints in a fresh process fed the remainder; plus single runs of
      the shipped binary reading past the end of input;
  (c) model tie: random op histories drive the real scratch API (init / scratch_arena /
      allocator calls / drops) and the extracted theories/Scratch.v (`nsmodel scratch`);
      borrow targets, saved offsets, every returned block, offsets, commits, live counts
      and content checksums must agree; the same histories re-run after other histories in
      the same process must give the same addresses (implementation-only oracle).
The model cannot exhibit stale bytes left by a previous run; stream (b) is what would show them.
"""
import binascii
import os
import re
import subprocess
import tempfile
from concurrent.futures import ThreadPoolExecutor

import common

TRUSTED_EXTRA = [
    "C14: translator/gen_scratch.py (regex + brace-depth reading of main.rs / cmd.rs run_source / wasm lib.rs run_source / scratch.rs / the reset sites of runtime.rs into GenWiring.v)",
    "C14: the wasm crate is cfg(target_family=\"wasm\") only and needs wasm-bindgen, so its entry point is executed inside the harness by a scripted replica: the borrows, their conflict arguments, the arena handed to each phase and the drop points come from the script read out of the current wasm/src/lib.rs; the phase skeleton (stop on any parse diagnostic / resolver error / runtime error, join the output) is fixed in the harness and cross-checked against a literal copy of run_source; ansi_to_html::convert is replaced by the identity",
    "C14: commit/decommit system calls modelled as always succeeding; ExitCode::SUCCESS/FAILURE are 0/1 (unix)",
    "C14: theories/CliInput.v models run_stdin as 'append blocks, validate the whole buffer' only because the translator found that shape (flag cli_stdin_validates_whole_buffer); fs::read_to_string / String arguments are modelled as 'the bytes if valid UTF-8'; read(2) is modelled as returning arbitrary non-empty pieces of the input in order",
    "C14: for a run that ends with the stack-overflow diagnostic only the bytes up to the diagnostic's header are compared between naija and the harness (the expression at which the native-stack budget trips depends on each executable's frame sizes)",
]
ASSUMPTIONS = [
    "runs that read standard input: the line terminator is byte 0x0A alone and read(2) reports end of input only at the end (C17's assumptions); the multi-run oracle is C17's reference (its theorem C17_read_line_successive makes it equal to the model for every chunking), runs only partition the calls",
    "clients of a scratch borrow follow the discipline stated in theories/Scratch.v (`disc`): only the newest borrow of an arena is used, a borrow grows/shrinks/writes/resets-to only blocks it allocated itself, resets target offsets between the borrow's saved offset and the current offset, init is called while no borrow is live. Against the source: the translator finds every arena reset outside src/arena (5 sites in runtime.rs) and checks that each targets an offset read from `.offset()` of the same arena by the same function or by each caller (Example runtime_resets_target_own_marks); that these marks are used in stack order is read from the code, not machine-checked",
    "generated programs are deterministic and terminate; runs that exhaust an arena or the harness time limit, and programs on which library and CLI both crash the interpreter with one output a prefix of the other (defects of other properties), are counted, not compared",
    "the model cannot exhibit a stale read of bytes left by a previous run (no modelled client reads what it has not written); equality of addresses and success/failure after re-initialisation is a theorem, equality of results is checked by the back-to-back debug runs (0xDD/0xCD poisoning)",
]
COQ_TIMEOUT = 1500
PLACEHOLDER = "<<C14-FILE>>"


def hx(s):
    if isinstance(s, str):
        s = s.encode()
    return binascii.hexlify(s).decode() or "-"


def unhx(h):
    return b"" if h == "-" else binascii.unhexlify(h)


# ------------------------------------------------------------------------------------------
# program generator

WORDS = ["ada", "Bola", "chi", " pad ", "Zed9", "o", "naija", "wahala-", "e dey", "x_y",
         "caf\u00e9", "\u65e5\u672c", "\U0001f600ok", "na\u00efja "]     # 2-, 3- and 4-byte characters too


class ProgGen:
    """Small typed generator: numbers, strings, booleans, arrays of numbers/strings, loops with
    counters, pure functions (no captures), string/array methods, interpolation.  Variables
    never change type; functions never return a bare variable; no function is declared in a
    loop (shapes that trip defects recorded under other properties are steered around)."""

    def __init__(self, rng):
        self.rng = rng
        self.small = False   # inside a loop: string expressions may not mention string variables (bounded growth)
        self.n = 0
        self.funcs = []      # (name, [param types], ret type)
        self.lines = []

    def fresh(self, p):
        self.n += 1
        return "%s%d" % (p, self.n)

    # -- expressions
    def num(self, env, d=0):
        r = self.rng
        vs = [v for v, t in env if t == "num"]
        c = r.random()
        if d > 2 or c < 0.25:
            return str(r.choice([0, 1, 2, 3, 5, 7, 10, 12, 42, 2.5, 0.25, 100]))
        if c < 0.5 and vs:
            return r.choice(vs)
        if c < 0.75:
            op = r.choice(["add", "minus", "times"])
            return "%s %s %s" % (self.num(env, d + 1), op, self.num(env, d + 1))
        if c < 0.80:
            return "(%s) mod %d" % (self.num(env, d + 1), r.choice([2, 3, 7]))
        if c < 0.85:
            return "(%s) divide %d" % (self.num(env, d + 1), r.choice([2, 4, 5]))
        if c < 0.90:
            ss = [v for v, t in env if t == "str"]
            if ss:
                return "%s.len()" % r.choice(ss)
        if c < 0.94:
            aa = [v for v, t in env if t in ("anum", "astr")]
            if aa:
                return "%s.len()" % r.choice(aa)
        if c < 0.97:
            aa = [v for v, t in env if t == "anum"]
            if aa:
                return "%s[%d]" % (r.choice(aa), r.randint(0, 2))
        fs = [f for f in self.funcs if f[2] == "num"]
        if fs and d < 2:
            return self.call(r.choice(fs), env, d + 1)
        return "(%s)" % self.num(env, d + 1)

    def strlit(self):
        r = self.rng
        k = r.random()
        if k < 0.7:
            return '"%s"' % r.choice(WORDS)
        if k < 0.85:
            return '"%s"' % (r.choice(WORDS) * r.randint(3, 40))     # beyond the pool classes sometimes
        return '""'

    def str_(self, env, d=0):
        r = self.rng
        vs = [] if self.small else [v for v, t in env if t == "str"]
        c = r.random()
        if d > 2 or c < 0.25:
            return self.strlit()
        if c < 0.45 and vs:
            return r.choice(vs)
        if c < 0.65:
            return "%s add %s" % (self.str_(env, d + 1), self.str_(env, d + 1))
        if c < 0.72:
            xs = [v for v, t in env if t in ("num", "str")]
            if xs:
                return '"%s{%s}%s"' % (r.choice(["", "v=", "[ "]), r.choice(xs), r.choice(["", "!", " ]"]))
        if c < 0.78:
            return "to_string(%s)" % self.num(env, d + 1)
        if c < 0.90 and vs:
            v = r.choice(vs)
            m = r.choice(["to_uppercase()", "to_lowercase()", "trim()", "slice(%d, %d)" % (r.randint(0, 2), r.randint(2, 9)),
                          'replace("a", "%s")' % r.choice(["", "A", "aa"]), 'replace("%s", "-")' % r.choice(["o", "da", "zz"])])
            return "%s.%s" % (v, m)
        if c < 0.94 and not self.small:
            aa = [v for v, t in env if t in ("astr", "anum")]
            if aa:
                return '%s.join("%s")' % (r.choice(aa), r.choice([",", "", " | "]))
        if c < 0.97 and not self.small:
            aa = [v for v, t in env if t == "astr"]
            if aa:
                return "%s[%d]" % (r.choice(aa), r.randint(0, 2))
        fs = [f for f in self.funcs if f[2] == "str"]
        if fs and d < 2:
            return self.call(r.choice(fs), env, d + 1)
        return "typeof(%s)" % self.num(env, d + 1)

    def bool_(self, env, d=0):
        r = self.rng
        c = r.random()
        if c < 0.6 or d > 1:
            return "%s %s %s" % (self.num(env, d + 1), r.choice(["na", "pass", "small pass"]), self.num(env, d + 1))
        if c < 0.7:
            return "not (%s)" % self.bool_(env, d + 1)
        if c < 0.85:
            return "(%s) %s (%s)" % (self.bool_(env, d + 1), r.choice(["and", "or"]), self.bool_(env, d + 1))
        vs = [v for v, t in env if t == "str"]
        if vs:
            return '%s.find("%s") pass -1' % (r.choice(vs), r.choice(["a", "o", "zz", "da"]))
        return r.choice(["true", "false"])

    def expr(self, t, env, d=0):
        if t == "num":
            return self.num(env, d)
        if t == "str":
            return self.str_(env, d)
        if t == "bool":
            return self.bool_(env, d)
        if t == "anum":
            return "[%s]" % ", ".join(self.num(env, 2) for _ in range(self.rng.randint(3, 5)))
        return "[%s]" % ", ".join(self.strlit() for _ in range(self.rng.randint(3, 5)))

    def call(self, f, env, d=0):
        return "%s(%s)" % (f[0], ", ".join(self.expr(t, env, d + 1) for t in f[1]))

    # -- statements
    def block(self, env, depth, in_loop, budget, ind):
        r = self.rng
        out = []
        env = list(env)
        for _ in range(budget):
            c = r.random()
            pad = "    " * ind
            if c < 0.22:
                t = r.choice(["num", "num", "str", "str", "anum", "astr", "bool"])
                v = self.fresh({"num": "n", "str": "s", "anum": "a", "astr": "w", "bool": "b"}[t])
                out.append("%smake %s get %s" % (pad, v, self.expr(t, env)))
                if t != "bool":
                    env.append((v, t))
            elif c < 0.40:
                vs = [(v, t) for v, t in env if t in ("num", "str") and not v.startswith("i")]
                if vs:
                    v, t = r.choice(vs)
                    self.small = in_loop
                    if t == "str" and r.random() < 0.5:
                        out.append("%s%s get %s add %s" % (pad, v, v, self.str_(env, 1)))
                    else:
                        out.append("%s%s get %s" % (pad, v, self.expr(t, env)))
                    self.small = False
            elif c < 0.62:
                t = r.choice(["num", "str", "str", "bool"])
                aa = [v for v, tt in env if tt in ("anum", "astr")]
                if aa and r.random() < 0.2:
                    out.append("%sshout(%s)" % (pad, r.choice(aa)))
                else:
                    out.append("%sshout(%s)" % (pad, self.expr(t, env)))
            elif c < 0.72 and depth < 3:
                out.append("%sif to say (%s) start" % (pad, self.bool_(env)))
                out += self.block(env, depth + 1, in_loop, r.randint(1, 3), ind + 1)
                out.append("%send" % pad)
                if r.random() < 0.5:
                    out.append("%sif not so start" % pad)
                    out += self.block(env, depth + 1, in_loop, r.randint(1, 3), ind + 1)
                    out.append("%send" % pad)
            elif c < 0.82 and depth < 2:
                i = self.fresh("i")
                k = r.randint(1, 9)
                out.append("%smake %s get 0" % (pad, i))
                out.append("%sjasi (%s small pass %d) start" % (pad, i, k))
                out.append("%s    %s get %s add 1" % (pad, i, i))
                if r.random() < 0.25:
                    out.append("%s    if to say (%s na %d) start" % (pad, i, r.randint(1, k)))
                    out.append("%s        %s" % (pad, r.choice(["comot", "next"])))
                    out.append("%s    end" % pad)
                out += self.block(env + [(i, "num")], depth + 1, True, r.randint(1, 4), ind + 1)
                out.append("%send" % pad)
            elif c < 0.90:
                aa = [(v, t) for v, t in env if t in ("anum", "astr")]
                if aa:
                    v, t = r.choice(aa)
                    et = "num" if t == "anum" else "str"
                    k = r.random()
                    self.small = in_loop
                    if k < 0.5:
                        out.append("%s%s.push(%s)" % (pad, v, self.expr(et, env, 1)))
                    elif k < 0.85:
                        out.append("%s%s[%d] get %s" % (pad, v, r.randint(0, 2), self.expr(et, env, 1)))
                    else:
                        out.append("%s%s.reverse()" % (pad, v))
                    self.small = False
            else:
                if self.funcs:
                    f = r.choice(self.funcs)
                    if r.random() < 0.5:
                        out.append("%sshout(%s)" % (pad, self.call(f, env)))
                    else:
                        v = self.fresh("r")
                        out.append("%smake %s get %s" % (pad, v, self.call(f, env)))
                        out.append("%sshout(%s)" % (pad, v))
        return out

    def function(self):
        r = self.rng
        name = self.fresh("f")
        ptypes = [r.choice(["num", "str"]) for _ in range(r.randint(0, 3))]
        params = [self.fresh("p") for _ in ptypes]
        ret = r.choice(["num", "str"])
        env = list(zip(params, ptypes))
        lines = ["do %s(%s) start" % (name, ", ".join(params))]
        if r.random() < 0.3 and "num" in ptypes:
            # bounded recursion on the first numeric parameter
            p = params[ptypes.index("num")]
            base = "1" if ret == "num" else '"."'
            args = ", ".join(("%s minus 1" % q) if q == p else (q if t == "num" else '%s add ""' % q) for q, t in zip(params, ptypes))
            lines.append("    if to say (%s small pass 1) start" % p)
            lines.append("        return %s" % base)
            lines.append("    end")
            lines.append("    if to say (%s pass 12) start" % p)
            lines.append("        return %s" % base)
            lines.append("    end")
            if ret == "num":
                lines.append("    return %s add %s(%s)" % (self.num(env, 1), name, args))
            else:
                lines.append('    return "%s" add %s(%s)' % (r.choice(["<", "ab", ""]), name, args))
        else:
            saved = self.funcs
            self.funcs = []          # bodies call nothing (no mutual recursion to bound)
            lines += self.block(env, 1, False, r.randint(0, 3), 1)
            self.funcs = saved
            # locals declared in the body are not tracked here: the return expression uses parameters only
            if ret == "num":
                lines.append("    return %s" % self.num(env, 1))
            else:
                lines.append("    return %s add %s" % (self.str_(env, 1), self.strlit()))
        lines.append("end")
        self.funcs.append((name, ptypes, ret))
        return lines

    def program(self, kind):
        r = self.rng
        self.funcs = []
        head = []
        for _ in range(r.randint(0, 3)):
            head += self.function()
        tail_funcs = []
        if r.random() < 0.2:
            tail_funcs = self.function()     # forward reference: called before its definition
        body = self.block([], 0, False, r.randint(3, 10), 0)
        lines = head + body + tail_funcs
        if kind == "ok":
            pass
        elif kind == "syntax":
            k = r.randint(0, len(lines))
            lines.insert(k, r.choice(["make x get", "shout(", "end", "make 5 get 1", "if to say (1 na 1) start", 'shout("abc)', "jasi start"]))
        elif kind == "semantic":
            k = r.randint(len(head), len(head) + len(body))
            lines.insert(k, r.choice(["shout(nobody_declared_me)", "zzz get 4", "comot", "return 5", "shout(undefined_fn(1))",
                                      "make dup get 1\nmake dup get 2", 'make bad get "a" minus 1']))
        else:
            k = r.randint(len(head), len(head) + len(body))
            if kind == "div0":
                bad = ["make z0 get 3 minus 3", "shout(10 divide z0)"]
            elif kind == "mod0":
                bad = ["make z0 get 0", "shout(7 mod z0)"]
            elif kind == "oob":
                bad = ["make q0 get [1, 2, 3]", "shout(q0[%d])" % r.choice([3, 7, 100])]
            elif kind == "oobw":
                bad = ["make q0 get [1, 2, 3]", "q0[5] get 1", "shout(q0)"]
            elif kind == "badindex":
                bad = ["make q0 get [1, 2, 3]", "shout(q0[1.5])"]
            elif kind == "overflow":
                bad = ["do deep(n) start", "    return 1 add deep(n add 1)", "end", "shout(deep(0))"]
            else:
                raise ValueError(kind)
            lines[k:k] = bad
        return "\n".join(lines) + "\n"


KINDS = ["ok"] * 10 + ["syntax", "syntax", "semantic", "semantic", "div0", "mod0", "oob", "oobw", "badindex", "overflow"]


def gen_programs(rng, n):
    g = ProgGen(rng)
    out = []
    seen = set()
    while len(out) < n:
        kind = rng.choice(KINDS)
        src = g.program(kind)
        h = common.chash(src)
        if h in seen:
            continue
        seen.add(h)
        out.append((kind, src))
    return out


CORPUS = [
    ("ok", 'shout(1 add 2)\n'),
    ("ok", 'make s get ""\nmake i get 0\njasi (i small pass 40) start\n    s get s add "ab"\n    i get i add 1\nend\nshout(s)\n'),
    ("ok", 'do lab(n) start\n    return "label_" add to_string(n)\nend\nmake t get "init"\nmake i get 0\njasi (i small pass 30) start\n    t get lab(i)\n    i get i add 1\nend\nshout(t)\n'),
    ("ok", 'make a get []\nmake c get 0\njasi (c small pass 5) start\n    make j get 0\n    jasi (j small pass 6) start\n        a.push("it_" add to_string(c) add "_" add to_string(j))\n        j get j add 1\n    end\n    jasi (a.len() pass 2) start\n        a.pop()\n    end\n    c get c add 1\nend\nshout(a)\n'),
    ("ok", 'make x get 1\n'),
    ("div0", 'shout("before")\nshout(1 divide 0)\nshout("after")\n'),
    ("overflow", 'do f(n) start\n    return f(n add 1)\nend\nshout("go")\nshout(f(0))\n'),
    ("oob", 'make a get [1, 2, 3]\nshout(a[5])\n'),
    ("syntax", 'make x get\n'),
    ("semantic", 'shout(y)\n'),
]


# ------------------------------------------------------------------------------------------
# stream (a): CLI vs library

def parse_lib_records(path):
    recs = {}
    if not os.path.exists(path):
        return recs
    for l in open(path).read().splitlines():
        t = l.split()
        if not t or t[0] != "R":
            continue
        rec = {"id": t[1]}
        if t[2] in ("panic", "abort"):
            rec["crash"] = t[2]
            for kv in t[3:]:
                if "=" in kv:
                    k, v = kv.split("=", 1)
                    rec[k] = v
        else:
            rec["status"] = int(t[2])
            rec["phase"] = t[3]
            for kv in t[4:]:
                k, v = kv.split("=", 1)
                rec[k] = v
        recs[t[1]] = rec
    return recs


def run_lib(env, name, progs, limit=None):
    """progs: list of (id, src).  One library run per program with a placeholder file name."""
    inp = os.path.join(env.work, name + ".in")
    outp = os.path.join(env.work, name + ".out")
    with open(inp, "w") as f:
        for pid, src in progs:
            f.write("P %s %s %s\n" % (pid, hx(src), hx(PLACEHOLDER)))
    rc, out = common.sh([common.harness_bin(), "pipeline", "lib", inp, outp], timeout=3600,
                        env={"NSVERIF_CHILD_SECONDS": str(limit)} if limit else None)
    return parse_lib_records(outp), (out if rc else "")


def gen_scratch_module():
    """translator/gen_scratch.py as a module reading the tree under test (called directly: the
    generated GenWiring.v is shared with checks that may run against another tree)."""
    import importlib.util
    spec = importlib.util.spec_from_file_location("gen_scratch", os.path.join(common.VERIF, "translator", "gen_scratch.py"))
    gs = importlib.util.module_from_spec(spec)
    spec.loader.exec_module(gs)
    gs.REPO = common.REPO
    return gs


def pipe_feed(p, data, cuts, wait=2.0, hold=0.0):
    """Writes data to p.stdin in the pieces given by the cut offsets; after each piece waits until
    the reader has taken everything out of the pipe (FIONREAD on the write end), so that every
    piece really arrives as (at least) one separate read()."""
    import fcntl
    import struct
    import termios
    import time
    pos = 0
    try:
        for c in sorted(set(c for c in cuts if 0 < c < len(data))) + [len(data)]:
            p.stdin.write(data[pos:c])
            p.stdin.flush()
            pos = c
            t0 = time.time()
            while time.time() - t0 < wait:
                n = struct.unpack("i", fcntl.ioctl(p.stdin.fileno(), termios.FIONREAD, b"\0\0\0\0"))[0]
                if n == 0 or p.poll() is not None:
                    break
                time.sleep(0.0003)
        if hold:
            time.sleep(hold)                 # end of input is seen later than the last byte
        p.stdin.close()
    except (BrokenPipeError, OSError):
        try:
            p.stdin.close()
        except OSError:
            pass


def run_cli(mode, src, workdir, tag, release=False, limit=25, cuts=None):
    """Modes: file | eval | stdin (one write into a pipe) | redirect (`naija - < file`) | pipe (small
    writes cut at `cuts`).  src is text or raw bytes.  Returns (filename shown in diagnostics, rc,
    stdout bytes, stderr bytes)."""
    exe = common.naija_bin(release)
    e = dict(os.environ)
    e.pop("RUST_BACKTRACE", None)
    data = src.encode() if isinstance(src, str) else src
    try:
        if mode in ("file", "redirect"):
            path = os.path.join(workdir, "p_%s.ns" % tag)
            with open(path, "wb") as f:
                f.write(data)
            if mode == "file":
                p = subprocess.run([exe, path], stdin=subprocess.DEVNULL, capture_output=True, timeout=limit, env=e)
                return path, p.returncode, p.stdout, p.stderr
            with open(path, "rb") as f:
                p = subprocess.run([exe, "-"], stdin=f, capture_output=True, timeout=limit, env=e)
            return "<stdin>", p.returncode, p.stdout, p.stderr
        if mode == "eval":
            p = subprocess.run([exe, "--eval", data], stdin=subprocess.DEVNULL, capture_output=True, timeout=limit, env=e)
            return "<eval>", p.returncode, p.stdout, p.stderr
        if mode == "pipe":
            p = subprocess.Popen([exe, "-"], stdin=subprocess.PIPE, stdout=subprocess.PIPE, stderr=subprocess.PIPE, env=e)
            pipe_feed(p, data, cuts or [])
            try:
                p.stdin = None
                so, se = p.communicate(timeout=limit)
            except subprocess.TimeoutExpired:
                p.kill()
                p.communicate()
                return None, 124, b"", b"[timeout]"
            return "<stdin>", p.returncode, so, se
        p = subprocess.run([exe, "-"], input=data, capture_output=True, timeout=limit, env=e)
        return "<stdin>", p.returncode, p.stdout, p.stderr
    except subprocess.TimeoutExpired:
        return None, 124, b"", b"[timeout]"
    except (OSError, ValueError) as ex:        # E2BIG / embedded NUL: --eval cannot carry this text
        return None, 124, b"", ("[not run: %s]" % ex).encode()


EVAL_MAX = 120000        # a single argv string is limited to 128 KiB by the kernel


def multibyte_cut(data):
    """An offset inside the first multi-byte character of data (None if it is pure ASCII)."""
    for i, b in enumerate(data):
        if b >= 0xC0:
            return i + 1
    return None


MODES = ("file", "eval", "stdin")


OVERFLOW = b"Stack overflow"


def canon_overflow(b):
    """The expression at which the native-stack budget trips depends on the frame sizes of the
    executable (naija and the harness are compiled separately), so for a run that ends with the
    stack-overflow diagnostic only the bytes up to and including its header are compared."""
    k = b.find(OVERFLOW)
    return b if k < 0 else b[:k + len(OVERFLOW)]


def judge_cli(rec, mode, fname, rc, so, se):
    """Property oracle for one (program, mode).  Returns (verdict, detail):
    'ok' | 'both-crash' | 'inconclusive' | 'fail'."""
    if rc == 124:
        return "inconclusive", "cli timeout"
    if rec.get("crash") == "abort" and rec.get("signal") == "14":
        return "inconclusive", "library run exceeded the harness time limit"
    crashed = rc not in (0, 1)
    if rec.get("crash"):
        if crashed:
            # the same deterministic program until one of them dies: one output is a prefix of the other
            want = unhx(rec.get("printed", "-")).replace(PLACEHOLDER.encode(), fname.encode())
            if not (so.startswith(want) or want.startswith(so)):
                return "fail", "library and CLI both crash the interpreter but diverged before: cli=%r lib=%r" % (so[-200:], want[-200:])
            return "both-crash", ""
        return "fail", "library pipeline crashes (%s) but the CLI exits %d" % (rec["crash"], rc)
    if crashed:
        return "fail", "CLI crashes (status %d, stderr %r) where the library pipeline ends with status %d" % (rc, se[-300:], rec["status"])
    want = unhx(rec["printed"]).replace(PLACEHOLDER.encode(), fname.encode())
    if canon_overflow(so) != canon_overflow(want):
        return "fail", "stdout differs: cli=%r lib=%r" % (so[-300:], want[-300:])
    if rc != rec["status"]:
        return "fail", "exit status %d, library pipeline says %d" % (rc, rec["status"])
    if (rc == 0) != (int(rec["errs"]) == 0):
        return "fail", "exit status %d with %s error diagnostics" % (rc, rec["errs"])
    if se:
        return "fail", "unexpected stderr %r" % se[-300:]
    return "ok", ""


# (no plan always comes with the cap warning, a prune always with an unused-... warning)
ALL_PATHS = ["parse-diagnostic", "resolve-error", "run:plan-empty",
             "run:no-plan+warnings", "run:plan-empty+warnings", "run:plan-prunes+warnings", "runtime-error"]


def run_source_path(rec):
    """Which way the program goes through run_source (from the library record)."""
    if rec.get("crash"):
        return "crash"
    if rec["phase"] == "parse":
        return "parse-diagnostic"
    if rec["phase"] == "resolve":
        return "resolve-error"
    if rec["phase"] == "run":
        return "runtime-error"
    plan = rec.get("plan", "?")
    cls = "no-plan" if plan == "none" else ("plan-empty" if plan == "some:0:0" else "plan-prunes")
    return "run:" + cls + ("+warnings" if int(rec["warns"]) > 0 else "")


def lib_record_consistent(rec):
    """Runtime.output (read after the run) against what was printed while running."""
    if rec.get("crash"):
        return True
    out = unhx(rec["out"])
    mid = (out + b"\n") if int(rec["nout"]) > 0 else b""
    return unhx(rec["printed"]) == unhx(rec["pre"]) + mid + unhx(rec["post"])


def stream_cli(env, progs, res, searching, extra_cuts=None):
    recs, err = run_lib(env, "lib", [(str(i), src) for i, (_, src) in enumerate(progs)])
    if err:
        res["disagreements"].append({"stream": "cli-vs-library", "error": "library harness failed: " + err[-400:]})
        return {}
    jobs = []
    cuts_of = {}
    for i, (kind, src) in enumerate(progs):
        data = src.encode()
        for m in MODES:
            if m == "eval" and (len(data) > EVAL_MAX or b"\0" in data):
                continue                     # a single argv string: at most 128 KiB, no NUL
            jobs.append((i, m))
        # the other ways a script reaches standard input: a redirected file (full read blocks) and a
        # pipe fed with small writes, cut inside a multi-byte character when there is one
        jobs.append((i, "redirect"))
        mb = multibyte_cut(data)
        extra = (extra_cuts or {}).get(i)
        if extra is not None or mb is not None or i % 3 == 0:
            cuts_of[i] = list(extra or []) + ([mb] if mb is not None else []) + [env.rng.randint(1, max(len(data) - 1, 1))]
            jobs.append((i, "pipe"))
    wd = os.path.join(env.work, "cli")
    os.makedirs(wd, exist_ok=True)

    def one(job):
        i, m = job
        return job, run_cli(m, progs[i][1], wd, "%d_%s" % (i, m[0]), cuts=cuts_of.get(i))

    stats = {"ok": 0, "both-crash": 0, "inconclusive": 0, "fail": 0}
    phases = {}
    paths = {}
    modes_run = {}
    with ThreadPoolExecutor(max_workers=8) as ex:
        results = list(ex.map(one, jobs))
    for (i, m), (fname, rc, so, se) in results:
        kind, src = progs[i]
        rec = recs.get(str(i))
        if rec is None:
            res["disagreements"].append({"stream": "cli-vs-library", "error": "no library record for program %d" % i})
            continue
        res["evaluations"] += 1
        v, detail = judge_cli(rec, m, fname or "", rc, so, se)
        stats[v] += 1
        modes_run[m] = modes_run.get(m, 0) + 1
        if m == "file":
            ph = rec.get("phase", rec.get("crash"))
            phases[ph] = phases.get(ph, 0) + 1
            pth = run_source_path(rec)
            paths[pth] = paths.get(pth, 0) + 1
            if not lib_record_consistent(rec):
                res["failures"].append({
                    "key": "output-record:" + common.chash(src), "stream": "library-output-record", "case": {"src": src, "kind": kind},
                    "observed": "Runtime.output read after the run differs from what the same library run printed: out=%r printed=%r"
                                % (unhx(rec["out"])[-200:], unhx(rec["printed"])[-200:])})
        if v == "fail":
            n_fail = sum(1 for f in res["failures"] if f.get("stream") == "cli-vs-library")
            if n_fail >= 6:
                continue                      # counted in cli_verdicts; a handful of concrete cases is enough
            small = shrink_program(env, src, m) if (n_fail == 0 and m in MODES) else src
            res["failures"].append({"key": "cli-vs-lib:" + common.chash(small), "stream": "cli-vs-library",
                                    "case": {"src": small, "mode": m, "kind": kind, "cuts": cuts_of.get(i) if m == "pipe" else None},
                                    "observed": detail})
        elif v == "ok":
            if rec["phase"] in ("ok", "run") and int(rec["nout"]) + int(rec["errs"]) > 0:
                res["_nontrivial"].add("cli:" + common.chash(src))
            if len(res["samples"]) < 2 and len(src) < 200 and m == "eval":
                res["samples"].append({"src": src, "mode": m, "status": rc, "stdout": so.decode("utf-8", "replace")[:200]})
    res["extra"]["cli_verdicts"] = stats
    res["extra"]["cli_modes"] = modes_run
    res["extra"]["library_phase_histogram"] = phases
    res["extra"]["run_source_paths"] = paths
    res["extra"]["run_source_paths_not_exercised"] = sorted(set(ALL_PATHS) - set(paths))
    return recs


def check_one_program(env, src, mode, limit=None, cuts=None):
    recs, err = run_lib(env, "one", [("0", src)], limit=limit)
    if err or "0" not in recs:
        return "inconclusive", "library harness failed"
    fname, rc, so, se = run_cli(mode, src, env.work, "one", limit=limit or 25, cuts=cuts)
    return judge_cli(recs["0"], mode, fname or "", rc, so, se)


def shrink_program(env, src, mode, budget=90.0):
    """Line-wise delta debugging under a wall-clock budget (candidates that no longer terminate
    are cut off after 3 s and count as not failing)."""
    import time
    lines = src.splitlines()
    if len(lines) > 80:
        return src
    t0 = time.time()

    def pred(c):
        if time.time() - t0 > budget:
            return False
        return check_one_program(env, "\n".join(c) + "\n", mode, limit=3)[0] == "fail"

    small = common.ddmin_lines(lines, pred, keep_head=0)
    return "\n".join(small) + "\n"


# ------------------------------------------------------------------------------------------
# input-mode equivalence on large scripts, and every path through run_source

CHARS = [("é").encode(), ("日").encode(), ("\U0001f600").encode()]     # 2, 3, 4 bytes
INVALID = [b"\x80", b"\xc3", b"\xe2\x82", b"\xf0\x9f\x98", b"\xff", b"\xc0\x80", b"\xed\xa0\x80", b"\xf4\x90\x80\x80"]


def stdin_block():
    """Size of run_stdin's read block, read from the source under test."""
    try:
        b = gen_scratch_module().stdin_reader()[0]
    except Exception:                          # noqa
        b = 0
    return b if b > 0 else 8192


def build_script(pos, seq, where, nl, final_nl=True, tail=True):
    """A program whose byte sequence `seq` starts exactly at byte offset `pos`, inside a string
    literal that is printed (where='string') or inside a comment (where='comment').  nl is the
    line ending.  Prints "start", the string, and a running total, so that a run that stops early
    or skips something is visible."""
    out = [b'shout("start")', b"make total get 0"]
    size = sum(len(x) + len(nl) for x in out)
    prefix = b'shout("caf' if where == "string" else b"# caf"
    k = 0
    while True:
        line = b"total get total add %d" % (k % 7)
        if size + len(line) + len(nl) > pos - len(prefix) - 40:
            break
        out.append(line)
        size += len(line) + len(nl)
        k += 1
    need = pos - size - len(prefix) - len(nl)          # one padding comment line
    assert need >= 1, (pos, size)
    out.append(b"#" + b"x" * (need - 1))
    line = prefix + seq + (b'")' if where == "string" else b"")
    out.append(line)
    if tail:
        out.append(b"shout(total)")
    data = nl.join(out) + (nl if final_nl else b"")
    assert data[pos:pos + len(seq)] == seq, (pos, data[pos - 5:pos + 8])
    return data


def build_sized(total, nl, final_nl):
    """A pure-ASCII program of exactly `total` bytes."""
    out = [b'shout("start")', b"make total get 0"]
    size = sum(len(x) + len(nl) for x in out)
    last = b"shout(total)"
    k = 0
    while True:
        line = b"total get total add %d" % (k % 5)
        if size + len(line) + len(nl) > total - len(last) - 40:
            break
        out.append(line)
        size += len(line) + len(nl)
        k += 1
    need = total - size - len(last) - len(nl) - (len(nl) if final_nl else 0)
    out.append(b"#" + b"y" * (need - 1))
    out.append(last)
    data = nl.join(out) + (nl if final_nl else b"")
    assert len(data) == total, (len(data), total)
    return data


def boundary_scripts(rng, block, tier):
    """Valid and invalid scripts around every multiple k*block of the stdin read block:
    2-, 3- and 4-byte characters at every offset across the boundary (and just before / after it),
    in a printed string or in a comment, LF / CRLF / no final newline; pure-ASCII sizes
    k*block-1, k*block, k*block+1; a character ending exactly at end of input; the same places
    with byte sequences that are not UTF-8.  Returns [(name, bytes, valid, cuts)]."""
    ks = [1, 2] if tier == "quick" else [1, 2, 3, 4, 8]
    endings = [(b"\n", True), (b"\r\n", True), (b"\n", False)]
    out = []
    n = 0
    for k in ks:
        for ch in CHARS:
            for j in range(0, len(ch) + 1):
                pos = k * block - j
                nl, fin = endings[n % 3]
                where = "string" if n % 2 == 0 else "comment"
                n += 1
                data = build_script(pos, ch, where, nl, fin)
                # pipe mode: cut inside the character as well as at a few arbitrary places
                cuts = [pos + 1, pos + len(ch) - 1, rng.randint(1, len(data) - 1), k * block // 2]
                out.append(("k%d-w%d-j%d-%s%s" % (k, len(ch), j, where, "-crlf" if nl == b"\r\n" else ("" if fin else "-nofinal")),
                            data, True, cuts))
        for d in (-1, 0, 1):
            nl, fin = endings[n % 3]
            n += 1
            out.append(("k%d-size%+d" % (k, d), build_sized(k * block + d, nl, fin), True, [k * block - 1, k * block // 3]))
        ch = CHARS[k % 3]
        data = build_script(k * block - len(ch), ch, "comment", b"\n", final_nl=False, tail=False)   # input ends with the character
        assert len(data) == k * block
        out.append(("k%d-char-at-eof" % k, data, True, [k * block - 1]))
    bad = INVALID if tier != "quick" else INVALID[:6]
    for k in ks[:2] if tier == "quick" else ks:
        for t, seq in enumerate(bad):
            for j in (0, 1):
                if tier == "quick" and (t + j + k) % 2:
                    continue
                where = "string" if (t + j) % 2 == 0 else "comment"
                data = build_script(k * block - j, seq, where, b"\n")
                out.append(("k%d-invalid%d-j%d-%s" % (k, t, j, where), data, False, [k * block - j, k * block]))
    # a leading byte and nothing after it; an invalid byte in a tiny script
    out.append(("truncated-at-eof", build_script(block - 1, b"\xc3", "comment", b"\n", final_nl=False, tail=False), False, [block - 1]))
    out.append(("tiny-invalid", b'shout("start")\nshout("a\xffb")\n', False, [18]))
    return out


BIG_MODES = ("file", "eval", "stdin", "redirect", "pipe")


def stream_invalid(env, scripts, res):
    """Scripts that are not UTF-8: every input mode must refuse them — non-zero exit status,
    nothing of the program printed, no crash — whatever the position of the bad bytes."""
    wd = os.path.join(env.work, "cli")
    os.makedirs(wd, exist_ok=True)
    jobs = [(n, m) for n in range(len(scripts)) for m in BIG_MODES]

    def one(job):
        n, m = job
        return job, run_cli(m, scripts[n][1], wd, "bad%d_%s" % (n, m[0]), cuts=scripts[n][3])

    with ThreadPoolExecutor(max_workers=8) as ex:
        results = list(ex.map(one, jobs))
    stats = {"rejected": 0, "fail": 0}
    for (n, m), (fname, rc, so, se) in results:
        name, data, _, cuts = scripts[n]
        res["evaluations"] += 1
        why = None
        if rc == 124:
            continue
        if rc == 0:
            why = "accepted (exit status 0)"
        elif rc not in (1, 2):
            why = "crashed (status %d)" % rc
        elif so:
            why = "printed %r before refusing" % so[:80]
        if why is None:
            stats["rejected"] += 1
            res["_nontrivial"].add("bad:" + name)
            continue
        stats["fail"] += 1
        if sum(1 for f in res["failures"] if f.get("stream") == "invalid-utf8-input") < 4:
            res["failures"].append({"key": "invalid-utf8:%s:%s" % (name, m), "stream": "invalid-utf8-input",
                                    "case": {"hex": data.hex(), "mode": m, "cuts": cuts, "name": name},
                                    "observed": "input that is not UTF-8 is %s in %s mode; stderr=%r" % (why, m, se[-200:])})
    res["extra"]["invalid_utf8_inputs"] = stats


def framing_texts():
    """Texts that are rejected or oddly framed — the input modes must agree with the library on
    these too (same diagnostics with the same positions, same status, same output): a leading or
    trailing BOM / NUL / `#!` line / lone CR / form feed / vertical tab / NBSP / U+2028 / U+2029,
    empty, white-space-only and comment-only inputs, inputs that stop in the middle of a string,
    a template, an escape, a call, a block."""
    base = "make total get 2 add 3\nshout(total)\n"
    odd = ["﻿", "\x00", "#!/usr/bin/env naija\n", "\r", "\x0c", "\x0b", " ", " ", " ",
           "﻿﻿", "\t", "\r\n", " \n", "​", "\x1a", "\x7f", "\\", "@", "`", "￾", "\U000e0001"]
    out = []
    for o in odd:
        out.append(o + base)                     # at the very beginning
        out.append(base + o)                     # at the very end, after the final newline
        out.append(base.rstrip("\n") + o)        # at the very end, no newline before it
    out += list(odd)                             # alone
    out += ["", " ", "\n", "\n\n\n", "  \t \n  ", "# only a comment", "# comment\n", "#", "#\n#\n", "# café ﻿",
            "shout(1)\r", "shout(1)\rshout(2)\r", "shout(1)\n\rshout(2)", 'shout("a\rb")\n', 'shout("﻿")\n',
            "shout(1)\n﻿shout(2)\n", "shout(1)\x0cshout(2)\n", "shout(1) \x00 shout(2)\n", "shout(1) shout(2)\n"]
    out += ['shout("abc', 'shout("a {x', 'shout("a {', 'shout("a\\', 'shout("a\\n', 'make s get "x {', 'shout("{', '"', "'", 'shout(',
            'shout(1', 'do f() start', 'do f() start\n    return 1\n', 'jasi (1 na 1) start\nshout(1)\n', 'shout("a" add', 'shout("\\u',
            'shout("\\x4', 'make', 'make x', 'make x get', 'if to say (', 'shout([1, 2', 'shout(1)\nend', 'shout("café',
            'shout("x") #', 'shout("a\\q")\n', 'shout("a\nb")\n', 'make x get 1.\n', 'make x get 1e\n', 'shout(1)#\r\nshout(2)\r\n']
    seen, res = set(), []
    for t in out:
        if t not in seen:
            seen.add(t)
            res.append(("framing", t))
    return res


def analysis_caps():
    """max_summary_events / max_functions of DEFAULT_CAPS, read from the source under test."""
    try:
        txt = open(os.path.join(common.REPO, "src", "analysis", "limits.rs")).read()
        m = re.search(r"DEFAULT_CAPS\s*:\s*AnalysisCaps\s*=\s*AnalysisCaps\s*\{(.*?)\};", txt, re.S)
        caps = {k: int(v.replace("_", "")) for k, v in re.findall(r"(\w+)\s*:\s*([\d_]+)", m.group(1))}
        return caps.get("max_summary_events", 16777216), caps.get("max_functions", 16384)
    except Exception:                          # noqa
        return 16777216, 16384


def many_functions(n):
    """n called one-line functions: with n just above sqrt(max_summary_events) (or above max_functions)
    the resolver gives up its analyses — one warning, no optimisation plan — and the program must
    still run."""
    lines = ["do f%x() start return %d end" % (i, i % 10) for i in range(n)]
    lines.append('shout("first")')
    lines.append("shout(f1() add f%x() add f%x())" % (n // 2, n - 1))
    lines.append("make acc get 0")
    lines.append("make i get 0")
    lines.append("jasi (i small pass 5) start")
    lines.append("    acc get acc add f%x() add i" % (n - 2))
    lines.append("    i get i add 1")
    lines.append("end")
    lines.append("shout(acc)")
    lines.append('shout("done")')
    return "\n".join(lines) + "\n"


PATH_CORPUS = [
    # plan with pruned statements and a pruned function, warnings, output
    ("prunes", 'do never() start\n    return 1\nend\nmake a get 1\na get 2\nmake b get 5\nshout(b)\ndo f() start\n    return 3\n    shout("unreachable")\nend\nshout(f())\n'),
    # warnings only, nothing printed
    ("warnonly", 'make unused get 1\n'),
    # clean: a plan with nothing to prune, no diagnostics
    ("clean", 'make t get 0\nmake i get 0\njasi (i small pass 4) start\n    t get t add i\n    i get i add 1\nend\nshout(t)\n'),
    # runtime error after output and after a warning
    ("rterr", 'make unused get 1\nshout("one")\nmake z get 0\nshout(4 divide z)\nshout("never")\n'),
    # resolver error together with warnings
    ("reserr", 'make unused get 1\nshout(nobody)\n'),
    # non-ASCII in output, comments and diagnostics
    ("utf8", '# café 日本 \U0001f600\nmake s get "café 日本 \U0001f600"\nshout(s)\nshout(s.len())\nshout(naïve)\n'),
]


def garbage_programs():
    """Tiny live data, a lot of per-iteration garbage: about three times the CLI's scratch capacity
    (read from main.rs) in temporaries that only the frame arena's resets reclaim.  A wiring that
    loses the frame arena, or whose frame resets stop working, runs out of arena space here."""
    try:
        gs = gen_scratch_module()
        raw = gs.read("src/bin/naija/main.rs")
        m = re.search(r'target_pointer_width\s*=\s*"64"\)\]\s*const\s+\w+\s*:\s*usize\s*=\s*([^;]+);', raw)
        cap = gs.const_expr(m.group(1))
    except Exception:                          # noqa
        cap = 256 << 20
    iters = max(3 * cap // (2 * 65536), 64)
    head = 'make big get "x"\nmake k get 0\njasi (k small pass 16) start\n    big get big add big\n    k get k add 1\nend\nmake total get 0\nmake i get 0\n'
    a = head + 'jasi (i small pass %d) start\n    total get total add (big add "y").len()\n    i get i add 1\nend\nshout(big.len())\nshout(total)\n' % iters
    b = head + 'jasi (i small pass %d) start\n    total get total add ("{big}!").len() add ("<" add big).len()\n    i get i add 1\nend\nshout(total)\n' % (iters // 2)
    return [("garbage", a), ("garbage", b)]


def path_programs(env, res):
    """Programs for the paths through run_source that random programs do not reach: the resolver
    leaves no plan (an analysis cap is exceeded)."""
    cap_s, cap_f = analysis_caps()
    out = garbage_programs()
    n1 = int(cap_s ** 0.5) + 12
    if n1 <= 20000:
        out.append(("noplan", many_functions(n1)))
    if env.tier != "quick" and cap_f + 1 <= 40000:
        out.append(("noplan", many_functions(cap_f + 1)))
    return out


# ------------------------------------------------------------------------------------------
# stream (b): back-to-back runs through the playground entry point

def read_wiring(name):
    """The script and capacity of the playground entry point, read from the source under test by
    the same reader that generates GenWiring.v (called directly: the generated file is shared
    with checks that may run against another tree at the same time), as the word list the
    harness's scripted replica executes."""
    import importlib.util
    spec = importlib.util.spec_from_file_location("gen_scratch", os.path.join(common.VERIF, "translator", "gen_scratch.py"))
    gs = importlib.util.module_from_spec(spec)
    spec.loader.exec_module(gs)
    gs.REPO = common.REPO
    cap, evs = gs.wasm_wiring()
    words = []
    for ev in evs:
        ev = ev.strip()
        if ev == "WBorrow (WNone)":
            words.append("Bn")
        elif re.fullmatch(r"WBorrow \(WHandle (\d+)\)", ev):
            words.append("Bh%s" % re.fullmatch(r"WBorrow \(WHandle (\d+)\)", ev).group(1))
        elif ev == "WDrop":
            words.append("D")
        elif re.fullmatch(r"WParse (\d+)", ev):
            words.append("P%s" % ev.split()[1])
        elif re.fullmatch(r"WResolve (\d+) (\d+)", ev):
            words.append("R%s,%s" % tuple(ev.split()[1:]))
        elif re.fullmatch(r"WRun (\d+) (\d+)", ev):
            words.append("X%s,%s" % tuple(ev.split()[1:]))
        else:
            raise RuntimeError("unknown wiring event %r" % ev)
    return cap, words


def run_wasm(env, name, seqs, scripted=True, srcmode="heap"):
    """seqs: list of (seq id, [(prog id, src)]).  Returns {seq id: [records]}, error text.
    scripted: execute the wiring read from the current wasm/src/lib.rs (else the literal copy
    of the entry point kept in the harness)."""
    inp = os.path.join(env.work, name + ".in")
    outp = os.path.join(env.work, name + ".out")
    with open(inp, "w") as f:
        if scripted:
            cap, words = read_wiring("wasm")
            f.write("W %d %s\n" % (cap, " ".join(words)))
            f.write("M %s\n" % srcmode)
        for sid, ps in seqs:
            f.write("S %s\n" % sid)
            for pid, src in ps:
                f.write("P %s %s\n" % (pid, hx(src)))
    rc, out = common.sh([common.harness_bin(), "pipeline", "wasm", inp, outp], timeout=3000)
    got = {}
    cur = None
    if os.path.exists(outp):
        for l in open(outp).read().splitlines():
            t = l.split()
            if not t:
                continue
            if t[0] == "S":
                cur = got.setdefault(t[1], [])
            elif t[0] == "R" and cur is not None:
                rec = {"id": t[1], "end": t[2]}
                for kv in t[3:]:
                    if "=" in kv:
                        k, v = kv.split("=", 1)
                        rec[k] = v
                cur.append(rec)
            elif t[0] == "ABORT" and cur is not None:
                cur.append({"id": None, "end": "abort", "why": t[2]})
    return got, (out if rc else "")


def playground_expected(rec):
    """What wasm run_source returns for a program, computed from the library record: the
    rendered diagnostics of the failing phase, or warnings followed by the joined output."""
    fn = b"playground.ns"
    if rec.get("crash"):
        return None
    if rec["status"] != 0:
        return unhx(rec["post"]).replace(PLACEHOLDER.encode(), fn)
    return (unhx(rec["pre"]) + unhx(rec["post"])).replace(PLACEHOLDER.encode(), fn) + unhx(rec["out"])


def stream_sequences(env, progs, res, n_seq, seq_len, recs):
    rng = env.rng
    singles = [("a%d" % i, [("%d" % i, src)]) for i, (_, src) in enumerate(progs)]
    got, err = run_wasm(env, "alone", singles)
    if err:
        res["disagreements"].append({"stream": "playground-sequences", "error": "harness failed: " + err[-400:]})
        return
    # the literal copy of the entry point and the scripted one must agree on a sample
    lit, err2 = run_wasm(env, "literal", singles[:40], scripted=False)
    for sid, _ in singles[:40]:
        a, b = got.get(sid, []), lit.get(sid, [])
        if [(r.get("end"), r.get("res")) for r in a] != [(r.get("end"), r.get("res")) for r in b]:
            res["disagreements"].append({"stream": "playground-replica", "error": "scripted replica (wiring read from wasm/src/lib.rs) and the "
                                         "literal copy of run_source kept in the harness give different results: the entry point changed",
                                         "program": progs[int(sid[1:])][1]})
            break
    alone = {}
    crashed = 0
    vs_lib = {"equal": 0, "skipped": 0}
    for i in range(len(progs)):
        rs = got.get("a%d" % i, [])
        if len(rs) == 1 and rs[0]["end"] == "ok":
            alone[i] = rs[0]
            want = playground_expected(recs.get(str(i), {"crash": "?"}))
            if want is None:
                vs_lib["skipped"] += 1
            elif canon_overflow(unhx(rs[0]["res"])) != canon_overflow(want):
                vs_lib["different"] = vs_lib.get("different", 0) + 1
                if vs_lib["different"] <= 5:
                        res["failures"].append({"key": "playground-vs-lib:" + common.chash(progs[i][1]), "stream": "playground-vs-library",
                                            "case": {"src": progs[i][1], "kind": progs[i][0]},
                                            "observed": "playground entry point returns %r, the library pipeline with separate arenas gives %r"
                                                        % (unhx(rs[0]["res"])[-200:], want[-200:])})
            else:
                vs_lib["equal"] += 1
                res["evaluations"] += 1
            if rs[0].get("after") != "0,0,0,0":
                res["failures"].append({"key": "not-restored:" + common.chash(progs[i][1]), "stream": "playground-sequences",
                                        "case": {"src": progs[i][1]}, "observed": "scratch arenas not back at offset 0 / commit 0 after the run: " + str(rs[0].get("after"))})
        else:
            crashed += 1
            rec = recs.get(str(i), {"crash": "?"})
            if not rec.get("crash") and len(res["failures"]) < 5:
                how = rs[0] if rs else {"end": "nothing"}
                msg = unhx(how.get("msg", "-")).decode("utf-8", "replace") if how.get("msg") else how.get("why", "")
                res["failures"].append({"key": "playground-crash:" + common.chash(progs[i][1]), "stream": "playground-vs-library",
                                        "case": {"src": progs[i][1], "kind": progs[i][0]},
                                        "observed": "playground entry point ends with %s (%s) where the library pipeline finishes with status %d"
                                                    % (how.get("end"), msg[:200], rec["status"])})
    usable = sorted(alone)
    if not usable:
        return
    seqs = []
    for s in range(n_seq):
        pick = [rng.choice(usable) for _ in range(max(2, seq_len // 2))]
        order = pick + [rng.choice(pick) for _ in range(seq_len - len(pick))]   # every program twice or more on average
        if rng.random() < 0.5:
            order[1] = order[0]                                                  # immediately twice
        rng.shuffle(order[2:])
        seqs.append(("s%d" % s, [("%d" % i, progs[i][1]) for i in order]))
    got, err = run_wasm(env, "seqs", seqs)
    if err:
        res["disagreements"].append({"stream": "playground-sequences", "error": "harness failed: " + err[-400:]})
        return
    kinds = {}
    for sid, ps in seqs:
        rs = got.get(sid, [])
        res["evaluations"] += 1
        bad = None
        for k, (pid, src) in enumerate(ps):
            i = int(pid)
            if k >= len(rs) or rs[k]["end"] != "ok":
                bad = (k, "run %d of the sequence ended with %s where the stand-alone run is fine" % (k, rs[k]["end"] if k < len(rs) else "nothing"))
                break
            r, a = rs[k], alone[i]
            if r["res"] != a["res"]:
                bad = (k, "result differs from the stand-alone run: seq=%r alone=%r" % (unhx(r["res"])[-200:], unhx(a["res"])[-200:]))
                break
            if r["printed"] != a["printed"]:
                bad = (k, "printed output differs from the stand-alone run")
                break
            if r.get("after") != "0,0,0,0":
                bad = (k, "scratch arenas not restored after the run: %s" % r.get("after"))
                break
            kinds[progs[i][0]] = kinds.get(progs[i][0], 0) + 1
        if bad:
            k, why = bad
            n_fail = sum(1 for f in res["failures"] if f.get("stream") == "playground-sequences")
            if n_fail >= 6:
                continue
            small = [src for _, src in ps[:k + 1]]
            if n_fail == 0:
                small = shrink_sequence(env, small)
            res["failures"].append({"key": "history-dependent:" + common.chash("\x00".join(small)), "stream": "playground-sequences",
                                    "case": {"sequence": small}, "observed": why})
        else:
            ks = set(progs[int(pid)][0] for pid, _ in ps)
            if len(ks) >= 2 and "ok" in ks:
                res["_nontrivial"].add("seq:" + common.chash("\x00".join(src for _, src in ps)))
    res["extra"]["playground_vs_library"] = vs_lib
    res["extra"]["sequence_program_kinds"] = kinds
    res["extra"]["programs_crashing_standalone_in_replica"] = crashed


def sequence_fails(env, srcs, srcmode="heap"):
    """True when the last program of the sequence behaves differently than alone."""
    seqs = [("q", [("%d" % i, s) for i, s in enumerate(srcs)]), ("l", [("0", srcs[-1])])]
    got, err = run_wasm(env, "shr", seqs, srcmode=srcmode)
    q, l = got.get("q", []), got.get("l", [])
    if err or len(l) != 1 or l[0]["end"] != "ok":
        return False
    if len(q) != len(srcs) or q[-1]["end"] != "ok":
        return True
    return q[-1]["res"] != l[0]["res"] or q[-1]["printed"] != l[0]["printed"] or q[-1].get("after") != "0,0,0,0"


def shrink_sequence(env, srcs):
    if not sequence_fails(env, srcs):
        return srcs
    cur = list(srcs)
    i = 0
    while i < len(cur) - 1:
        cand = cur[:i] + cur[i + 1:]
        if sequence_fails(env, cand):
            cur = cand
        else:
            i += 1
    return cur


# ------------------------------------------------------------------------------------------
# scripts of identical shape and length run back to back (edit a constant, press Run again)

TOKEN_RE = re.compile(r'(?P<str>"(?:[^"\\]|\\.)*")|(?P<com>#[^\n]*)|(?P<num>\b\d+(?:\.\d+)?\b)|(?P<bool>\btrue (?= )|\bfalse\b)|(?P<id>\b[a-z]\d+\b)')
ID_MAP = str.maketrans("nsawbrfpiv", "ghjkltuqoe")


def same_shape_variant(rng, src, what, only=None):
    """A script with the same byte length and the same token offsets as src in which the literals of
    kind `what` ('num' | 'str' | 'bool' | 'id' | 'all') carry other content.  only=k: just the k-th
    such token is changed (scripts that differ in one token)."""
    count = [0]

    def rep(m):
        kind = m.lastgroup
        if kind == "com" or (what != "all" and kind != what):
            return m.group(0)
        t = m.group(0)
        if kind == "num":
            new = "".join(rng.choice([d for d in "123456789" if d != c]) if c in "123456789" else c for c in t)
        elif kind == "str":
            if "{" in t or "\\" in t or not t.isascii():
                return t
            new = "".join(chr((ord(c) - 97 + 7) % 26 + 97) if c.islower() else (chr((ord(c) - 65 + 5) % 26 + 65) if c.isupper() else c) for c in t)
        elif kind == "bool":
            new = "false" if t.startswith("true") else "true "
        else:
            new = t.translate(ID_MAP) if what in ("id", "all") else t
        if new == t:
            return t
        count[0] += 1
        if only is not None and count[0] - 1 != only:
            return t
        return new

    out = TOKEN_RE.sub(rep, src)
    assert len(out.encode()) == len(src.encode())
    return out, count[0]


SHAPE_TEMPLATES = [
    'make x get 20\nshout(x add 1)\n',
    'make t get 10\nmake i get 0\njasi (i small pass 5) start\n    t get t add 37 times i minus 4\n    i get i add 1\nend\nshout(t)\nshout(t add 2.5)\n',
    'make s get "ada"\nshout(s add "chi")\nshout(s.len() add 40)\nshout("Bola is {s}")\n',
    'do f1(p1, p2) start\n    return p1 times 11 add p2\nend\nshout(f1(12, 13))\nshout(f1(24, 25) add 26)\n',
    'make a get [10, 20, 30]\na[1] get 44\nshout(a)\nshout(a[2] minus 15)\nmake w get ["ada", "chi", "obi"]\nshout(w.join("xy"))\n',
    'make b get true  and (31 pass 22)\nif to say (b) start\n    shout(51)\nend\nif not so start\n    shout(62)\nend\nshout(false or (14 na 14))\n',
    'make n get 12.5\nshout(n divide 2.5)\nshout((n add 17) mod 4)\nshout(to_string(99) add "zed")\n',
]


def host_error_family():
    """Scripts that end with different host errors (the message of the diagnostic comes from the
    operating system): what one run reported must not colour what the next one reports."""
    return ['make c get command("%s")\nmake r get c.run()\nshout(r.exit_code())\n' % p
            for p in ("/nonexistent/prog", "/etc/hostname", "/tmp", "/nonexistent/dir/")]


def stream_same_shape(env, progs, res):
    rng = env.rng
    bases = list(SHAPE_TEMPLATES)
    oks = [src for kind, src in progs if kind == "ok" and len(src) < 1500]
    bases += oks[:(10 if env.tier == "quick" else 120)]
    families = []
    for b in bases:
        fam = [b]
        for what in ("num", "str", "id", "bool", "all"):
            v, n = same_shape_variant(rng, b, what)
            if n and v not in fam:
                fam.append(v)
            if n > 1:
                v1, _ = same_shape_variant(rng, b, what, only=rng.randrange(n))     # one token only
                if v1 not in fam:
                    fam.append(v1)
        if len(fam) > 1:
            families.append(fam)
    families.append(host_error_family())
    stats = {"families": len(families), "scripts": sum(len(f) for f in families), "runs": 0, "failed": 0}
    for mode in ("heap", "arena"):
        singles, idx = [], {}
        for fi, fam in enumerate(families):
            for vi, src in enumerate(fam):
                idx[(fi, vi)] = "a%d_%d" % (fi, vi)
                singles.append((idx[(fi, vi)], [("0", src)]))
        got, err = run_wasm(env, "shape_alone_" + mode, singles, srcmode=mode)
        if err:
            res["disagreements"].append({"stream": "same-shape-sequences", "error": "harness failed: " + err[-300:]})
            return
        seqs = []
        for fi, fam in enumerate(families):
            order = [0, 1, 0] + list(range(2, len(fam))) + [1, len(fam) - 1, 0]
            seqs.append(("q%d" % fi, [("%d" % vi, fam[vi]) for vi in order]))
        sgot, err = run_wasm(env, "shape_seq_" + mode, seqs, srcmode=mode)
        if err:
            res["disagreements"].append({"stream": "same-shape-sequences", "error": "harness failed: " + err[-300:]})
            return
        for fi, fam in enumerate(families):
            sid, ps = seqs[fi]
            rs = sgot.get(sid, [])
            res["evaluations"] += 1
            bad = None
            for k, (vid, src) in enumerate(ps):
                al = got.get(idx[(fi, int(vid))], [])
                if len(al) != 1 or al[0]["end"] != "ok":
                    break                                  # crashes alone: not this property's business
                stats["runs"] += 1
                if k >= len(rs) or rs[k]["end"] != "ok":
                    bad = (k, "run %d of the sequence ended with %s where the stand-alone run is fine" % (k, rs[k]["end"] if k < len(rs) else "nothing"))
                elif rs[k]["res"] != al[0]["res"] or rs[k]["printed"] != al[0]["printed"]:
                    bad = (k, "after scripts of the same shape, run %d returns %r; alone it returns %r"
                           % (k, unhx(rs[k]["res"])[-160:], unhx(al[0]["res"])[-160:]))
                elif rs[k].get("after") != "0,0,0,0":
                    bad = (k, "scratch arenas not restored after run %d: %s" % (k, rs[k].get("after")))
                if bad:
                    break
            if bad:
                stats["failed"] += 1
                k, why = bad
                if sum(1 for f in res["failures"] if f.get("stream") == "same-shape-sequences") < 4:
                    seq = [src for _, src in ps[:k + 1]]
                    # keep only what is needed: the failing script and the earlier one that poisons it
                    for j in range(k):
                        if sequence_fails(env, [seq[j], seq[-1]], srcmode=mode):
                            seq = [seq[j], seq[-1]]
                            break
                    res["failures"].append({"key": "same-shape:" + common.chash("\x00".join(seq) + mode), "stream": "same-shape-sequences",
                                            "case": {"sequence": seq, "source": mode}, "observed": why + " (source text %s)" %
                                            ("copied into the scratch arena first, as `naija -` does" if mode == "arena" else "in a heap string per call, as the playground does")})
            else:
                res["_nontrivial"].add("shape:%s:%s" % (mode, common.chash("\x00".join(fam))))
    res["extra"]["same_shape_sequences"] = stats


# ------------------------------------------------------------------------------------------
# runs that consume standard input, one after another in one process

def reader_program(tag, k, style):
    """k calls of read_line, each result printed between brackets."""
    if k == 0:
        return 'shout("%s: no input wanted")\n' % tag
    if style == "vars":
        return "".join('make v%d get read_line("")\nshout("%s.%d=[{v%d}]")\n' % (i, tag, i, i) for i in range(k))
    if style == "direct":
        return "".join('shout("%s.%d=[" add read_line("") add "]")\n' % (tag, i) for i in range(k))
    return ('make i get 0\njasi (i small pass %d) start\n    make l get read_line("")\n    shout("%s.{i}=[{l}]")\n'
            '    i get i add 1\nend\n' % (k, tag))


def reader_expected(tag, k, lines):
    if k == 0:
        return ("%s: no input wanted" % tag).encode()
    return b"\n".join(("%s.%d=[" % (tag, i)).encode() + l + b"]" for i, l in enumerate(lines))


def split_oracle(content, k):
    """C17's reference (its theorem: for every chunking the k successive calls of one process return
    the pieces between newlines, then "" for ever) — runs only partition the calls."""
    ls = content.split(b"\n") + [b""] * k
    return ls[:k]


def remainder_after(content, j):
    ps = content.split(b"\n")
    return b"\n".join(ps[j:]) if j < len(ps) else b""


def run_wasm_stdin(env, name, srcs, content, cuts=None, hold=0.0):
    """One harness process = one sequence of playground runs; its standard input is a pipe carrying
    `content`, written in one piece (cuts None) or in pieces each awaited until read."""
    inp = os.path.join(env.work, name + ".in")
    outp = os.path.join(env.work, name + ".out")
    with open(inp, "w") as f:
        cap, words = read_wiring("wasm")
        f.write("W %d %s\nS q\n" % (cap, " ".join(words)))
        for i, src in enumerate(srcs):
            f.write("P %d %s\n" % (i, hx(src)))
    if os.path.exists(outp):
        os.remove(outp)
    p = subprocess.Popen([common.harness_bin(), "pipeline", "wasm", inp, outp], stdin=subprocess.PIPE,
                         stdout=subprocess.DEVNULL, stderr=subprocess.PIPE)
    pipe_feed(p, content, cuts or [], wait=0.6, hold=hold)
    try:
        p.stdin = None
        p.communicate(timeout=120)
    except subprocess.TimeoutExpired:
        p.kill()
        p.communicate()
        return None
    recs = []
    if os.path.exists(outp):
        for l in open(outp).read().splitlines():
            t = l.split()
            if t and t[0] == "R":
                rec = {"end": t[2]}
                for kv in t[3:]:
                    if "=" in kv:
                        k, v = kv.split("=", 1)
                        rec[k] = v
                recs.append(rec)
            elif t and t[0] == "ABORT":
                recs.append({"end": "abort"})
    for f_ in (inp, outp, outp + ".cap"):
        if os.path.exists(f_):
            os.remove(f_)
    return recs


STDIN_TEXTS = [b"", b"first", b"first\n", b"first\nsecond", b"first\nsecond\n", b"a\n\nb", b"\n", b"\n\n", b"one\ntwo\nthree",
               "é\n日本\r\nlast\U0001f600".encode(), b"x" * 9000 + b"\ntail", b"l1\nl2\nl3\nl4\nunterminated",
               b"only-newline-terminated\n", b"a\nb\nc\nd\ne\nf\n", b"tab\tand space \n  indented tail"]


def gen_stdin_cases(rng, tier):
    """(content, cuts | None, hold, [k per run], style).  Earlier runs read under every kind of ending
    (last line terminated or not, everything in one write or trickled — tail in the same read as an
    earlier line or in a read of its own —, end of input seen at once or late, hit never / once /
    repeatedly, within one run and across runs, no input at all); later runs are probes."""
    out = []
    n = 0
    texts = list(STDIN_TEXTS)
    for _ in range(4 if tier == "quick" else 60):
        ls = [rng.choice([b"w%d" % rng.randint(0, 99), b"", b"caf\xc3\xa9", b"x" * rng.choice([1, 50, 8191, 8192, 8193])]) for _ in range(rng.randint(1, 6))]
        texts.append(b"\n".join(ls) + (b"\n" if rng.random() < 0.5 else b""))
    for text in texts:
        nl = len(text.split(b"\n"))
        shapes = [[nl + 1, 1, 1], [nl, 1, 2], [1] * (nl + 2), [0, nl + 2, 0, 1], [max(nl - 1, 0), 3, 1]]
        if tier != "quick":
            shapes += [[nl + 3], [2, 2, 2], [rng.randint(0, 3) for _ in range(rng.randint(2, 6))]]
        line_cuts = [i + 1 for i, b in enumerate(text) if b == 10]
        deliveries = [(None, 0.0), (None, 0.15), (line_cuts, 0.0)]
        if len(text) > 2:
            deliveries.append(([rng.randint(1, len(text) - 1)], 0.0))
            deliveries.append((line_cuts[-1:] if line_cuts else [len(text) // 2], 0.1))      # the tail in a write of its own
        for si, ks in enumerate(shapes):
            cuts, hold = deliveries[(n + si) % len(deliveries)] if tier == "quick" else deliveries[rng.randrange(len(deliveries))]
            out.append((text, cuts, hold, ks, ["vars", "direct", "loop"][(n + si) % 3]))
        n += 1
    if tier == "quick":
        # keep the quick tier small but cover every text with at least two shapes and every delivery
        out = [c for i, c in enumerate(out) if i % 5 in (0, 1, 3)]
    return out


def stream_stdin_runs(env, res):
    cases = gen_stdin_cases(env.rng, env.tier)
    alone_cache = {}
    lock = __import__("threading").Lock()

    def fresh(src, rest, tag):
        key = (src, rest)
        with lock:
            if key in alone_cache:
                return alone_cache[key]
        r = run_wasm_stdin(env, "alone_%s" % tag, [src], rest)
        with lock:
            alone_cache[key] = r
        return r

    def one(ic):
        i, (text, cuts, hold, ks, style) = ic
        # every fourth sequence runs ONE script text again and again (same script, different input left)
        tags = ["r" if i % 4 == 1 else "r%d" % r for r in range(len(ks))]
        srcs = [reader_program(tags[r], k, style) for r, k in enumerate(ks)]
        recs = run_wasm_stdin(env, "seq_%d" % i, srcs, text, cuts, hold)
        lines = split_oracle(text, sum(ks))
        problems = []
        if recs is None or len(recs) != len(ks) or any(r["end"] != "ok" for r in recs):
            problems.append("the sequence did not finish: %s" % ([r.get("end") for r in recs] if recs else "timeout"))
            return i, problems
        j = 0
        for r, k in enumerate(ks):
            got = unhx(recs[r]["res"])
            want = reader_expected(tags[r], k, lines[j:j + k])
            if got != want:
                problems.append("run %d of the process printed %r; the input not yet consumed at that point is %r, so it must print %r"
                                % (r, got[-160:], remainder_after(text, j)[:80], want[-160:]))
            elif k > 0:
                al = fresh(srcs[r], remainder_after(text, j), "%d_%d" % (i, r))
                if not al or al[0].get("end") != "ok" or unhx(al[0]["res"]) != got:
                    problems.append("run %d prints %r in the sequence but %r in a fresh process whose standard input is the remaining %r"
                                    % (r, got[-160:], unhx(al[0]["res"])[-160:] if al and al[0].get("res") else None, remainder_after(text, j)[:80]))
            if recs[r].get("after") != "0,0,0,0":
                problems.append("scratch arenas not restored after run %d: %s" % (r, recs[r].get("after")))
            j += k
        return i, problems

    stats = {"sequences": 0, "runs": 0, "failed": 0}
    with ThreadPoolExecutor(max_workers=8) as ex:
        results = list(ex.map(one, enumerate(cases)))
    for i, problems in results:
        text, cuts, hold, ks, style = cases[i]
        res["evaluations"] += 1
        stats["sequences"] += 1
        stats["runs"] += len(ks)
        if problems:
            stats["failed"] += 1
            if sum(1 for f in res["failures"] if f.get("stream") == "stdin-run-sequences") < 4:
                res["failures"].append({"key": "stdin-runs:" + common.chash("%r%r%r%r%s" % (text, cuts, hold, ks, style)),
                                        "stream": "stdin-run-sequences",
                                        "case": {"stdin_hex": text.hex(), "cuts": cuts, "hold": hold, "reads_per_run": ks, "style": style,
                                                 "same_script": i % 4 == 1},
                                        "observed": problems[0]})
        elif sum(ks) > len(text.split(b"\n")) and len(ks) > 1:
            res["_nontrivial"].add("stdin:" + common.chash("%r%r%r" % (text, ks, cuts)))
    # the same through the shipped binary, one run per process: end of input hit repeatedly in one run
    wd = os.path.join(env.work, "cli")
    os.makedirs(wd, exist_ok=True)

    def cli_one(ic):
        i, (text, cuts, hold, ks, style) = ic
        k = len(text.split(b"\n")) + 2
        src = reader_program("c", k, style)
        path = os.path.join(wd, "rd_%d.ns" % i)
        open(path, "w").write(src)
        e = dict(os.environ)
        e.pop("RUST_BACKTRACE", None)
        p = subprocess.Popen([common.naija_bin(), path], stdin=subprocess.PIPE, stdout=subprocess.PIPE, stderr=subprocess.PIPE, env=e)
        pipe_feed(p, text, cuts or [], wait=0.6, hold=hold)
        try:
            p.stdin = None
            so, se = p.communicate(timeout=60)
        except subprocess.TimeoutExpired:
            p.kill()
            p.communicate()
            return i, None
        want = reader_expected("c", k, split_oracle(text, k)) + b"\n"
        if p.returncode != 0 or so != want:
            return i, "naija (reads %d lines) exits %d and prints %r, expected %r" % (k, p.returncode, so[-200:], want[-200:])
        return i, ""

    sel = [ic for ic in enumerate(cases) if ic[0] % 3 == 0]
    with ThreadPoolExecutor(max_workers=8) as ex:
        cres = list(ex.map(cli_one, sel))
    stats["cli_reader_runs"] = len(cres)
    for i, why in cres:
        res["evaluations"] += 1
        if why:
            stats["failed"] += 1
            text, cuts, hold, ks, style = cases[i]
            if sum(1 for f in res["failures"] if f.get("stream") == "stdin-cli-reader") < 3:
                res["failures"].append({"key": "stdin-cli:" + common.chash("%r%r%r" % (text, cuts, hold)), "stream": "stdin-cli-reader",
                                        "case": {"stdin_hex": text.hex(), "cuts": cuts, "hold": hold, "style": style}, "observed": why})
    res["extra"]["stdin_consuming_runs"] = stats


# ------------------------------------------------------------------------------------------
# stream (c): scratch API histories, implementation vs extracted model

SIZES = [0, 1, 7, 8, 9, 63, 64, 128, 129, 160, 256, 257, 1000, 4095, 4096, 4097, 65535, 65536, 65537, 131072]


def gen_history(rng, hid, tier, cap):
    n = rng.randint(6, 50 if tier == "quick" else 160)
    lines = ["H %d" % hid, "I %d" % cap]
    depth = 0
    kinds = {}
    # pipeline-shaped prefix half of the time: the CLI wiring with client ops inside
    shaped = rng.random() < 0.5
    script = ["B n", None, "B h 0", None, "B h 1", None, "D", "D", None, "D"] if shaped else None

    def client():
        a = rng.randint(0, 1)
        r = rng.random()
        if r < 0.40:
            sz = rng.choice(SIZES) if rng.random() < 0.7 else rng.randint(0, 70000)
            if rng.random() < 0.05:
                sz = max(cap + rng.choice([-65536, -1, 0, 1]), 0)
            return "C %d %s %d %d" % (a, "A" if rng.random() < 0.8 else "Z", sz, rng.choice([0, 0, 1, 2, 3, 3, 4, 6, 12]))
        if r < 0.55:
            return "C %d G %d %d %d" % (a, rng.randint(0, 8), rng.choice(SIZES) if rng.random() < 0.7 else rng.randint(0, 70000), rng.randint(0, 1))
        if r < 0.62:
            return "C %d S %d %d" % (a, rng.randint(0, 8), rng.randint(0, 5000))
        if r < 0.72:
            return "C %d R %d" % (a, rng.randint(0, 300000))
        if r < 0.78:
            return "C %d RB %d" % (a, rng.randint(0, 8))
        if r < 0.82:
            return "C %d D" % a
        return "C %d W %d %d" % (a, rng.randint(0, 8), rng.randint(0, 250))

    if shaped:
        for s in script:
            if s is None:
                for _ in range(rng.randint(0, 8)):
                    lines.append(client())
            else:
                lines.append(s)
    else:
        lines.append("B n" if rng.random() < 0.7 else "B h 0")
        depth = 1
        for _ in range(n):
            r = rng.random()
            if r < 0.12:
                c = rng.random()
                lines.append("B n" if c < 0.3 else ("B o" if c < 0.4 else "B h %d" % rng.randint(0, 5)))
                depth += 1
            elif r < 0.22 and depth > 0:
                lines.append("D")
                depth -= 1
            elif r < 0.24:
                lines.append("I %d" % cap)      # legal only with no live borrow: both sides skip it otherwise
            else:
                lines.append(client())
        lines += ["D"] * depth
    for l in lines[2:]:
        k = l.split()[0] + (l.split()[2] if l.startswith("C ") else "")
        kinds[k] = kinds.get(k, 0) + 1
    return lines, kinds


FLAGS = ("CORRUPT", "OUTOFBOUNDS", "OVERLAP")


def sh_retry(cmd, timeout):
    """Other checks rebuild the shared nsmodel executable concurrently; while it is being
    replaced an exec can fail (ETXTBSY / EACCES / ENOENT).  Wait and retry a few times."""
    import time
    for attempt in range(6):
        try:
            rc, out = common.sh(cmd, timeout=timeout)
            if rc not in (126, 127):
                return rc, out
        except OSError as e:
            rc, out = 126, str(e)
        time.sleep(2 + 3 * attempt)
    return rc, out


def run_scratch(env, name, cap, hists, model=True, release=False):
    """One process: `X cap` then the histories in order.  Returns (impl groups, model groups, err)."""
    inp = os.path.join(env.work, name + ".in")
    oi = os.path.join(env.work, name + ".impl")
    om = os.path.join(env.work, name + ".model")
    for p in (oi, om):
        if os.path.exists(p):
            os.remove(p)
    body = "\n".join("\n".join(h) for h in hists) + "\n"
    open(inp, "w").write("X %d\n" % cap + body)
    rc1, o1 = common.sh([common.harness_bin(release), "pipeline", "scratch", inp, oi], timeout=1800)
    li = open(oi).read().splitlines() if rc1 == 0 and os.path.exists(oi) else None
    if li is None:
        return None, None, "impl rc=%s %s" % (rc1, o1[-400:])
    lm = None
    err = ""
    if model:
        m = re.match(r"X cap=(\d+) base0=(\d+) base1=(\d+)", li[0])
        minp = os.path.join(env.work, name + ".min")
        open(minp, "w").write("X %d %s %s\n" % (cap, m.group(2), m.group(3)) + body)
        rc2, o2 = sh_retry([common.NSMODEL, "scratch", "0" if release else "1", minp, om], timeout=1800)
        lm = open(om).read().splitlines() if rc2 == 0 and os.path.exists(om) else None
        if lm is None:
            err = "model rc=%s %s" % (rc2, o2[-400:])
    gi = common.group_by_header(li, lambda l: l.startswith("H "))
    gm = common.group_by_header(lm, lambda l: l.startswith("H ")) if lm is not None else None
    return (li[:1], gi), ((lm[:1], gm) if lm is not None else None), err


def strip_commit(line):
    """Drops the commit fields (positions 2 of each arena observation) from an observation line."""
    parts = line.split(" | ")
    out = [parts[0]]
    for p in parts[1:]:
        f = p.split()
        if len(f) >= 4:
            f = [f[0]] + f[2:]
        out.append(" ".join(f))
    return " | ".join(out)


def stream_scratch(env, res, n_hist, model, searching):
    rng = env.rng
    profiles = [False] if env.tier == "quick" else [False, True]
    per_proc = 25
    total_kinds = {}
    first_bad = False
    for release in profiles:
        done = 0
        proc = 0
        while done < n_hist and not first_bad:
            cap = rng.choice([65536, 65536 * 2, 65536 * 4, 65536 * 16, 1 << 20, 1 << 22])
            hists = []
            for k in range(per_proc):
                h, kinds = gen_history(rng, k, env.tier, cap)
                hists.append(h)
                for kk, v in kinds.items():
                    total_kinds[kk] = total_kinds.get(kk, 0) + v
            # history-independence oracle on the implementation: a few histories again at the end
            again = [list(hists[j]) for j in rng.sample(range(per_proc), 4)]
            for j, h in enumerate(again):
                h[0] = "H %d" % (per_proc + j)
            impl, mod, err = run_scratch(env, "sc%d_%d" % (int(release), proc % 4), cap, hists + again, model=model, release=release)
            proc += 1
            done += per_proc
            if impl is None:
                res["failures"].append({"key": "scratch-crash:" + common.chash("\n".join(hists[0])), "stream": "scratch-history",
                                        "history": ["X %d" % cap] + [l for h in hists for l in h], "observed": "harness crashed driving the scratch API: " + err})
                first_bad = True
                break
            gi = impl[1]
            gm = mod[1] if mod else None
            if model and gm is None:
                res["disagreements"].append({"stream": "scratch-history", "error": err})
                first_bad = True
                break
            for k, h in enumerate(hists + again):
                res["evaluations"] += 1
                a = gi[k] if k < len(gi) else None
                flags = [f for l in (a or []) for f in FLAGS if f in l]
                if a is None or flags:
                    res["failures"].append({"key": "scratch-oracle:" + common.chash("\n".join(h)), "stream": "scratch-history",
                                            "history": ["X %d" % cap] + h, "profile": "release" if release else "debug",
                                            "observed": "shadow ledger: " + ",".join(sorted(set(flags))) if flags else "no output"})
                    first_bad = True
                    break
                if gm is not None:
                    b = gm[k] if k < len(gm) else None
                    if a != b:
                        small = shrink_scratch(env, cap, hists[:k] if k < per_proc else hists, h, release)
                        res["disagreements"].append({"stream": "scratch-history", "history": small, "profile": "release" if release else "debug",
                                                     "impl": a[:12], "model": (b or [])[:12]})
                        first_bad = True
                        break
                if k >= per_proc:
                    j = hists.index(next(x for x in hists if x[1:] == h[1:]))
                    first = [strip_commit(l) for l in gi[j][1:]]
                    second = [strip_commit(l) for l in a[1:]]
                    if first != second:
                        res["failures"].append({"key": "reinit-dependent:" + common.chash("\n".join(h[1:])), "stream": "scratch-history",
                                                "history": ["X %d" % cap] + h, "profile": "release" if release else "debug",
                                                "observed": "the same history gives other addresses/results after re-initialisation later in the process"})
                        first_bad = True
                        break
                ops = set(l.split()[0] + (l.split()[2] if l.startswith("C ") else "") for l in h[2:])
                if len(ops) >= 5 and "B" in ops and any(o in ops for o in ("CR", "CRB", "CG")):
                    res["_nontrivial"].add("hist:" + common.chash("\n".join(h[1:])))
            if len(res["samples"]) < 4:
                h = min(hists, key=len)
                res["samples"].append({"history": h[:14], "impl_output": gi[hists.index(h)][:14]})
    res["extra"]["scratch_op_histogram"] = total_kinds
    res["extra"]["scratch_profiles"] = ["debug"] + (["release"] if env.tier == "thorough" else [])


def shrink_scratch(env, cap, before, h, release):
    """Shrinks history h (run alone in a fresh process) while impl and model disagree; falls back
    to the full process input when the disagreement needs the earlier histories."""
    def differs(hs):
        impl, mod, err = run_scratch(env, "shr", cap, hs, model=True, release=release)
        return impl is None or mod is None or impl[1] != mod[1]

    if differs([h]):
        small = common.ddmin_lines(h, lambda c: differs([c]), keep_head=2)
        return ["X %d" % cap] + small
    return ["X %d" % cap] + [l for x in before for l in x] + h


# ------------------------------------------------------------------------------------------

def correspond(env, searching=False, model=True):
    quick = env.tier == "quick"
    n_prog = 380 if quick else 4200
    n_seq, seq_len = (40, 8) if quick else (800, 12)
    n_hist = 600 if quick else 30000
    if searching:
        n_prog, n_seq, n_hist = n_prog * 2, n_seq * 2, n_hist * 2
    ok, out = common.build_naija()
    if not ok:
        raise RuntimeError("naija build failed: " + out[-2000:])
    if not quick:
        ok, out = common.build_harness(release=True)
        if not ok:
            raise RuntimeError("release harness build failed: " + out[-2000:])
    res = {"evaluations": 0, "distinct_nontrivial": 0, "rule": "", "samples": [], "failures": [],
           "disagreements": [], "extra": {}, "_nontrivial": set()}
    progs = list(CORPUS)
    cdir = os.path.join(common.VERIF, "gen", "corpus", "C14")
    if os.path.isdir(cdir):
        for fn in sorted(os.listdir(cdir)):
            if fn.endswith(".ns"):
                progs.append(("corpus", open(os.path.join(cdir, fn)).read()))
    sdir = os.path.join(common.REPO, "tests", "stress")       # the repository's own arena stress scripts
    if os.path.isdir(sdir):
        names = sorted(f for f in os.listdir(sdir) if f.endswith(".ns"))
        if quick:
            names = names[::3]
        for fn in names:
            progs.append(("stress", open(os.path.join(sdir, fn)).read()))
    progs += PATH_CORPUS
    progs += framing_texts()
    progs += gen_programs(env.rng, max(n_prog - len(progs), 10))
    n_small = len(progs)
    # large scripts: only through the CLI stream (all five input modes), not through the playground
    block = stdin_block()
    scripts = boundary_scripts(env.rng, block, env.tier)
    extra_cuts = {}
    for name, data, valid, cuts in scripts:
        if valid:
            extra_cuts[len(progs)] = cuts
            progs.append(("boundary", data.decode("utf-8")))
    progs += path_programs(env, res)
    kinds = {}
    for k, _ in progs:
        kinds[k] = kinds.get(k, 0) + 1
    res["extra"]["program_kinds"] = kinds
    res["extra"]["stdin_read_block"] = block
    recs = stream_cli(env, progs, res, searching, extra_cuts)
    stream_invalid(env, [x for x in scripts if not x[2]], res)
    progs = progs[:n_small]
    stream_sequences(env, progs, res, n_seq, seq_len, recs)
    stream_same_shape(env, progs, res)
    stream_stdin_runs(env, res)
    stream_scratch(env, res, n_hist, model, searching)
    res["distinct_nontrivial"] = len(res.pop("_nontrivial"))
    res["rule"] = ("(a) every program x {file, --eval, stdin by one write, stdin redirected from a file, stdin piped in pieces cut inside "
                   "characters}: stdout bytes and exit status of target/debug/naija vs the library pipeline with separate arenas, status 0 iff "
                   "no error diagnostic; includes scripts around every multiple of the stdin read block with 2-/3-/4-byte characters at every "
                   "offset across it, non-UTF-8 inputs (all modes must refuse), one program per path through run_source (no plan / prunes / "
                   "warnings only / errors / runtime error); non-trivial = distinct program that reached the runtime and printed or failed there, "
                   "or distinct refused non-UTF-8 input. (b) sequences of programs through the playground entry-point replica in one process vs each program alone "
                   "(results, printed bytes, both arenas back at offset 0/commit 0); non-trivial = distinct sequence mixing accepted and "
                   "failing programs. (c) scratch-API op histories, implementation vs extracted Scratch.v (borrow target, saved offset, "
                   "returned blocks, offsets, commits, live counts, checksums) with a byte-for-byte shadow ledger on the implementation and "
                   "re-runs of the same history later in the process; non-trivial = distinct history with >= 5 op kinds including a borrow "
                   "and a reset or grow")
    return res


def replay(env, payload):
    common.refresh_tables()
    common.build_naija()
    case = payload.get("case") or (payload.get("disagreements") or [{}])[0]
    inner = case.get("case", {})
    if case.get("stream") == "stdin-run-sequences":
        text = bytes.fromhex(inner["stdin_hex"])
        ks, style = inner["reads_per_run"], inner.get("style", "vars")
        tags = ["r" if inner.get("same_script") else "r%d" % r for r in range(len(ks))]
        srcs = [reader_program(tags[r], k, style) for r, k in enumerate(ks)]
        recs = run_wasm_stdin(env, "replay", srcs, text, inner.get("cuts"), inner.get("hold") or 0.0)
        lines = split_oracle(text, sum(ks))
        bad, j = recs is None or len(recs) != len(ks), 0
        print("standard input %r, cut at %s, reads per run %s" % (text[:200], inner.get("cuts"), ks))
        for r, k in enumerate(ks):
            got = unhx(recs[r]["res"]) if recs and r < len(recs) and recs[r].get("res") else None
            want = reader_expected(tags[r], k, lines[j:j + k])
            print("run %d: %r %s" % (r, got, "" if got == want else "  <-- expected %r" % want))
            bad = bad or got != want
            j += k
    elif case.get("stream") == "stdin-cli-reader":
        text = bytes.fromhex(inner["stdin_hex"])
        k = len(text.split(b"\n")) + 2
        path = os.path.join(env.work, "rd.ns")
        open(path, "w").write(reader_program("c", k, inner.get("style", "vars")))
        p = subprocess.Popen([common.naija_bin(), path], stdin=subprocess.PIPE, stdout=subprocess.PIPE, stderr=subprocess.PIPE)
        pipe_feed(p, text, inner.get("cuts") or [], wait=0.6, hold=inner.get("hold") or 0.0)
        p.stdin = None
        so, se = p.communicate(timeout=60)
        want = reader_expected("c", k, split_oracle(text, k)) + b"\n"
        print("standard input %r: naija prints %r, expected %r" % (text[:200], so, want))
        bad = p.returncode != 0 or so != want
    elif case.get("stream") == "invalid-utf8-input":
        data = bytes.fromhex(inner["hex"])
        fname, rc, so, se = run_cli(inner["mode"], data, env.work, "one", cuts=inner.get("cuts"))
        print("input %s (%d bytes, not UTF-8), %s mode: exit status %d, stdout %r, stderr %r" % (inner.get("name"), len(data), inner["mode"], rc, so[:200], se[-200:]))
        bad = rc not in (1, 2) or bool(so)
    elif "src" in inner and case.get("stream") == "cli-vs-library":
        v, detail = check_one_program(env, inner["src"], inner.get("mode", "eval"), cuts=inner.get("cuts"))
        print("program (%d bytes):\n%s" % (len(inner["src"].encode()), inner["src"] if len(inner["src"]) < 3000 else inner["src"][:600] + "\n...\n" + inner["src"][-600:]))
        print("verdict: %s %s" % (v, detail))
        bad = v == "fail"
    elif "src" in inner and case.get("stream") == "library-output-record":
        recs, err = run_lib(env, "one", [("0", inner["src"])])
        bad = bool(err) or not lib_record_consistent(recs.get("0", {"crash": "?"}))
        print("program:\n" + inner["src"])
    elif "src" in inner and case.get("stream") == "playground-vs-library":
        recs, err = run_lib(env, "one", [("0", inner["src"])])
        got, err2 = run_wasm(env, "one", [("a", [("0", inner["src"])])])
        r = got.get("a", [{}])
        want = playground_expected(recs.get("0", {"crash": "?"}))
        print("program:\n" + inner["src"])
        print("playground: %r\nlibrary: %r" % (unhx(r[0].get("res", "-")) if r else None, want))
        bad = bool(err) or bool(err2) or not r or r[0].get("end") != "ok" or want is None or \
            canon_overflow(unhx(r[0]["res"])) != canon_overflow(want)
    elif "src" in inner:
        got, err = run_wasm(env, "one", [("a", [("0", inner["src"])])])
        r = got.get("a", [{}])
        print(r)
        bad = bool(err) or not r or r[0].get("after") != "0,0,0,0"
    elif "sequence" in inner:
        bad = sequence_fails(env, inner["sequence"], srcmode=inner.get("source", "heap"))
        print("sequence of %d programs; last one:\n%s" % (len(inner["sequence"]), inner["sequence"][-1]))
    elif case.get("history"):
        common.build_nsmodel()
        hist = case["history"]
        cap = int(hist[0].split()[1])
        release = case.get("profile") == "release"
        if release:
            common.build_harness(release=True)
        hs = common.group_by_header(hist[1:], lambda l: l.startswith("H "))
        impl, mod, err = run_scratch(env, "replay", cap, hs, model=True, release=release)
        flat_i = [l for g in (impl[1] if impl else []) for l in g]
        flat_m = [l for g in (mod[1] if mod else []) for l in g]
        print("impl:\n" + "\n".join(flat_i or ["<crashed> " + err]))
        print("model:\n" + "\n".join(flat_m or ["<failed> " + err]))
        bad = impl is None or mod is None or flat_i != flat_m or any(f in l for l in flat_i for f in FLAGS)
    else:
        print("replay: no concrete case in this file (obligations: %s)" % payload.get("no_longer_checks"))
        return 1
    print("replay: %s" % ("still failing" if bad else "passes now"))
    return 1 if bad else 0
