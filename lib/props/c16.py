"""C16 — captured child output is complete or an error, never silently truncated.

Implementation side: `nsverif capture` runs a helper child (harness/helpers/c16_child.rs, compiled
here with plain rustc into <build>/c16/c16_child) through the real runtime (NaijaScript program
with the process built-ins, host policy with the chosen capture cap / poll interval, chosen
timeout), unpinned and pinned to one CPU.  The property oracle is evaluated on what the script
saw, the runtime error, the elapsed time and the liveness of the helper's pid.
Model side: `nsmodel capture` judges every observed outcome with the extracted `outcome_ok`
(theorem C16_outcome_ok_complete: it accepts every outcome of every schedule of the model) and
looks for it among the outcomes of a family of schedules run on the extracted transition function.
"""
import os
import re
import subprocess
import time

import common

TRUSTED_EXTRA = [
    "C16: the theorems quantify over ALL schedules of the model (interleavings of child, two readers, waiter, clock; "
    "all splits of reads/writes); the implementation's real thread timing is only SAMPLED (unpinned and pinned to one CPU, "
    "repetitions), so the tie between model and code is a sampled outcome-set inclusion, not an enumeration",
    "C16: modelled, not verified: std::process (spawn, pipes, kill, wait, try_wait), std::thread, AtomicU8 as sequentially "
    "consistent atomic steps, String::from_utf8 (model: Capture.utf8_valid), Linux pipe capacity 65536; the stdin writer "
    "thread, spawn failures, read(2) errors and grandchildren holding the pipes open are not modelled",
    "C16: translator/gen_capture.py (regex reading of src/sys/process_common.rs: chunk size, overflow test, flag update, codes, "
    "loop order, deadline test, join re-check shape, join orders); harness/helpers/c16_child.rs; the schedulers in "
    "coq/extract/mode_capture.ml (they only choose which extracted step to apply)",
]
ASSUMPTIONS = [
    "the Coq theorems speak about the ProcessResult the protocol returns; that the SCRIPT reads exactly those bytes back "
    "(wherever run() is evaluated and however the result is passed around before its fields are read) is covered by the "
    "differential/oracle only (placement x churn family, debug and release profiles), not by a theorem",
    "the child is the only holder of the write ends (no grandchild inherits them); stdin policy is null",
    "a timeout is judged against wall-clock time measured around the call (Timeout reported => elapsed >= timeout; "
    "planned child duration > timeout + poll + slack => not Ok); near the boundary both outcomes are accepted",
]
COQ_TIMEOUT = 1500
CAN_RUN_WITHOUT_MODEL = True      # the property oracle needs only the harness and the helper child

HELPER_SRC = os.path.join(common.HARNESS, "helpers", "c16_child.rs")
SLACK_MS = 400          # scheduling slack granted to a loaded machine when judging timing


def helper_bin():
    return os.path.join(common.BUILD, "c16", "c16_child")


def build_helper():
    out = helper_bin()
    os.makedirs(os.path.dirname(out), exist_ok=True)
    if os.path.exists(out) and os.path.getmtime(out) >= os.path.getmtime(HELPER_SRC):
        return
    rc, txt = common.sh(["rustc", "+nightly", "--edition=2024", "-O", HELPER_SRC, "-o", out + ".new"], timeout=600)
    if rc != 0:
        raise RuntimeError("c16 helper does not compile:\n" + txt[-2000:])
    os.replace(out + ".new", out)


# ------------------------------------------------------------------------------------------------
# cases

def case_line(c):
    s = "%s %d %s %s %d %s %d %d %s %d %s %s %s %s" % (
        c["id"], c["pin"], c["p1"], c["p2"], c["cap"], "-" if c["timeout"] is None else c["timeout"], c["poll"],
        c["n1"], c["k1"], c["n2"], c["k2"], ",".join(c["actions"]) or "-",
        c.get("place", "top"), c.get("churn", "none"))
    if c.get("caps"):
        s += " caps=" + ",".join("%s:%d" % kv for kv in sorted(c["caps"].items()))
    if c.get("stdin") is not None:
        s += " stdin=%d" % c["stdin"]
    return s


def cap_fields():
    """ProcessCaps field names in declaration order, as regenerated from src/process.rs."""
    txt = open(os.path.join(common.COQ, "theories", "GenCapture.v")).read()
    m = re.search(r"Definition all_cap_fields : list cap_field := \[(.*?)\]\.", txt)
    return [x.strip()[2:] for x in m.group(1).split(";")] if m else []


# How each field of ProcessCaps is exercised by section (7) of gen_cases.  A field of the regenerated
# list that is missing here is reported ("caps field not exercised").
EXERCISED = {
    "max_capture_bytes_per_stream": "outputs of cap and cap+1 bytes per stream, once as the smallest and once as the largest byte limit",
    "default_timeout_ms": "builder without timeout_ms(): child shorter / longer than the default (300..500 ms), far below max_timeout_ms",
    "max_timeout_ms": "explicit timeouts between default and max, at max, above max (refusal, nothing spawned)",
    "wait_poll_ms": "distinct small value; results of fast children must not be later than poll + slack; timeouts not before the deadline",
    "max_stdin_bytes": "differs from the capture limit in both directions (over-limit output must fail, stdin text below/at/above its own cap)",
    "max_program_bytes": "distinct value; an output of value+1 bytes must still be complete (not confused with the capture limit)",
    "max_cwd_bytes": "distinct value; output of value+1 bytes complete",
    "max_args": "distinct value; output of value+1 bytes complete",
    "max_arg_bytes": "distinct value; output of value+1 bytes complete",
    "max_total_arg_bytes": "distinct value; output of value+1 bytes complete",
    "max_env_pairs": "distinct value; output of value+1 bytes complete",
    "max_env_key_bytes": "distinct value; output of value+1 bytes complete",
    "max_env_value_bytes": "distinct value; output of value+1 bytes complete",
    "max_total_env_bytes": "distinct value; output of value+1 bytes complete",
}
CAPS_A = {"max_program_bytes": 4001, "max_cwd_bytes": 4002, "max_args": 41, "max_arg_bytes": 203, "max_total_arg_bytes": 2005,
          "max_env_pairs": 9, "max_env_key_bytes": 65, "max_env_value_bytes": 71, "max_total_env_bytes": 307,
          "max_stdin_bytes": 10007, "max_capture_bytes_per_stream": 60, "default_timeout_ms": 500, "max_timeout_ms": 3000,
          "wait_poll_ms": 7}
CAPS_B = dict(CAPS_A, max_program_bytes=121, max_cwd_bytes=110, max_stdin_bytes=64, max_capture_bytes_per_stream=5000)


def effective_timeout(c):
    """Deadline of the command as the property text has it: the explicit timeout, else the host's default;
    None = the command must be refused (0 or above max_timeout_ms)."""
    caps = c.get("caps")
    if c["timeout"] is not None:
        t = c["timeout"]
    else:
        t = caps["default_timeout_ms"] if caps else 900000
    mx = caps["max_timeout_ms"] if caps else 3600000
    if t == 0 or t > mx:
        return None
    return t


# where run() is evaluated and how its result travels to the place that reads the fields
# (harness/src/capture.rs build_script), and what allocates before the fields are read
PLACES = ["top", "fn_direct", "read_in_fn", "fn_local", "fn_array_lit", "fn_array_push", "global_push",
          "loop_push", "loop_local", "fn_loop", "nested", "arg_ident", "fields_in_fn", "fields_direct"]
CHURNS = ["none", "calls", "loop", "big", "second"]


def case_key(c):
    return common.chash(" ".join(case_line(c).split()[1:]))


def mk(cid, p1, p2, cap, n1, k1, n2, k2, code, shape, rng, pin=0, timeout=6000, poll=10, dur=0, sigpipe=False):
    """shape: order/splitting of the writes and where the child sleeps (dur ms in total)."""
    a = []
    if sigpipe:
        a.append("P")
    def w(tag, n, parts=1):
        if n <= 0:
            return []
        if parts == 1:
            return ["%s%d" % (tag, n)]
        k = max(1, n // 2)
        return ["%s%d" % (tag, k), "%s%d" % (tag, n - k)] if n - k > 0 else ["%s%d" % (tag, k)]
    if shape == "oe":
        a += w("o", n1) + w("e", n2)
    elif shape == "eo":
        a += w("e", n2) + w("o", n1)
    elif shape == "split":
        o = w("o", n1, 2)
        e = w("e", n2, 2)
        a += o[:1] + e[:1] + o[1:] + e[1:]
    elif shape == "sleep-first":
        a += ["s%d" % dur] + w("o", n1) + w("e", n2)
    elif shape == "sleep-last":
        a += w("o", n1) + w("e", n2) + ["s%d" % dur]
    elif shape == "sleep-mid":
        o = w("o", n1, 2)
        a += o[:1] + ["s%d" % dur] + o[1:] + w("e", n2)
    else:
        raise ValueError(shape)
    a.append("A" if code == "null" else "x%d" % code)
    return {"id": str(cid), "pin": pin, "p1": p1, "p2": p2, "cap": cap, "timeout": timeout, "poll": poll,
            "n1": n1, "k1": k1, "n2": n2, "k2": k2, "code": code, "actions": a,
            "dur": dur if shape.startswith("sleep") else 0, "shape": shape}


def around(cap):
    return sorted(set(x for x in (0, cap - 1, cap, cap + 1, cap + 8191, cap + 8192, cap + 8193) if x >= 0))


def gen_cases(env, searching):
    rng = env.rng
    thorough = env.tier == "thorough"
    cases = []
    nid = [0]

    def add(*a, **kw):
        reps = kw.pop("reps", 1)
        for pin in (0, 1):
            for _ in range(reps):
                nid[0] += 1
                cases.append(mk(nid[0], *a, rng=rng, pin=pin, **kw))

    # (0) corpus: inputs of earlier findings, repeated (the behaviour depends on thread timing)
    cdir = os.path.join(common.VERIF, "gen", "corpus", "C16")
    if os.path.isdir(cdir):
        for fn in sorted(os.listdir(cdir)):
            for l in open(os.path.join(cdir, fn)).read().splitlines():
                t = l.split()
                if len(t) != 10 or l.startswith("#"):
                    continue
                acts = t[9].split(",")
                code = "null" if "A" in acts else int([a for a in acts if a.startswith("x")][-1][1:])
                for i in range(300 if not thorough else 1500):
                    nid[0] += 1
                    cases.append({"id": str(nid[0]), "pin": i % 2, "p1": t[0], "p2": t[1], "cap": int(t[2]),
                                  "timeout": int(t[3]), "poll": int(t[4]), "n1": int(t[5]), "k1": t[6], "n2": int(t[7]),
                                  "k2": t[8], "code": code, "actions": acts,
                                  "dur": sum(int(a[1:]) for a in acts if a.startswith("s")), "shape": "corpus"})

    caps = [0, 1, 100, 8191, 8192, 8193, 10000] + ([4096, 65535, 65536, 70000] if thorough else [])
    codes = [0, 1, 2, 7, 127, 255, "null"]
    pols = ["c", "i", "n"]
    shapes = ["oe", "eo", "split"]
    reps = 3 if thorough else 1
    # (1) one captured stream, sizes around the cap, the other stream small / absent / uncaptured
    for cap in caps:
        for n in around(cap):
            for (p1, p2) in (("c", "n"), ("n", "c"), ("c", "c")):
                kind = rng.choice(["a", "a", "u"])
                other = rng.choice([0, 1, 50])
                n1, n2 = (n, other) if p1 == "c" and (p2 != "c" or rng.random() < 0.5) else (other, n)
                add(p1, p2, cap, n1, kind, n2, rng.choice(["a", "u"]), rng.choice(codes), rng.choice(shapes),
                    poll=rng.choice([1, 5, 10]), sigpipe=rng.random() < 0.3, reps=reps)
    # (2) the nine policy combinations, below / at / above the cap, all exit codes
    for p1 in pols:
        for p2 in pols:
            for cap, n in ((100, 100), (100, 101), (8192, 8192), (8192, 8193), (10000, 18193)):
                add(p1, p2, cap, n, "a", n, "a", rng.choice(codes), rng.choice(shapes), poll=rng.choice([1, 10]), reps=reps)
    for code in codes:
        add("c", "c", 100, 50, "a", 60, "u", code, "oe", reps=reps)
    # (3) both streams over the cap, multi-byte content, fast exit: the first-overflow flag decides
    hunt = 60 if not thorough else 600
    if searching:
        hunt *= 5
    for _ in range(hunt):
        cap = rng.choice([100, 8192, 10000])
        extra = rng.choice([1, 2, 8193])
        add("c", "c", cap, cap + extra, "u", cap + rng.choice([1, 8193]), rng.choice(["a", "u"]), 0,
            rng.choice(["eo", "oe", "split"]), poll=1)
    # (4) invalid UTF-8: alone, with the other stream over the cap, over the cap itself
    for cap in (100, 8192):
        for kind in ("b", "B", "T"):
            add("c", "c", cap, cap - 1, kind, 10, "a", 0, "oe", reps=reps)
            add("c", "c", cap, 10, "a", cap, kind, 3, "eo", reps=reps)
            add("c", "c", cap, cap - 1, kind, cap + 1, "a", 0, "oe", poll=1, reps=reps)
            add("c", "c", cap, cap + 1, "a", cap - 1, kind, 0, "oe", poll=1, reps=reps)
            add("c", "n", cap, cap + 1, kind, 0, "a", 0, "oe", reps=reps)
            add("i", "c", cap, 5, "a", cap + 8193, kind, 0, "oe", reps=reps)
    # (5) timing: timeout around the child's duration, sleeps before / between / after the writes
    durs = [120, 300] if not thorough else [60, 120, 300, 700]
    for dur in durs:
        for shape in ("sleep-first", "sleep-mid", "sleep-last"):
            for tmo in (max(1, dur - 100), dur - 10, dur, dur + 10, dur + 150 + SLACK_MS):
                for (n1, cap) in ((50, 100), (101, 100)):
                    add("c", "c", cap, n1, "a", 20, "a", rng.choice([0, 5]), shape, timeout=tmo,
                        poll=rng.choice([1, 10, 50]), dur=dur)
    # (6) what the SCRIPT finally reads: run() evaluated at top level / inside functions that return the
    # result directly, through a local, inside an array, through nested calls / inside loops, fields read
    # after other calls, loops, large temporaries or a second run(), and read twice; capture configuration
    # x sizes (empty, small, around one read block, near the cap).  Run in the debug (frame poisoning)
    # and in the release profile.
    def size_pool(cap):
        return [0, 1, 20, 8191, 8192, 8193, cap - 1, cap]
    cfgs = [("c", "c"), ("c", "n"), ("n", "c"), ("i", "n")]
    combos = [(pl, ch) for pl in PLACES for ch in CHURNS]
    per = 1 if not thorough else 6
    for (pl, ch) in combos:
        for _ in range(per):
            cap = rng.choice([10000, 10000, 100, 70000] if thorough else [10000, 10000, 100, 9000])
            p1, p2 = rng.choice(cfgs) if rng.random() < 0.6 else ("c", "c")
            n1 = min(rng.choice(size_pool(cap)), cap)
            n2 = min(rng.choice(size_pool(cap)), cap)
            nid[0] += 1
            c = mk(nid[0], p1, p2, cap, n1, rng.choice(["a", "u"]), n2, rng.choice(["a", "u"]),
                   rng.choice([0, 3, "null"]), rng.choice(["oe", "eo", "split"]), rng=rng, pin=0, poll=5)
            c["place"], c["churn"], c["both_profiles"] = pl, ch, True
            cases.append(c)
    # every capture configuration x size class at least once, placement drawn at random
    for (p1, p2) in cfgs:
        for n in size_pool(10000):
            pl, ch = rng.choice(combos)
            nid[0] += 1
            c = mk(nid[0], p1, p2, 10000, n, "u", n, "a", 0, "oe", rng=rng, pin=0, poll=5)
            c["place"], c["churn"], c["both_profiles"] = pl, ch, True
            cases.append(c)
    # error outcomes must not depend on the placement either
    for pl in PLACES:
        nid[0] += 1
        c = mk(nid[0], "c", "c", 100, 101, "a", 5, "a", 0, "oe", rng=rng, pin=0, poll=5)
        c["place"], c["churn"] = pl, rng.choice(CHURNS)
        cases.append(c)
    # (7) the host's ProcessCaps x the builder: every field has a value of its own, so that using the wrong
    # field changes an outcome; optional builder settings unset / below / at / above their cap.
    def capcase(caps, p1, p2, n1, n2, timeout, shape="oe", dur=0, place="top", stdin=None, code=0):
        nid[0] += 1
        c = mk(nid[0], p1, p2, caps["max_capture_bytes_per_stream"], n1, "a", n2, "a", code, shape, rng=rng, pin=0,
               timeout=timeout, poll=caps["wait_poll_ms"], dur=dur)
        c["caps"], c["place"], c["churn"], c["stdin"], c["matrix"] = dict(caps), place, "none", stdin, True
        cases.append(c)
    for caps in (CAPS_A, CAPS_B):
        cap = caps["max_capture_bytes_per_stream"]
        for tmo in (None, 2999):
            capcase(caps, "c", "c", cap, cap, tmo)
            capcase(caps, "c", "c", cap + 1, 3, tmo)
            capcase(caps, "c", "c", 3, cap + 1, tmo)
            capcase(caps, "n", "c", 0, cap + 1, tmo)
            capcase(caps, "c", "i", cap + 1, 0, tmo)
        # an output one byte longer than any OTHER limit of the host is still complete
        for name, v in sorted(caps.items()):
            if name != "max_capture_bytes_per_stream" and v + 1 <= cap:
                if rng.random() < 0.5:
                    capcase(caps, "c", "c", v + 1, 2, None)
                else:
                    capcase(caps, "c", "c", 2, v + 1, None)
        # stdin text below / at / above max_stdin_bytes (its own cap, whatever the capture limit is)
        sc = caps["max_stdin_bytes"]
        for n in ((sc - 1, sc, sc + 1) if sc < 1000 else (cap + 1, sc + 1)):
            capcase(caps, "c", "c", 5, 5, None, stdin=n)
    # timeouts: default 500 ms, maximum 3000 ms, poll 7 ms
    for (tmo, dur, place) in ((None, 1100, "top"), (None, 1100, "fn_direct"), (None, 40, "top"), (60, 480, "top"), (500, 40, "top"),
                              (800, 650, "top"), (800, 1300, "top"), (3000, 650, "top"), (2999, 40, "fn_local"),
                              (3001, 0, "top"), (3001, 40, "fn_direct"), (4000000, 0, "top")):
        capcase(CAPS_A, "c", "c", 10, 10, tmo, shape="sleep-first" if dur else "oe", dur=dur, place=place)
    if thorough:
        for (tmo, dur) in ((None, 3300), (3000, 3600), (2000, 1500), (2000, 2600)):
            capcase(CAPS_A, "c", "c", 10, 10, tmo, shape="sleep-last", dur=dur)
        slow_poll = dict(CAPS_A, wait_poll_ms=1000)
        capcase(slow_poll, "c", "c", 10, 10, None, shape="sleep-first", dur=2000)
    if thorough:
        # big transfers through a full pipe: the child blocks until the reader drains or stops
        for cap in (150000, 300000):
            for n in (cap, cap + 1):
                add("c", "c", cap, n, "a", 100, "a", 0, "oe")
                add("c", "c", cap, 100, "a", n, "u", 0, "eo")
    return cases


# ------------------------------------------------------------------------------------------------
# running

def run_impl(env, cases, name, release=False):
    """Runs the cases through `nsverif capture`.  The harness writes one line per finished case; when
    the process dies (the runtime crashed the whole process), the first case without a line is the
    one that killed it: it is recorded as `crash rc=<n>` and the run resumes after it."""
    d = os.path.join(env.work, "pids")
    os.makedirs(d, exist_ok=True)
    e = dict(os.environ, C16_HELPER=helper_bin(), C16_DIR=d)
    obs = {}
    todo = list(cases)
    rounds = 0
    while todo:
        rounds += 1
        inp = os.path.join(env.work, "%s.%d.in" % (name, rounds))
        outp = os.path.join(env.work, "%s.%d.impl" % (name, rounds))
        open(inp, "w").write("\n".join(case_line(c) for c in todo) + "\n")
        if os.path.exists(outp):
            os.remove(outp)
        try:
            p = subprocess.run([common.harness_bin(release), "capture", inp, outp], env=e, stdout=subprocess.DEVNULL,
                               stderr=subprocess.DEVNULL, stdin=subprocess.DEVNULL, timeout=3600)
            rc = p.returncode
        except subprocess.TimeoutExpired:
            rc = 124
        got = 0
        if os.path.exists(outp):
            for l in open(outp, errors="replace").read().splitlines():
                t = l.split(None, 1)
                if len(t) == 2 and got < len(todo) and t[0] == todo[got]["id"]:
                    obs[t[0]] = t[1]
                    got += 1
        if rc == 0 and got == len(todo):
            break
        if rounds == 1 and got == 0 and rc != 0 and not os.path.exists(outp):
            return None                                   # the harness itself does not start
        if got < len(todo):
            obs[todo[got]["id"]] = "crash rc=%d" % rc
            got += 1
        todo = todo[got:]
        if rounds >= 40:
            for c in todo:
                obs[c["id"]] = "notrun"
            break
    return obs


def canonical(o):
    """The part of an observation line the model speaks about."""
    t = o.split()
    if t[0] == "ok":
        return " ".join(t[:4])
    if t[0] == "err":
        return " ".join(t[:3])
    return None


def field(o, name):
    m = re.search(r"\b%s=(\S+)" % name, o)
    return m.group(1) if m else None


def oracle(c, o):
    """Property oracle on the implementation.  Returns (stable key | None, text)."""
    t = o.split()
    cap1, cap2 = c["p1"] == "c", c["p2"] == "c"
    over1, over2 = cap1 and c["n1"] > c["cap"], cap2 and c["n2"] > c["cap"]
    bad1, bad2 = cap1 and c["k1"] in "bBT" and c["n1"] > 0, cap2 and c["k2"] in "bBT" and c["n2"] > 0
    pid = field(o, "pid")
    ms = int(field(o, "t") or 0)
    eff = effective_timeout(c)
    stdin_refused = c.get("stdin") is not None and c.get("caps") and c["stdin"] > c["caps"]["max_stdin_bytes"]
    if eff is None or stdin_refused:
        # the builder asks for more than the host allows: refusal, and nothing may have been started
        if t[0] == "err" and field(o, "kind") == "spec":
            if pid != "unknown":
                return "refused-but-child-started", "the command was refused but the helper ran (%s)" % pid
            return None, ""
        return "over-cap-builder-not-refused", "timeout %s / stdin %s exceed the host caps but the run was not refused: %s" % (
            c["timeout"], c.get("stdin"), " ".join(t[:4]))
    if t[0] == "err" and field(o, "kind") == "spec":
        return "unexpected-refusal", "a command within the host caps was refused: " + o
    if pid and pid.startswith("alive"):
        return "child-left-running", "helper pid still exists after run() returned (%s)" % pid
    if t[0] == "crash":
        return "runtime-crashed", "the interpreter process died while running this script (%s)" % o
    if t[0] == "notrun":
        return None, "inconclusive-notrun"
    if t[0] in ("panic", "frontend-error", "malformed"):
        return "harness-" + t[0], o
    if t[0] == "ok":
        want_out = "full" if cap1 else "null"
        want_err = "full" if cap2 else "null"
        got_out, got_err = field(o, "out"), field(o, "err")
        if got_out != want_out or got_err != want_err:
            if (got_out or "").startswith("prefix") or (got_err or "").startswith("prefix"):
                return "ok-with-truncated-output", "success with a strict prefix: out=%s err=%s" % (got_out, got_err)
            return "ok-with-wrong-output", "success with out=%s err=%s, expected %s / %s" % (got_out, got_err, want_out, want_err)
        if field(o, "reread") == "diff":
            return "ok-output-changes-between-reads", "two reads of the same result's stdout()/stderr() differ"
        if field(o, "aux") == "bad":
            return "ok-second-run-wrong-output", "the result of a second run() in the same script is wrong or its child is left"
        if over1 or over2:
            return "ok-despite-over-limit", "success although a captured stream exceeds the cap"
        if bad1 or bad2:
            return "ok-despite-invalid-utf8", "success although a captured stream is not UTF-8"
        code = field(o, "code")
        if code != str(c["code"]):
            return "wrong-exit-code", "exit_code %s, the child ended with %s" % (code, c["code"])
        if field(o, "success") != ("1" if c["code"] == 0 else "0"):
            return "wrong-success-flag", "success() = %s with exit code %s" % (field(o, "success"), c["code"])
        if c["dur"] > eff + c["poll"] + SLACK_MS:
            return "ok-past-deadline", "success although the child runs %d ms and the deadline is %d ms (%s)" % (
                c["dur"], eff, "explicit" if c["timeout"] is not None else "host default, timeout_ms() not called")
        return None, ""
    if t[0] == "err":
        kind, stream = field(o, "kind"), field(o, "stream")
        if kind == "timeout":
            if ms < eff:
                return "timeout-before-deadline", "Timeout after %d ms, the deadline is %d ms" % (ms, eff)
            if c["dur"] - (eff + c["poll"]) >= 500 and ms >= c["dur"] - 30:
                return "timeout-after-child-finished", ("Timeout reported only after %d ms, when the child (%d ms) had finished by itself: "
                                                        "it was not stopped at the deadline of %d ms" % (ms, c["dur"], eff))
            if c["dur"] + 2500 < eff:
                return None, "inconclusive-timeout"      # the machine stalled for seconds: not judged
            return None, ""
        if kind == "limit":
            if (stream == "stdout" and over1) or (stream == "stderr" and over2):
                return None, ""
            return "limit-error-unjustified", "OutputLimitExceeded(%s) but that stream stays within the cap" % stream
        if kind == "utf8":
            if (stream == "stdout" and bad1) or (stream == "stderr" and bad2):
                return None, ""
            if (stream == "stdout" and cap1 and over2) or (stream == "stderr" and cap2 and over1):
                return "utf8-misattributed", ("InvalidUtf8(%s) although everything the child wrote to %s is valid UTF-8 "
                                             "(the other stream exceeded the cap first; a truncated prefix was validated)"
                                             % (stream, stream))
            return "utf8-error-unjustified", "InvalidUtf8(%s) for valid output" % stream
        if kind == "spawn":
            return None, "inconclusive-spawn"            # fork/exec refused (loaded machine): not judged
        return "unexpected-error", o
    return "harness-unparsed", o


def run_model(env, cases, obs, name):
    """Returns {id: (judged, reached, family)}; the input is sharded over a few processes."""
    order = cap_fields()
    items = []
    for c in cases:
        o = canonical(obs[c["id"]]) if c["id"] in obs else None
        if not o:
            continue
        if c.get("stdin") is not None and o.startswith("err kind=spec"):
            continue          # refusal because of the stdin text: validate's own caps are C15's model, not this one
        items.append((c, o))
    # identical (config, outcome) pairs are judged once
    uniq = {}
    for c, o in items:
        k = "%s %s %d %s %d %d %s %d %s %s" % (c["p1"], c["p2"], c["cap"], "-" if c["timeout"] is None else c["timeout"],
                                              c["poll"], c["n1"], c["k1"], c["n2"], c["k2"], c["code"])
        if c.get("caps"):
            k += " caps=" + ",".join(str(c["caps"][f]) for f in order)
        k += " | " + o
        uniq.setdefault(k, []).append(c["id"])
    keys = sorted(uniq, key=lambda k: -(int(k.split()[5]) + int(k.split()[7])))
    nsh = 8
    shards = [[] for _ in range(nsh)]
    for i, k in enumerate(keys):
        shards[i % nsh].append(k)
    procs = []
    for i, sh in enumerate(shards):
        if not sh:
            continue
        inp = os.path.join(env.work, "%s.m%d.in" % (name, i))
        outp = os.path.join(env.work, "%s.m%d.out" % (name, i))
        open(inp, "w").write("".join("%d %s\n" % (j, k) for j, k in enumerate(sh)))
        procs.append((sh, outp, subprocess.Popen([common.NSMODEL, "capture", inp, outp], stdout=subprocess.DEVNULL,
                                                 stderr=subprocess.PIPE, preexec_fn=_big_stack)))
    res = {}
    errs = []
    for sh, outp, p in procs:
        _, e = p.communicate(timeout=3600)
        if p.returncode != 0 or not os.path.exists(outp):
            errs.append((e or b"").decode("utf-8", "replace")[-400:])
            continue
        for l in open(outp).read().splitlines():
            m = re.match(r"(\d+) judged=(\d) reached=(\d) observed=\[(.*?)\] family=\[(.*?)\](?: timeout=(\d+) cap=(\d+) poll=(\d+))?", l)
            if m:
                k = sh[int(m.group(1))]
                eff = (int(m.group(6)), int(m.group(7)), int(m.group(8))) if m.group(6) else None
                for cid in uniq[k]:
                    res[cid] = (m.group(2) == "1", m.group(3) == "1", m.group(5), eff)
    return res, errs


def _big_stack():
    """The extracted list functions are not tail-recursive: give nsmodel a large native stack."""
    import resource
    try:
        soft, hard = resource.getrlimit(resource.RLIMIT_STACK)
        want = 4 << 30
        if hard != resource.RLIM_INFINITY:
            want = min(want, hard)
        resource.setrlimit(resource.RLIMIT_STACK, (want, hard))
    except (ValueError, OSError):
        pass


def recheck_mode():
    p = os.path.join(common.COQ, "theories", "GenCapture.v")
    m = re.search(r"join_recheck_mode : recheck_mode := (\w+)", open(p).read())
    return m.group(1) if m else "?"


def correspond(env, searching=False, model=True):
    build_helper()
    cases = gen_cases(env, searching)
    t0 = time.time()
    obs = run_impl(env, cases, "cases")
    if obs is None:
        return {"evaluations": 0, "distinct_nontrivial": 0, "rule": "", "samples": [], "failures": [],
                "disagreements": [{"stream": "capture-outcomes", "error": "nsverif capture did not run"}], "extra": {}}
    # the placement family once more in the release profile (no poisoning: stale bytes survive until reused)
    rel_cases = []
    ok_rel, out_rel = common.build_harness(release=True)
    if not ok_rel:
        raise RuntimeError("release harness build failed: " + out_rel[-1500:])
    for c in cases:
        if c.get("both_profiles"):
            r = dict(c)
            r["id"] = "r" + c["id"]
            r["profile"] = "release"
            rel_cases.append(r)
    obs_rel = run_impl(env, rel_cases, "cases_release", release=True) if rel_cases else {}
    if obs_rel is None:
        raise RuntimeError("nsverif capture (release) did not run")
    obs.update(obs_rel)
    cases = cases + rel_cases
    t_impl = time.time() - t0
    failures, disagreements, samples = [], [], []
    seen_fail = set()
    hist = {}
    inconclusive = 0
    nontrivial = set()
    by_id = {c["id"]: c for c in cases}
    for c in cases:
        o = obs.get(c["id"])
        if o is None:
            disagreements.append({"stream": "capture-outcomes", "case": case_line(c), "error": "no observation"})
            continue
        key, text = oracle(c, o)
        can = canonical(o) or o.split()[0]
        cls = re.sub(r"code=\S+", "code=*", can)
        hist[cls] = hist.get(cls, 0) + 1
        if text.startswith("inconclusive"):
            inconclusive += 1
        if key and key not in seen_fail:
            seen_fail.add(key)
            failures.append({"key": key, "case": case_line(c), "observed": o, "what": text, "config": c,
                             "profile": c.get("profile", "debug")})
        if c["p1"] == "c" or c["p2"] == "c":
            nontrivial.add(case_key(c))
        if len(samples) < 5 and not key and (c["shape"] in ("split", "sleep-mid") or c.get("place", "top") != "top") \
                and sum(1 for s in samples if (" top " in s["case"]) == (c.get("place", "top") == "top")) < 3:
            samples.append({"case": case_line(c), "observed": o})
    # wait_poll_ms: results of fast children must not arrive later than the poll interval (+ slack), judged on the majority
    fast = [(c, int(field(obs[c["id"]], "t") or 0)) for c in cases
            if c.get("matrix") and c["dur"] <= 50 and obs.get(c["id"], "").startswith("ok ")]
    late = [(c, ms) for c, ms in fast if ms > c["dur"] + c["poll"] + SLACK_MS]
    if len(fast) >= 6 and len(late) * 2 > len(fast) and "result-later-than-poll-interval" not in seen_fail:
        c, ms = late[0]
        failures.append({"key": "result-later-than-poll-interval", "case": case_line(c), "observed": obs[c["id"]], "config": c,
                         "what": "%d of %d fast children were reported only after more than child time + wait_poll_ms (%d) + %d ms"
                                 % (len(late), len(fast), c["poll"], SLACK_MS)})
    # every field of the regenerated ProcessCaps list must be in the exercise table
    fields = cap_fields()
    for f in fields:
        if f not in EXERCISED:
            disagreements.append({"stream": "capture-caps-matrix", "error": "ProcessCaps field `%s` is not exercised by the caps x builder matrix" % f})
    for f in EXERCISED:
        if f not in fields:
            disagreements.append({"stream": "capture-caps-matrix", "error": "ProcessCaps no longer has the field `%s` the matrix exercises" % f})
    extra = {"outcome_histogram": hist, "caps_fields": fields, "caps_matrix_cases": sum(1 for c in cases if c.get("matrix")), "impl_seconds": round(t_impl, 1), "inconclusive_cases": inconclusive,
             "join_recheck_mode_in_source": recheck_mode(), "cases_pinned": sum(1 for c in cases if c["pin"]),
             "placement_cases": sum(1 for c in cases if c.get("place", "top") != "top"),
             "release_profile_cases": len(rel_cases),
             "strict_error_kind_theorem_applies": recheck_mode() == "RecheckAny"}
    if model:
        t1 = time.time()
        res, errs = run_model(env, cases, obs, "cases")
        extra["model_seconds"] = round(time.time() - t1, 1)
        for e in errs:
            disagreements.append({"stream": "capture-outcomes", "error": "nsmodel capture failed: " + e})
        unjudged = unreached = 0
        for cid, (judged, reached, fam, eff) in sorted(res.items(), key=lambda kv: (kv[0].startswith("r"), int(kv[0].lstrip("r")))):
            c = by_id[cid]
            # the configuration the extracted mk_cfg derives from caps + builder must be the one the oracle assumed
            if eff is not None and c.get("caps") and eff != (effective_timeout(c), c["caps"]["max_capture_bytes_per_stream"],
                                                           c["caps"]["wait_poll_ms"]):
                if len(disagreements) < 5:
                    disagreements.append({"stream": "capture-host-config", "case": case_line(c),
                                          "model": "timeout/cap/poll = %s" % (eff,),
                                          "impl": "expected %s" % ((effective_timeout(c), c["caps"]["max_capture_bytes_per_stream"],
                                                                   c["caps"]["wait_poll_ms"]),)})
            if not judged:
                unjudged += 1
                if len(disagreements) < 5:
                    disagreements.append({"stream": "capture-outcomes", "case": case_line(c), "impl": canonical(obs[cid]),
                                          "model": "outcome_ok = false; schedule family reaches: " + fam})
            elif not reached:
                unreached += 1
                if len(disagreements) < 5:
                    disagreements.append({"stream": "capture-outcomes", "case": case_line(c), "impl": canonical(obs[cid]),
                                          "model": "accepted by outcome_ok but not produced by the schedule family: " + fam})
        extra["model_rejected"] = unjudged
        extra["model_unreached"] = unreached
        extra["model_judged"] = len(res)
    return {
        "evaluations": len(obs),
        "distinct_nontrivial": len(nontrivial),
        "rule": "helper child driven through the real runtime: sizes 0/cap-1/cap/cap+1/cap+8192+-1 for caps 0..10000 (thorough: ..300000), "
                "nine stdout/stderr policy combinations, exit codes 0/1/2/7/127/255/signal, ASCII / multi-byte / invalid UTF-8, "
                "write order and splitting, SIGPIPE default or ignored, sleeps before/between/after the writes with timeout_ms "
                "around the child's duration, poll 1..50 ms, each case unpinned and pinned to one CPU; run() evaluated at top level / "
                "returned from functions directly, via a local, inside arrays, through nested calls, from loops, fields read after "
                "calls / loops / large temporaries / a second run() and read twice, in the debug (poisoning) and release profiles; "
                "the host's ProcessCaps x builder matrix (every field of the regenerated field list with a value of its own; timeout unset / "
                "below / between default and max / at / above max; stdin text below / at / above its cap); non-trivial = distinct case "
                "with at least one captured stream; oracle = complete-and-exact or a justified error, Timeout only after the "
                "deadline, helper pid gone; every observed outcome judged by the extracted outcome_ok and searched in the "
                "outcomes of the extracted model under a family of schedules",
        "samples": samples,
        "failures": failures,
        "disagreements": disagreements,
        "extra": extra,
    }


def replay(env, payload):
    """Re-runs the recorded case many times (the behaviour depends on thread timing)."""
    common.refresh_tables()
    build_helper()
    case = payload.get("case") or (payload.get("disagreements") or [{}])[0]
    cfg = case.get("config")
    if not cfg:
        line = case.get("case")
        if not line:
            print("replay: no concrete case in this file (obligations: %s)" % payload.get("no_longer_checks"))
            return 1
        t = line.split()
        acts = [] if t[11] == "-" else t[11].split(",")
        place, churn = (t[12], t[13]) if len(t) > 13 else ("top", "none")
        code = "null" if "A" in acts else int([a for a in acts if a.startswith("x")][-1][1:])
        cfg = {"id": "0", "pin": int(t[1]), "p1": t[2], "p2": t[3], "cap": int(t[4]), "timeout": None if t[5] == "-" else int(t[5]), "poll": int(t[6]),
               "n1": int(t[7]), "k1": t[8], "n2": int(t[9]), "k2": t[10], "code": code, "actions": acts,
               "dur": sum(int(a[1:]) for a in acts if a.startswith("s")), "shape": "replay", "place": place, "churn": churn}
    release = case.get("profile") == "release" or cfg.get("profile") == "release"
    if release:
        common.build_harness(release=True)
    reps = 600 if cfg.get("place", "top") == "top" else 60
    cases = []
    for i in range(reps):
        c = dict(cfg)
        c["id"] = str(i + 1)
        c["pin"] = i % 2
        cases.append(c)
    obs = run_impl(env, cases, "replay", release=release) or {}
    bad = {}
    for c in cases:
        o = obs.get(c["id"])
        if o is None:
            continue
        key, text = oracle(c, o)
        if key:
            bad.setdefault(key, (0, o, text))
            bad[key] = (bad[key][0] + 1, bad[key][1], bad[key][2])
    print("replay: %d runs of: %s" % (len(obs), case_line(cases[0])))
    for k, (n, o, text) in bad.items():
        print("  %s x%d: %s | %s" % (k, n, text, o))
    want = case.get("key")
    still = (want in bad) if want else bool(bad)
    print("replay: %s" % ("still failing" if still else "passes now"))
    return 1 if still else 0
