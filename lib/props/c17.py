"""C17 — read_line delivers successive input lines, whatever the chunking.

Three observations of the same (text, schedule, k) case are compared:
  * implementation: the real `naija` binary running an echo script (k times read_line + shout)
    with fd 0 served by shim/readshim.c (LD_PRELOAD) in exactly the pieces of the schedule; the
    shim also logs (count requested, bytes returned) of every read(2) on fd 0;
  * model: coq/theories/ReadLine.v extracted (nsmodel readline): the k lines and the same read log;
  * property oracle (independent of the model): text.split(b"\\n") padded with b"" — the k-th call
    must print the k-th piece.
Plus runs without the shim (a real pipe fed by timed writes; a plain file) against the oracle.
"""
import concurrent.futures
import json
import os
import subprocess
import threading
import time

import common

TRUSTED_EXTRA = [
    "C17: shim/readshim.c (LD_PRELOAD interposer of read(2) for fd 0) implements ReadLine.sys_read; the kernel's read(2) on "
    "pipes/files behaves like sys_read for some schedule (returns 1..count bytes in order, 0 only at end of input and then forever)",
    "C17: Vec::with_capacity_in / extend_from_slice / set_len / reserve_exact modelled from their documentation (capacity only); "
    "memchr_rs::memchr modelled as first index at or after the offset, else the length",
    "C17: translator/gen_readline.py (regex reading of the constants of UnixStdin::read_line)",
    "C17: the echo script's `make v get read_line(\"\")` / `shout(v)` path (runtime.rs GlobalBuiltin::ReadLine, shout -> println!) "
    "is exercised by the runs, not modelled",
]
ASSUMPTIONS = [
    "the line terminator is the byte 0x0A alone: a line ending in \"\\r\\n\" is returned with its \"\\r\" (that is what the unix code does; "
    "docs/BUILTIN_FUNCTIONS.md only says 'reads a single line')",
    "read(2) does not fail (n < 0 makes read_line return the OS error; not modelled) and reports end of input only at the end "
    "(a terminal's ^D in the middle of the input is outside the model)",
    "input texts are valid UTF-8 (read_line performs no validation; bytes are passed through unchanged in model and oracle)",
    "one thread calls read_line (the carried-over bytes live in a process-wide Mutex<Vec<u8>>)",
    "unix only: src/sys/windows.rs read_line_pipe has the same shape as the shipped unix code and is not covered",
]
EXTRA_COQ_TARGETS = ["proofs/ReadLineShippedProofs.vo"]
CAN_RUN_WITHOUT_MODEL = True   # the oracle (text.split) does not need the model
SIDE_OBLIGATIONS = ["rl_newline_10", "rl_keeps", "rl_growth_ge2", "rl_read_max_pos", "rl_read_max_le_cap"]

KEY_DROP = "data-after-newline-dropped"
KEY_GROW = "line-longer-than-buffer"
CORPUS_DIR = os.path.join(common.VERIF, "gen", "corpus", "C17")
SHIM_SRC = os.path.join(common.VERIF, "shim", "readshim.c")
BUF = 8192


# ----------------------------------------------------------------------------- plumbing

def shim_path():
    return os.path.join(common.BUILD, "shim", "readshim.so")


def build_shim():
    out = shim_path()
    os.makedirs(os.path.dirname(out), exist_ok=True)
    if os.path.exists(out) and os.path.getmtime(out) >= os.path.getmtime(SHIM_SRC):
        return
    tmp = out + ".%d.tmp" % os.getpid()
    common.sh(["cc", "-shared", "-fPIC", "-O2", "-o", tmp, SHIM_SRC, "-ldl"], check=True, timeout=120)
    os.replace(tmp, out)


_script_lock = threading.Lock()


def script_for(env, style, k):
    p = os.path.join(env.work, "echo_%s_%d.ns" % (style, k))
    with _script_lock:
        if not os.path.exists(p):
            if style == "vars":
                src = "".join('make v%d get read_line("")\nshout(v%d)\n' % (i, i) for i in range(k))
            elif style == "direct":
                src = 'shout(read_line(""))\n' * k
            else:  # loop
                src = ('make i get 0\njasi (i small pass %d) start\n    make l get read_line("")\n'
                       '    shout(l)\n    i get i add 1\nend\n' % k)
            with open(p + ".tmp", "w") as f:
                f.write(src)
            os.replace(p + ".tmp", p)
    return p


def oracle_lines(text, k):
    ls = text.split(b"\n")
    ls += [b""] * k
    return ls[:k]


RELEASE = [False]   # which naija profile run_impl/run_pipe use (thorough runs a release pass too)


def naija():
    return common.naija_bin(RELEASE[0])


def run_impl(env, idx, case, shim=True, timeout=60):
    """Runs naija on the case.  Returns dict(rc, out, err, log=[(count, n)...] | None, timeout=bool)."""
    text, sched, k, style = case["text"], case["sched"], case["k"], case.get("style", "vars")
    base = os.path.join(env.work, "c%d" % idx)
    tpath, spath, lpath = base + ".txt", base + ".sched", base + ".log"
    with open(tpath, "wb") as f:
        f.write(text)
    e = dict(os.environ)
    e.pop("LD_PRELOAD", None)
    if shim:
        with open(spath, "w") as f:
            f.write(",".join(str(x) for x in sched))
        if os.path.exists(lpath):
            os.remove(lpath)
        e.update(LD_PRELOAD=shim_path(), READSHIM_SCHED=spath, READSHIM_LOG=lpath)
    res = {"timeout": False, "log": None}
    try:
        with open(tpath, "rb") as fin:
            p = subprocess.run([naija(), script_for(env, style, k)], stdin=fin, stdout=subprocess.PIPE,
                               stderr=subprocess.PIPE, env=e, timeout=timeout)
        res.update(rc=p.returncode, out=p.stdout, err=p.stderr[-8000:].decode("utf-8", "replace"))
    except subprocess.TimeoutExpired:
        res.update(rc=124, out=b"", err="[timeout]", timeout=True)
    if shim and os.path.exists(lpath):
        log = []
        for l in open(lpath).read().split("\n"):
            w = l.split()
            if len(w) == 2:
                log.append((int(w[0]), int(w[1])))
        res["log"] = log
    for p_ in (tpath, spath, lpath):
        if os.path.exists(p_):
            os.remove(p_)
    return res


def run_pipe(env, case, timeout=60):
    """No shim: a real pipe, the writer sends the pieces of the schedule with flushes and short sleeps."""
    text, sched, k, style = case["text"], case["sched"], case["k"], case.get("style", "vars")
    e = dict(os.environ)
    e.pop("LD_PRELOAD", None)
    p = subprocess.Popen([naija(), script_for(env, style, k)], stdin=subprocess.PIPE, stdout=subprocess.PIPE,
                         stderr=subprocess.PIPE, env=e)
    delays = case.get("delays") or []

    def feed():
        try:
            pos = 0
            for i, s in enumerate(sched):
                if pos >= len(text):
                    break
                p.stdin.write(text[pos:pos + max(1, s)])
                p.stdin.flush()
                pos += max(1, s)
                d = delays[i % len(delays)] if delays else 0
                if d:
                    time.sleep(d)
            if pos < len(text):
                p.stdin.write(text[pos:])
            p.stdin.close()
        except (BrokenPipeError, ValueError, OSError):
            try:
                p.stdin.close()
            except Exception:  # noqa
                pass

    t = threading.Thread(target=feed)
    t.start()
    try:
        out = p.stdout.read()
        err = p.stderr.read()
        rc = p.wait(timeout=timeout)
        to = False
    except subprocess.TimeoutExpired:
        p.kill()
        out, err, rc, to = b"", b"[timeout]", 124, True
    t.join(timeout=5)
    return {"rc": rc, "out": out, "err": err[-8000:].decode("utf-8", "replace"), "timeout": to, "log": None}


def err_summary(err):
    ls = err.splitlines()
    for l in ls[:3]:
        if "memory allocation" in l:
            return l.strip()[:300]
    for i, l in enumerate(ls):
        if "panicked at" in l or "error[" in l or "rror" in l and "-->" not in l:
            return " | ".join(x.strip() for x in ls[i:i + 2])[:300]
    return err[-200:]


def impl_ok(res, case):
    return res["rc"] == 0 and res["out"] == b"".join(l + b"\n" for l in oracle_lines(case["text"], case["k"]))


def hexs(b):
    return b.hex() if b else "-"


def run_model(env, name, cases):
    """cases: list of (id, case).  Returns {id: (lines | None, trace, xlines)} or None when nsmodel failed."""
    inp = os.path.join(env.work, name + ".min")
    outp = os.path.join(env.work, name + ".mout")
    with open(inp, "w") as f:
        for cid, c in cases:
            f.write("C %d %d %s %s\n" % (cid, c["k"], hexs(c["text"]), ",".join(str(x) for x in c["sched"]) or "-"))
    if os.path.exists(outp):
        os.remove(outp)
    # the extracted list functions are not tail-recursive: texts of several hundred KB need more
    # than the default 8 MiB of stack
    rc, out = common.sh("ulimit -s unlimited 2>/dev/null; exec '%s' readline '%s' '%s'" % (common.NSMODEL, inp, outp), timeout=3000)
    if rc != 0 or not os.path.exists(outp):
        return None, "nsmodel readline rc=%s %s" % (rc, out[-400:])
    res = {}
    for g in common.group_by_header(open(outp).read().splitlines(), lambda l: l.startswith("C ")):
        cid = int(g[0].split()[1])
        if len(g) > 1 and g[1] == "NONE":
            res[cid] = (None, [], [])
            continue
        lines, trace, xl = [], [], []
        for l in g[1:]:
            w = l.split()
            if w[0] == "L":
                lines.append(b"" if w[1] == "-" else bytes.fromhex(w[1]))
                if w[2] != "-":
                    trace += [tuple(int(x) for x in t.split(":")) for t in w[2].split(",")]
            elif w[0] == "X":
                xl.append(b"" if w[1] == "-" else bytes.fromhex(w[1]))
        res[cid] = (lines, trace, xl)
    os.remove(inp)
    os.remove(outp)
    return res, ""


# ----------------------------------------------------------------------------- generators

ASCII = b"abcdefghijklmnopqrstuvwxyz ABC0123456789.,;:-_()[]{}'\"!?\t"
MULTI = ["é", "ß", "ñ", "€", "中", "ह", "😀", "🇳🇬", "ọ", "ẹ́"]
LONG_LENGTHS = [8190, 8191, 8192, 8193, 8194, 12288, 16383, 16384, 16385, 16386, 24575, 24576, 24577, 32767, 32768, 32769]


def gen_line(rng, kind, big):
    if kind == "empty":
        return b""
    if kind == "short":
        return bytes(rng.choice(ASCII) for _ in range(rng.randint(1, 12)))
    if kind == "multi":
        s = "".join(rng.choice(MULTI) if rng.random() < 0.6 else chr(rng.choice(ASCII)) for _ in range(rng.randint(1, 10)))
        return s.replace("\n", "").encode()
    if kind == "cr":
        return bytes(rng.choice(ASCII) for _ in range(rng.randint(0, 8))) + b"\r"
    if kind == "crmid":
        return b"a\rb" if rng.random() < 0.5 else b"\r\r"
    if kind == "medium":
        return bytes(rng.choice(ASCII) for _ in range(rng.randint(13, 700)))
    if kind == "long":
        n = rng.choice(LONG_LENGTHS) if rng.random() < 0.75 else rng.randint(8000, 70000 if big else 34000)
        unit = ("".join(rng.choice(MULTI) for _ in range(3)) + "xy").encode() if rng.random() < 0.3 else bytes(rng.choice(ASCII) for _ in range(7))
        b = (unit * (n // len(unit) + 1))[:n]
        # never cut a multi-byte character at the end of the line
        while b and (b[-1] & 0xC0) == 0x80:
            b = b[:-1]
        if b and b[-1] >= 0xC0:
            b = b[:-1]
        b += b"z" * (n - len(b))
        return b
    raise ValueError(kind)


def gen_text(rng, tier):
    big = tier == "thorough"
    r = rng.random()
    if r < 0.04:
        lines, cls = [], "empty-or-newlines"
        lines = [b""] * rng.randint(0, 5)
    elif r < 0.40:
        cls = "many-short"
        n = rng.randint(1, 40) if rng.random() < 0.85 else rng.randint(41, 1500 if big else 400)
        lines = [gen_line(rng, rng.choice(["short", "short", "short", "empty", "multi", "medium"]), big) for _ in range(n)]
    elif r < 0.55:
        cls = "multibyte"
        lines = [gen_line(rng, rng.choice(["multi", "multi", "short", "empty"]), big) for _ in range(rng.randint(1, 25))]
    elif r < 0.67:
        cls = "crlf"
        lines = [gen_line(rng, rng.choice(["cr", "cr", "cr", "crmid", "short"]), big) for _ in range(rng.randint(1, 25))]
    else:
        cls = "long-lines"
        n = rng.randint(1, 6)
        lines = [gen_line(rng, rng.choice(["short", "empty", "multi", "medium"]), big) for _ in range(n)]
        for _ in range(rng.randint(1, 3 if big else 2)):
            lines.insert(rng.randint(0, len(lines)), gen_line(rng, "long", big))
    final_nl = rng.random() < 0.6
    text = b"\n".join(lines) + (b"\n" if final_nl and lines else b"")
    return text, cls


def char_middles(text):
    return [i for i in range(1, len(text)) if (text[i] & 0xC0) == 0x80]


def gen_cuts(rng, text, tier):
    """A set of offsets (0 < o < len) after which a piece ends, and the name of the recipe."""
    n = len(text)
    if n < 2:
        return [], "none"
    nls = [i for i in range(n) if text[i] == 10]
    kind = rng.choice(["none", "none", "line-at-a-time", "before-newline", "every-byte", "small", "small", "mixed", "mixed",
                       "bursts", "bursts", "char-middles", "buffer-multiples", "one-cut"])
    cuts = set()
    if kind == "line-at-a-time":
        cuts = {i + 1 for i in nls}
    elif kind == "before-newline":
        cuts = {i for i in nls}
    elif kind == "every-byte":
        cuts = set(range(1, n))
    elif kind == "small":
        o = 0
        while o < n:
            o += rng.randint(1, rng.choice([2, 4, 9]))
            cuts.add(o)
    elif kind == "mixed":
        o = 0
        while o < n:
            o += rng.choice([1, 2, 3, 7, 50, 500, 4096, 8191, 8192, 8193, 10000, 20000]) if rng.random() < 0.7 else rng.randint(1, 9000)
            cuts.add(o)
    elif kind == "bursts":
        pts = list(nls)
        starts = [0] + [i + 1 for i in nls]
        for s in starts:
            for m in (BUF, 2 * BUF, 3 * BUF, 4 * BUF):
                pts.append(s + m)
        rng.shuffle(pts)
        for p in pts[:rng.randint(1, 8)]:
            for d in range(-4, 6):
                if rng.random() < 0.8:
                    cuts.add(p + d)
        o = 0
        while o < n:
            o += rng.randint(200, 9000)
            cuts.add(o)
    elif kind == "char-middles":
        mids = char_middles(text)
        cuts = set(m for m in mids if rng.random() < 0.7)
        cuts |= {i + 1 for i in nls if rng.random() < 0.3}
    elif kind == "buffer-multiples":
        d = rng.choice([-1, 0, 1])
        cuts = set(range(BUF + d, n, BUF + d))
    elif kind == "one-cut":
        cuts = {rng.randint(1, n - 1)}
    cuts = sorted(c for c in cuts if 0 < c < n)
    cuts = thin_for_model(rng, text, cuts, 3e6 if tier == "quick" or rng.random() < 0.93 else 1.2e7)
    return cuts, kind


def thin_for_model(rng, text, cuts, budget):
    """The list-based model costs about (bytes already buffered) per read; drop cuts inside long
    lines (never the ones within 8 bytes of a newline or of a multiple of the buffer size from the
    start of the line) until the estimate fits the budget."""
    def cost(cs):
        total, start, ci = 0, 0, 0
        for end in [i for i in range(len(text)) if text[i] == 10] + [len(text)]:
            L = end - start
            k = 0
            while ci < len(cs) and cs[ci] <= end:
                k += 1
                ci += 1
            total += (k + L // BUF + 1) * (L / 2 + 64)
            start = end + 1
        return total
    if not cuts or cost(cuts) <= budget:
        return cuts
    nls = [i for i in range(len(text)) if text[i] == 10]
    import bisect
    def protected(c):
        j = bisect.bisect_left(nls, c)
        near = [nls[x] for x in (j - 1, j) if 0 <= x < len(nls)]
        if any(abs(c - p) <= 8 for p in near):
            return True
        start = nls[j - 1] + 1 if j > 0 else 0
        return (c - start) % BUF <= 4 or (start - c) % BUF <= 4
    keep = [c for c in cuts if protected(c)]
    rest = [c for c in cuts if not protected(c)]
    rng.shuffle(rest)
    while rest and cost(sorted(keep + rest)) > budget:
        rest = rest[:len(rest) // 2]
    out = sorted(keep + rest)
    while out and cost(out) > budget:
        out = sorted(rng.sample(out, len(out) // 2))
    return out


def sched_of_cuts(cuts):
    s, prev = [], 0
    for c in cuts:
        s.append(c - prev)
        prev = c
    return s


def gen_case(rng, tier):
    text, cls = gen_text(rng, tier)
    cuts, recipe = gen_cuts(rng, text, tier)
    sched = sched_of_cuts(cuts)
    if rng.random() < 0.08:
        sched.append(rng.choice([0, 1, len(text) + 5, 1 << 40]))   # odd entries: below 1, beyond the text
    nl = text.count(b"\n") + 1
    r = rng.random()
    k = nl + rng.randint(1, 3) if r < 0.8 else rng.randint(1, max(1, nl))
    style = rng.choice(["vars", "vars", "direct", "loop"]) if k <= 600 else "loop"
    return {"text": text, "sched": sched, "k": k, "style": style, "class": cls, "recipe": recipe}


def load_corpus():
    out = []
    if os.path.isdir(CORPUS_DIR):
        for fn in sorted(os.listdir(CORPUS_DIR)):
            if fn.endswith(".json"):
                d = json.load(open(os.path.join(CORPUS_DIR, fn)))
                if "text_repeat" in d:
                    text = bytes.fromhex(d["text_repeat"][0]) * d["text_repeat"][1] + bytes.fromhex(d.get("text_hex", ""))
                else:
                    text = bytes.fromhex(d["text_hex"])
                out.append({"text": text, "sched": d["sched"], "k": d["k"], "style": d.get("style", "vars"),
                            "class": "corpus", "recipe": "corpus", "key": d.get("key"), "name": fn})
    return out


# ----------------------------------------------------------------------------- analysis of one case

def realised_chunks(text, log):
    out, pos = [], 0
    for _, n in log or []:
        if n > 0:
            out.append(text[pos:pos + n])
            pos += n
    return out


def features(case, log):
    text = case["text"]
    chunks = realised_chunks(text, log)
    lines = text.split(b"\n")
    f = {
        "carry": any(b"\n" in c[:-1] for c in chunks),                      # bytes after a newline in one read
        "split_line": False, "grow": any(len(l) > BUF for l in lines),
        "mb_split": False, "no_final_nl": bool(text) and not text.endswith(b"\n"),
        "crlf": b"\r\n" in text, "empty_line": any(l == b"" for l in lines[:-1]),
        "past_end": case["k"] > len(lines),
    }
    pos = 0
    for c in chunks[:-1] if chunks else []:
        pos += len(c)
        if pos < len(text):
            if text[pos - 1] != 10:
                f["split_line"] = True
            if (text[pos] & 0xC0) == 0x80:
                f["mb_split"] = True
    return f


def classify(case, log):
    f = features(case, log)
    if f["carry"]:
        return KEY_DROP
    if f["grow"]:
        return KEY_GROW
    return None


def shrink(env, case, budget=60):
    """Greedy reduction of a case on which the implementation fails the oracle."""
    runs = [0]

    def fails(c):
        if runs[0] >= budget:
            return False
        runs[0] += 1
        r = run_impl(env, 900000 + runs[0], c)
        return not r["timeout"] and not impl_ok(r, c)

    cur = dict(case)
    cur["style"] = case.get("style", "vars")
    # all at once
    c = dict(cur, sched=[])
    if cur["sched"] and fails(c):
        cur = c
    # fewer lines
    lines = cur["text"].split(b"\n")
    if len(lines) > 2 and not cur["sched"]:
        def pred(ls):
            t = b"\n".join(ls)
            return fails(dict(cur, text=t, k=min(cur["k"], len(ls) + 1)))
        small = common.ddmin_lines(lines, pred, keep_head=0)
        t = b"\n".join(small)
        c = dict(cur, text=t, k=min(cur["k"], len(small) + 1))
        if fails(c):
            cur = c
    # shorter lines (only when no line has to exceed the buffer)
    lines = cur["text"].split(b"\n")
    if not cur["sched"]:
        for i, l in enumerate(lines):
            if len(l) > 1:
                for repl in (l[:1], l[:BUF + 1] if len(l) > BUF + 1 else None):
                    if repl is None or repl == l:
                        continue
                    ls = lines[:i] + [repl] + lines[i + 1:]
                    c = dict(cur, text=b"\n".join(ls))
                    if fails(c):
                        lines, cur = ls, c
                        break
    # fewer calls
    while cur["k"] > 1 and fails(dict(cur, k=cur["k"] - 1)):
        cur = dict(cur, k=cur["k"] - 1)
    return cur


def case_json(case, res=None):
    d = {"text_hex": case["text"].hex() if len(case["text"]) <= 4096 else None,
         "text_len": len(case["text"]), "sched": list(case["sched"]), "sched_len": len(case["sched"]),
         "k": case["k"], "style": case.get("style", "vars")}
    if d["text_hex"] is None:
        # long texts: keep them replayable without storing 100 KB of hex when they are periodic
        d["text_hex_full"] = case["text"].hex()
    if len(case["text"]) <= 200:
        d["text"] = case["text"].decode("utf-8", "replace")
    if res is not None:
        d["impl_rc"] = res["rc"]
        d["impl_stdout_head"] = res["out"][:300].decode("utf-8", "replace")
        d["impl_stderr"] = err_summary(res["err"])
    return d


# ----------------------------------------------------------------------------- long runs
#
# The property quantifies over line COUNTS as well: a script that reads N lines in a loop must get
# every one of them and end normally for large N too, i.e. nothing a read_line call allocates may
# outlive the loop iteration that asked for it.  Two observations:
#   * the real binary on N-line inputs (N up to 40 000 quick, 1 000 000 thorough; a few thousand
#     lines of 10-40 KB) under several chunkings: stdout (every line echoed, or a count and a rolling
#     checksum computed by the script) against the split of the text, exit status 0;
#   * the footprint, through `nsverif readline` (the CLI's run_source replica with the arena
#     accessors): the persistent arena's growth and the frame arena's offset after the run must be
#     the same for k = 100 and k = 1000 lines read - a leak shows long before it exhausts the arena.

KEY_LONG = "long-run-lines-lost-or-abort"
KEY_LEAK = "arena-grows-with-line-count"
ARENA_BYTES = 256 * 1024 * 1024

LONG_SCRIPTS = {
    # the first input line carries the number of calls that follow, so one script serves every N
    "echo": 'make k get read_line("").to_number()\nmake i get 0\njasi (i small pass k) start\n'
            '    make l get read_line("")\n    shout(l)\n    i get i add 1\nend\n',
    "direct": 'make k get read_line("").to_number()\nmake i get 0\njasi (i small pass k) start\n'
              '    shout(read_line(""))\n    i get i add 1\nend\n',
    "outer": 'make k get read_line("").to_number()\nmake l get read_line("")\nshout(l)\nmake i get 1\n'
             'jasi (i small pass k) start\n    l get read_line("")\n    shout(l)\n    i get i add 1\nend\n',
    # nothing is printed inside the loop: count of empty results and a rolling checksum at the end
    "sum": 'make k get read_line("").to_number()\nmake i get 0\nmake c get 0\nmake e get 0\n'
           'jasi (i small pass k) start\n    make l get read_line("")\n    make n get l.len()\n'
           '    if to say (n na 0) start\n        e get e add 1\n    end\n'
           '    c get ((c times 31) add (n times 7) add l.find("e") add 1) mod 1000003\n'
           '    i get i add 1\nend\nshout(c)\nshout(e)\n',
    "outersum": 'make k get read_line("").to_number()\nmake i get 0\nmake c get 0\nmake l get "x"\n'
                'jasi (i small pass k) start\n    l get read_line("")\n'
                '    c get ((c times 31) add (l.len() times 7) add l.find("e") add 1) mod 1000003\n'
                '    i get i add 1\nend\nshout(c)\nshout(l.len())\n',
}


def long_lines(seed, n, kind):
    """n lines, deterministic in (seed, kind), and the first m lines are the same for every n >= m."""
    import random
    rng = random.Random("%s/%s" % (seed, kind))
    if kind == "num":
        return [b"%d" % rng.randrange(10 ** 6) for _ in range(n)]
    if kind in ("ascii", "mixed"):
        pool = []
        for _ in range(1024):
            if kind == "mixed" and rng.random() < 0.45:
                t = "".join(rng.choice(MULTI) if rng.random() < 0.5 else chr(rng.choice(ASCII)) for _ in range(rng.randint(0, 10))).encode()
                if rng.random() < 0.2:
                    t += b"\r"
            else:
                t = bytes(rng.choice(ASCII) for _ in range(rng.randint(0, 24)))
            pool.append(t)
        empty = 0.03 if kind == "mixed" else 0.0
        return [b"" if rng.random() < empty else b"%d %s" % (i, pool[rng.randrange(1024)]) for i in range(n)]
    if kind in ("a300", "long10k", "long40k", "longmix"):
        unit = bytes(rng.choice(ASCII) for _ in range(61))
        out = []
        for i in range(n):
            ln = {"a300": 300, "long10k": 10000, "long40k": 40000}.get(kind) or rng.choice([10000, 16384, 20000, 32768, 40000, rng.randint(10000, 40000)])
            head = b"%d:" % i
            out.append((head + unit * (ln // 61 + 1))[:ln])
        return out
    raise ValueError(kind)


def long_sched(seed, chunking, lines_with_count):
    import random
    rng = random.Random("%s/sched/%s" % (seed, chunking))
    total = sum(len(l) + 1 for l in lines_with_count)
    if chunking == "all":
        return []
    if chunking == "line":
        return [len(l) + 1 for l in lines_with_count]
    if chunking == "bytes":
        return [1] * total
    if chunking == "8k":
        return [rng.choice([8191, 8192, 8193]) for _ in range(total // 8191 + 1)]
    if chunking == "rand":
        out, left = [], total
        while left > 0:
            s = rng.choice([1, 2, 3, 5, 17, 100]) if rng.random() < 0.3 else rng.randint(1, 3000)
            out.append(s)
            left -= s
        return out
    raise ValueError(chunking)


def long_expected(style, lines, calls):
    """stdout the script must produce when it makes `calls` read_line calls after the count line."""
    got = lines[:calls] + [b""] * max(0, calls - len(lines))
    if style in ("echo", "direct", "outer"):
        return b"".join(l + b"\n" for l in got)
    c = e = 0
    last = b"x"
    for l in got:
        sx = l.decode("utf-8")
        n = len(sx)
        if n == 0:
            e += 1
        c = (c * 31 + n * 7 + sx.find("e") + 1) % 1000003
        last = l
    if style == "sum":
        return b"%d\n%d\n" % (c, e)
    return b"%d\n%d\n" % (c, len(last.decode("utf-8")))


def long_case_files(env, tag, spec):
    """Builds the text of a long-run case; returns (text path, lines, calls, sched)."""
    lines = long_lines(spec["seed"], spec["n"], spec["kind"])
    calls = spec["n"] + spec.get("extra_calls", 0)
    with_count = [b"%d" % calls] + lines
    tpath = os.path.join(env.work, tag + ".txt")
    with open(tpath, "wb") as f:
        f.write(b"".join(l + b"\n" for l in with_count))
    return tpath, lines, calls, with_count


def long_script(env, style):
    p = os.path.join(env.work, "long_%s.ns" % style)
    with _script_lock:
        if not os.path.exists(p):
            with open(p + ".tmp", "w") as f:
                f.write(LONG_SCRIPTS[style])
            os.replace(p + ".tmp", p)
    return p


def run_long(env, tag, spec, want_log=False, timeout=600):
    """One long run of the real binary under the shim.  Returns dict(ok, rc, lines_ok, err, secs, log)."""
    tpath, lines, calls, with_count = long_case_files(env, tag, spec)
    sched = long_sched(spec["seed"], spec["chunking"], with_count)
    spath, lpath, opath = [os.path.join(env.work, tag + x) for x in (".sched", ".log", ".out")]
    with open(spath, "w") as f:
        f.write(",".join(str(x) for x in sched))
    e = dict(os.environ)
    e.update(LD_PRELOAD=shim_path(), READSHIM_SCHED=spath)
    if want_log:
        if os.path.exists(lpath):
            os.remove(lpath)
        e["READSHIM_LOG"] = lpath
    t0 = time.time()
    res = {"timeout": False, "log": None, "sched": sched}
    try:
        with open(tpath, "rb") as fin, open(opath, "wb") as fout:
            p = subprocess.run([common.naija_bin(False), long_script(env, spec["style"])], stdin=fin, stdout=fout,
                               stderr=subprocess.PIPE, env=e, timeout=timeout)
        rc, err = p.returncode, p.stderr[-8000:].decode("utf-8", "replace")
    except subprocess.TimeoutExpired:
        rc, err = 124, "[timeout]"
        res["timeout"] = True
    out = open(opath, "rb").read() if os.path.exists(opath) else b""
    want = long_expected(spec["style"], lines, calls)
    ok = rc == 0 and out == want
    lines_ok = 0
    if not ok and spec["style"] in ("echo", "direct", "outer"):
        for a, b in zip(out.split(b"\n"), want.split(b"\n")):
            if a != b:
                break
            lines_ok += 1
    if want_log and os.path.exists(lpath):
        res["log"] = [tuple(int(x) for x in l.split()) for l in open(lpath).read().split("\n") if l.strip()]
    res.update(ok=ok, rc=rc, err=err, secs=round(time.time() - t0, 2), lines_ok=lines_ok, out_head=out[:120],
               want_head=want[:120], text_path=tpath)
    for p_ in (spath, lpath, opath):
        if os.path.exists(p_):
            os.remove(p_)
    return res


def run_footprint(env, tag, style, kind, k, seed):
    """`nsverif readline`: the script run as the CLI runs it, arena offsets read back."""
    spec = {"seed": seed, "n": k, "kind": kind, "style": style, "extra_calls": 0}
    tpath, lines, calls, _ = long_case_files(env, tag, spec)
    opath = os.path.join(env.work, tag + ".fp")
    if os.path.exists(opath):
        os.remove(opath)
    e = dict(os.environ)
    e.pop("LD_PRELOAD", None)
    try:
        with open(tpath, "rb") as fin:
            p = subprocess.run([common.harness_bin(), "readline", long_script(env, style), opath], stdin=fin,
                               stdout=subprocess.PIPE, stderr=subprocess.PIPE, env=e, timeout=300)
        rc, out, err = p.returncode, p.stdout, p.stderr[-2000:].decode("utf-8", "replace")
    except subprocess.TimeoutExpired:
        rc, out, err = 124, b"", "[timeout]"
    os.remove(tpath)
    rec = {"rc": rc, "err": err, "stdout_ok": out == long_expected(style, lines, calls), "k": k}
    if os.path.exists(opath):
        w = open(opath).read().split()
        os.remove(opath)
        rec["ending"] = w[1] if len(w) > 1 else "?"
        for x in w[2:]:
            a, _, b = x.partition("=")
            rec[a] = int(b)
    return rec


def spec_json(spec):
    return {k: spec[k] for k in ("seed", "n", "kind", "style", "chunking", "extra_calls") if k in spec}


def minimise_n(env, spec, budget=14):
    """Smallest line count (same generator, same chunking recipe) on which the run still fails."""
    lo, hi = 0, spec["n"]          # lo passes (or untested 0), hi fails
    runs = 0
    while hi - lo > 1 and runs < budget:
        mid = (lo + hi) // 2
        r = run_long(env, "min%d" % runs, dict(spec, n=mid))
        if os.path.exists(r["text_path"]):
            os.remove(r["text_path"])
        runs += 1
        if r["timeout"] or r["ok"]:
            lo = mid
        else:
            hi = mid
    return hi


def long_runs(env, ex, model):
    """The long-run family.  Returns (evaluations, failures, disagreements, extra dict)."""
    quick = env.tier == "quick"
    seed = env.seed
    failures, disagreements = [], []
    extra = {"runs": [], "footprint": []}
    specs = []
    sizes = [1000, 40000] if quick else [1000, 40000, 200000, 1000000]
    for n in sizes:
        if n <= 40000:
            combos = [("echo", "mixed", "all"), ("echo", "mixed", "line"), ("echo", "ascii", "rand"), ("direct", "mixed", "rand"),
                      ("direct", "num", "8k"), ("outer", "mixed", "all"), ("outer", "ascii", "line"), ("sum", "ascii", "rand"),
                      ("sum", "num", "all"), ("outersum", "ascii", "8k"), ("echo", "ascii", "bytes")]
        else:
            combos = [("echo", "mixed", "all"), ("direct", "ascii", "rand"), ("outer", "mixed", "line"), ("sum", "ascii", "8k"),
                      ("sum", "num", "rand")]
        for style, kind, chunking in combos:
            specs.append({"seed": seed, "n": n, "kind": kind, "style": style, "chunking": chunking, "extra_calls": 2})
    for n, kind in ([(1500, "longmix"), (600, "long40k")] if quick else [(4000, "longmix"), (2500, "long40k"), (6000, "long10k")]):
        for style, chunking in (("echo", "all"), ("sum", "rand"), ("direct", "8k")):
            specs.append({"seed": seed, "n": n, "kind": kind, "style": style, "chunking": chunking, "extra_calls": 1})

    # the model on the same text for the cases it can afford (it is list-based): all 1000-line
    # cases with their read logs, and one 40 000-line case
    modelled = [i for i, sp in enumerate(specs) if sp["n"] == 1000 or (sp["n"] == 40000 and sp["style"] == "echo" and sp["chunking"] == "rand")]
    futs = {i: ex.submit(run_long, env, "long%d" % i, sp, i in modelled) for i, sp in enumerate(specs)}

    # footprint: same script, k = 100 and k = 1000
    fp_cfg = [("sum", "ascii"), ("sum", "num"), ("sum", "a300"), ("sum", "long10k"), ("sum", "long40k"), ("outersum", "ascii"), ("outersum", "num")]
    fp_futs = {}
    for j, (style, kind) in enumerate(fp_cfg):
        for k in (100, 1000):
            fp_futs[(j, k)] = ex.submit(run_footprint, env, "fp%d_%d" % (j, k), style, kind, k, seed)

    evaluations = 0
    results = {}
    for i, sp in enumerate(specs):
        r = futs[i].result()
        results[i] = r
        if i not in modelled and os.path.exists(r["text_path"]):
            os.remove(r["text_path"])
        if r["timeout"]:
            extra["runs"].append(dict(spec_json(sp), result="timeout"))
            if os.path.exists(r["text_path"]):
                os.remove(r["text_path"])
            continue
        evaluations += 1
        extra["runs"].append(dict(spec_json(sp), ok=r["ok"], secs=r["secs"]))
        if not r["ok"] and not any(f["key"] == KEY_LONG for f in failures):
            nmin = minimise_n(env, sp)
            rmin = run_long(env, "minfinal", dict(sp, n=nmin))
            if os.path.exists(rmin["text_path"]):
                os.remove(rmin["text_path"])
            if rmin["ok"]:
                nmin, rmin = sp["n"], r
            failures.append({"key": KEY_LONG, "case": {"long_run": dict(spec_json(sp), n=nmin)},
                             "observed": "rc=%s after %s of %d lines echoed correctly; %s" % (
                                 rmin["rc"], rmin["lines_ok"] if sp["style"] in ("echo", "direct", "outer") else "?",
                                 nmin + sp["extra_calls"], err_summary(rmin["err"]) if rmin["rc"] != 0 else
                                 "stdout %r, wanted %r" % (rmin["out_head"][:60], rmin["want_head"][:60]))})

    # model comparison for the affordable cases
    if model:
        mcases = []
        for i in modelled:
            r = results[i]
            if r["timeout"] or not os.path.exists(r["text_path"]):
                continue
            text = open(r["text_path"], "rb").read()
            mcases.append((i, {"text": text, "sched": r["sched"], "k": specs[i]["n"] + specs[i]["extra_calls"] + 1}))
        mfuts = [ex.submit(run_model, env, "mlong%d" % i, [(i, c)]) for i, c in mcases]
        for (i, c), fu in zip(mcases, mfuts):
            mres, merr = fu.result()
            if mres is None or mres.get(i) is None:
                disagreements.append({"stream": "readline-model-long-run", "error": merr or "no output", "long_run": spec_json(specs[i])})
                continue
            mlines, mtrace, xl = mres[i]
            want = oracle_lines(c["text"], c["k"])
            if mlines is None:
                disagreements.append({"stream": "readline-model-long-run", "error": "model faulted or ran out of fuel", "long_run": spec_json(specs[i])})
            elif mlines != want or xl != want:
                disagreements.append({"stream": "readline-reference-vs-python-oracle", "long_run": spec_json(specs[i])})
            elif results[i]["ok"] and results[i]["log"] is not None and mtrace != results[i]["log"]:
                d = next((j for j, (a, b) in enumerate(zip(mtrace, results[i]["log"])) if a != b), min(len(mtrace), len(results[i]["log"])))
                disagreements.append({"stream": "readline-read-trace-long-run", "long_run": spec_json(specs[i]), "first_difference_at_read": d,
                                      "model_reads": mtrace[max(0, d - 2):d + 3], "impl_reads": results[i]["log"][max(0, d - 2):d + 3]})
            extra.setdefault("modelled_long_runs", []).append(spec_json(specs[i]))
    for r in results.values():
        if os.path.exists(r["text_path"]):
            os.remove(r["text_path"])

    # footprint
    for j, (style, kind) in enumerate(fp_cfg):
        a, b = fp_futs[(j, 100)].result(), fp_futs[(j, 1000)].result()
        evaluations += 2
        rec = {"style": style, "kind": kind}
        bad = None
        for r in (a, b):
            if r["rc"] != 0 or r.get("ending") != "ok" or not r["stdout_ok"] or "arena_after" not in r:
                bad = "run of k=%d lines through nsverif readline: rc=%s ending=%s stdout_ok=%s %s" % (
                    r["k"], r["rc"], r.get("ending"), r["stdout_ok"], err_summary(r["err"]))
        if bad is None:
            ga, gb = a["arena_after"] - a["arena_before"], b["arena_after"] - b["arena_before"]
            rec.update(arena_growth_k100=ga, arena_growth_k1000=gb, frame_after_k100=a["frame_after"], frame_after_k1000=b["frame_after"],
                       frame_resets_k1000=b.get("resets"), pool_returns_k1000=b.get("returns"))
            # What may legitimately stay: a string longer than the pool's largest slot (256 bytes) that is
            # bound to a variable is copied once, at its exact length, to the persistent arena (such
            # buffers are never recycled: C12), i.e. at most the bytes of the lines themselves; short
            # lines go to pool slots that are returned every iteration, i.e. nothing.  The frame arena is
            # reset every iteration; its final offset depends on the last line only.
            lens = [len(l) for l in long_lines(seed, 1000, kind)[100:]]
            allowed = 0 if max(lens) <= 200 else sum(lens)
            frame_slack = 262144
            rec["allowed_extra_growth"] = allowed
            if gb - ga > allowed or b["frame_after"] - a["frame_after"] > frame_slack:
                per_call = max(gb - ga - allowed, b["frame_after"] - a["frame_after"]) / 900.0
                bad = ("after reading k lines in a loop the persistent arena has grown by %d bytes for k=100 and %d for k=1000 "
                       "(at most %d more are explained by the lines themselves; frame arena offset %d vs %d): about %.0f bytes "
                       "per read_line call are never reclaimed"
                       % (ga, gb, allowed, a["frame_after"], b["frame_after"], per_call))
                rec["per_call_bytes"] = per_call
        extra["footprint"].append(rec)
        if bad and not any(f["key"] == KEY_LEAK for f in failures):
            # make it a concrete failing input when the arena would be exhausted within reach
            confirm = None
            pc = rec.get("per_call_bytes", 0)
            if pc > 0:
                need = int(ARENA_BYTES / pc) + 2000
                if need <= (300000 if quick else 3000000):
                    sp = {"seed": seed, "n": need, "kind": kind, "style": style, "chunking": "all", "extra_calls": 0}
                    r = run_long(env, "leakconfirm", sp)
                    if os.path.exists(r["text_path"]):
                        os.remove(r["text_path"])
                    if not r["timeout"] and not r["ok"]:
                        confirm = {"long_run": spec_json(sp), "rc": r["rc"], "stderr": err_summary(r["err"])}
            failures.append({"key": KEY_LEAK, "case": {"footprint": {"style": style, "kind": kind, "seed": seed}, "confirmed_by": confirm},
                             "observed": bad + ("; confirmed: a run of %d lines ends with rc=%s %s" % (
                                 confirm["long_run"]["n"], confirm["rc"], confirm["stderr"]) if confirm else "")})
    return evaluations, failures, disagreements, extra


# ----------------------------------------------------------------------------- the check

def private_work(env):
    """common.Env wipes .build/work/C17 when it is created, so a second `bin/check C17` started
    while this one runs would delete the files in use here: work in a directory of our own."""
    import shutil
    import tempfile
    base = os.path.join(common.BUILD, "work")
    os.makedirs(base, exist_ok=True)
    env.work = tempfile.mkdtemp(prefix="C17-%d-" % os.getpid(), dir=base)
    return lambda: shutil.rmtree(env.work, ignore_errors=True)


def correspond(env, searching=False, model=True):
    cleanup = private_work(env)
    try:
        return correspond_in(env, searching, model)
    finally:
        cleanup()


def correspond_in(env, searching=False, model=True):
    ok, out = common.build_naija()
    if not ok:
        raise RuntimeError("naija build failed: " + out[-2000:])
    build_shim()
    rng = env.rng
    n_cases = 1500 if env.tier == "quick" else 40000
    n_pipe = 40 if env.tier == "quick" else 500
    if searching:
        n_cases = int(n_cases * 1.5)
    t_start = time.time()
    # time budgets (seconds after the start): debug pass, release pass (thorough only), runs without the shim
    deadline = t_start + (30 if env.tier == "quick" else 1000)
    deadline_release = t_start + 1400
    deadline_pipe = t_start + (42 if env.tier == "quick" else 1700)

    corpus = load_corpus()
    n_corpus = len(corpus)

    # the long-run family runs beside the random cases, on its own threads
    long_box = {}

    def long_thread():
        try:
            with concurrent.futures.ThreadPoolExecutor(max_workers=6) as lex:
                long_box["res"] = long_runs(env, lex, model)
        except Exception:  # noqa
            import traceback
            long_box["crash"] = traceback.format_exc()

    lt = threading.Thread(target=long_thread)
    lt.start()

    failures, disagreements, samples = [], [], []
    seen_keys = set()
    nontrivial = set()
    hist = {"class": {}, "recipe": {}, "style": {}, "features": {}, "line_len": {"0": 0, "1-12": 0, "13-8191": 0, "8192": 0, "8193-16384": 0, ">16384": 0},
            "text_len_max": 0, "reads_total": 0, "reads_max_per_case": 0, "max_line": 0}
    evaluations = 0
    inconclusive = 0
    failing_cases = 0
    model_none = 0
    workers = max(6, min(16, os.cpu_count() or 4))

    def bump(d, k, n=1):
        d[k] = d.get(k, 0) + n

    shard = 250
    stopped_early = False
    passes = [(s0, False) for s0 in range(0, n_cases, shard)]
    if env.tier == "thorough":
        # a quarter as many again on the release build (no debug assertions, optimised code)
        passes += [(s0, True) for s0 in range(n_cases, n_cases + n_cases // 4, shard)]
    release_cases = 0
    for s0, release in passes:
        if time.time() > (deadline_release if release else deadline) and s0 >= 2 * shard:
            stopped_early = True
            if release:
                break
            continue
        if release and not RELEASE[0]:
            ok, out = common.build_naija(release=True)
            if not ok:
                raise RuntimeError("naija release build failed: " + out[-2000:])
        RELEASE[0] = release
        batch = list(corpus) if s0 == 0 or (release and s0 == n_cases) else []
        while len(batch) < shard:
            batch.append(gen_case(rng, env.tier))
        part = list(enumerate(batch, s0))
        with concurrent.futures.ThreadPoolExecutor(max_workers=workers) as ex:
            # the list-based model is the slow side: several nsmodel processes per shard,
            # cases dealt out by size so the groups cost about the same
            mfuts = []
            if model:
                def est(c):   # rough cost of the list-based model: (calls + reads) x bytes buffered
                    return (c["k"] + len(c["sched"]) + len(c["text"]) // BUF + 1) * (min(len(c["text"]), 9000) + 50)
                order = sorted(part, key=lambda ic: -est(ic[1]))
                ng = max(1, workers - 4)
                bins = [[0, []] for _ in range(ng)]
                for ic in order:          # longest-processing-time-first assignment
                    b = min(bins, key=lambda x: x[0])
                    b[0] += est(ic[1])
                    b[1].append(ic)
                for g, (_, grp) in enumerate(bins):
                    if grp:
                        mfuts.append(ex.submit(run_model, env, "m%d_%d" % (s0, g), grp))
            impl = list(ex.map(lambda ic: run_impl(env, ic[0], ic[1]), part))
            mres, merr = {}, ""
            for fu in mfuts:
                r_, e_ = fu.result()
                if r_ is None:
                    mres, merr = None, e_
                    break
                mres.update(r_)
        if model and mres is None:
            disagreements.append({"stream": "readline-model", "error": merr})
            mres = {}
        for (cid, case), res in zip(part, impl):
            if res["timeout"]:
                inconclusive += 1
                continue
            evaluations += 1
            release_cases += 1 if release else 0
            f = features(case, res["log"])
            bump(hist["class"], case["class"])
            bump(hist["recipe"], case["recipe"])
            bump(hist["style"], case.get("style", "vars"))
            for k_, v in f.items():
                if v:
                    bump(hist["features"], k_)
            for l in case["text"].split(b"\n"):
                n = len(l)
                b = "0" if n == 0 else "1-12" if n <= 12 else "13-8191" if n < BUF else "8192" if n == BUF else "8193-16384" if n <= 2 * BUF else ">16384"
                hist["line_len"][b] += 1
                hist["max_line"] = max(hist["max_line"], n)
            hist["text_len_max"] = max(hist["text_len_max"], len(case["text"]))
            nreads = len(res["log"] or [])
            hist["reads_total"] += nreads
            hist["reads_max_per_case"] = max(hist["reads_max_per_case"], nreads)
            want = oracle_lines(case["text"], case["k"])
            good = impl_ok(res, case)
            if not good:
                failing_cases += 1
                key = case.get("key") or classify(case, res["log"])
                if key is None or key not in seen_keys:
                    small, sres = case, res
                    if not case.get("key"):
                        small = shrink(env, case)
                        sres = run_impl(env, 950000 + cid, small)
                        if impl_ok(sres, small):
                            small, sres = case, res
                        key = classify(small, sres["log"]) or ("other:" + common.chash(small["text"].hex() + str(small["sched"]) + str(small["k"])))
                    if key not in seen_keys and len(failures) < 6:
                        seen_keys.add(key)
                        failures.append({"key": key, "case": case_json(small, sres), "profile": "release" if release else "debug",
                                         "expected_lines_head": [x.decode("utf-8", "replace")[:80] for x in oracle_lines(small["text"], small["k"])[:8]],
                                         "observed": "rc=%s, stdout differs from the k pieces of the text split at newlines" % sres["rc"]
                                         if sres["rc"] == 0 else "rc=%s %s" % (sres["rc"], err_summary(sres["err"]))})
                continue
            if f["carry"] or f["split_line"]:
                nontrivial.add(common.chash(case["text"].hex() + "|" + ",".join(str(n) for _, n in (res["log"] or [])) + "|%d" % case["k"]))
            if model:
                m = mres.get(cid)
                if m is None:
                    if mres:
                        disagreements.append({"stream": "readline-model", "error": "no model output for case", "case": case_json(case)})
                    continue
                mlines, mtrace, xl = m
                if mlines is None:
                    model_none += 1
                    disagreements.append({"stream": "readline-model", "error": "model faulted or ran out of fuel (theorem says impossible)",
                                          "case": case_json(case)})
                elif mlines != want or xl != want:
                    disagreements.append({"stream": "readline-reference-vs-python-oracle", "case": case_json(case),
                                          "model_lines_head": [x.hex() for x in mlines[:6]], "coq_expected_head": [x.hex() for x in xl[:6]]})
                elif res["log"] is not None and mtrace != res["log"]:
                    if len(disagreements) < 5:
                        i = next((j for j, (a, b) in enumerate(zip(mtrace, res["log"])) if a != b), min(len(mtrace), len(res["log"])))
                        disagreements.append({"stream": "readline-read-trace", "case": case_json(case), "first_difference_at_read": i,
                                              "model_reads": mtrace[max(0, i - 2):i + 3], "impl_reads": res["log"][max(0, i - 2):i + 3]})
            if len(samples) < 4 and len(case["text"]) <= 40 and case["sched"] and f["carry"]:
                samples.append({"text": case["text"].decode("utf-8", "replace"), "pieces": case["sched"], "k": case["k"],
                                "reads(count,n)": res["log"], "stdout": res["out"].decode("utf-8", "replace")})
        if len(failures) >= 6:
            break

    RELEASE[0] = False
    # runs without the shim: real pipe with timed writes, and a plain file
    pipe_runs = pipe_bad = 0
    prng = rng
    for i in range(n_pipe):
        if time.time() > deadline_pipe:
            break
        case = gen_case(prng, env.tier)
        mode = "file" if i % 5 == 4 else "pipe"
        if mode == "pipe":
            if len(case["sched"]) > 300:
                case["sched"] = case["sched"][:300]
            case["delays"] = [prng.choice([0, 0, 0.0005, 0.002])for _ in range(7)]
            res = run_pipe(env, case)
        else:
            res = run_impl(env, 800000 + i, case, shim=False)
        if res["timeout"]:
            inconclusive += 1
            continue
        pipe_runs += 1
        evaluations += 1
        if not impl_ok(res, case):
            pipe_bad += 1
            failing_cases += 1
            # the chunking is the kernel's: look for the class with the shim, everything at once
            c2 = dict(case, sched=[])
            r2 = run_impl(env, 810000 + i, c2)
            key = (classify(c2, r2["log"]) if not impl_ok(r2, c2) else None) or ("nopipe:" + common.chash(case["text"].hex()))
            if key not in seen_keys and len(failures) < 6:
                seen_keys.add(key)
                failures.append({"key": key, "case": case_json(case, res), "mode": mode,
                                 "observed": "without the shim (%s): rc=%s, stdout differs from the pieces of the text" % (mode, res["rc"])})

    lt.join()
    if "crash" in long_box:
        raise RuntimeError("long-run family crashed:\n" + long_box["crash"])
    l_eval, l_fail, l_dis, l_extra = long_box["res"]
    evaluations += l_eval
    failing_cases += len(l_fail)
    for f in l_fail:
        if f["key"] not in seen_keys:
            seen_keys.add(f["key"])
            failures.append(f)
    disagreements += l_dis
    hist["pipe_or_file_runs_without_shim"] = pipe_runs
    hist["failing_cases"] = failing_cases
    hist["inconclusive_timeouts"] = inconclusive
    hist["stopped_early_by_time_budget"] = stopped_early
    hist["corpus_cases"] = n_corpus
    hist["profiles"] = {"debug": evaluations - release_cases, "release": release_cases}
    hist["cases_planned"] = len(passes) * shard
    return {
        "evaluations": evaluations,
        "distinct_nontrivial": len(nontrivial),
        "rule": "(text, schedule of piece sizes, k) cases: real naija under the read(2) shim vs extracted ReadLine.run vs text.split(b'\\n'); "
                "compared: the k printed lines (bytes) and the full (count requested, bytes returned) log of every read on fd 0; "
                "non-trivial = passing case, distinct (text, realised read sizes, k), in which some read returned bytes past a newline "
                "(carry-over used) or a line was assembled from more than one read; plus pipe/file runs without the shim against the oracle; "
                "plus the long-run family: loop scripts reading N lines (N up to 40 000 quick / 1 000 000 thorough short lines, thousands of "
                "10-40 KB lines) under five chunkings, every line echoed or a count + rolling checksum printed at the end, exit status 0, "
                "the 1000-line and one 40 000-line case also against the extracted model with read logs; and the footprint through "
                "`nsverif readline`: persistent-arena growth and frame-arena offset equal for k = 100 and k = 1000 lines read",
        "samples": samples,
        "failures": failures,
        "disagreements": disagreements,
        "extra": {"input_distribution": hist, "long_runs": l_extra},
    }


def replay(env, payload):
    cleanup = private_work(env)
    try:
        return replay_in(env, payload)
    finally:
        cleanup()


def replay_in(env, payload):
    ok, out = common.build_naija()
    if not ok:
        print("replay: naija does not build: " + out[-1000:])
        return 1
    build_shim()
    common.build_nsmodel()
    case = payload.get("case") or (payload.get("disagreements") or [{}])[0]
    cj = case.get("case", case)
    if "long_run" in cj or "long_run" in case or "footprint" in cj:
        bad = False
        sp = cj.get("long_run") or case.get("long_run") or (cj.get("confirmed_by") or {}).get("long_run")
        if sp:
            r = run_long(env, "replay", dict(sp))
            if os.path.exists(r["text_path"]):
                os.remove(r["text_path"])
            print("long run %s: rc=%s ok=%s %s" % (sp, r["rc"], r["ok"], err_summary(r["err"]) if r["rc"] else ""))
            bad = bad or not r["ok"]
        fp = cj.get("footprint")
        if fp:
            common.build_harness()
            a = run_footprint(env, "rfp100", fp["style"], fp["kind"], 100, fp["seed"])
            b = run_footprint(env, "rfp1000", fp["style"], fp["kind"], 1000, fp["seed"])
            print("footprint k=100 : %s" % a)
            print("footprint k=1000: %s" % b)
            same = all("arena_after" in r for r in (a, b)) and a["arena_after"] - a["arena_before"] == b["arena_after"] - b["arena_before"] \
                and a["frame_after"] == b["frame_after"]
            bad = bad or not same
        print("replay: %s" % ("still failing" if bad else "passes now"))
        return 1 if bad else 0
    hx = cj.get("text_hex") if cj.get("text_hex") is not None else cj.get("text_hex_full")
    if hx is None:
        print("replay: no concrete case in this file (obligations: %s)" % payload.get("no_longer_checks"))
        return 1
    c = {"text": bytes.fromhex(hx), "sched": cj.get("sched", []), "k": cj["k"], "style": cj.get("style", "vars")}
    if case.get("profile") == "release":
        common.build_naija(release=True)
        RELEASE[0] = True
    res = run_impl(env, 1, c)
    want = oracle_lines(c["text"], c["k"])
    print("text   : %r" % c["text"][:200])
    print("pieces : %s  k=%d" % (c["sched"][:40], c["k"]))
    print("reads  : %s" % (res["log"] or [])[:20])
    print("stdout : %r (rc=%s)" % (res["out"][:300], res["rc"]))
    print("wanted : %r" % b"".join(l + b"\n" for l in want)[:300])
    bad = not impl_ok(res, c)
    mres, _ = run_model(env, "replay", [(0, c)])
    if mres and mres.get(0) and mres[0][0] is not None:
        ml, mt, _x = mres[0]
        print("model  : %r reads %s" % (b"".join(l + b"\n" for l in ml)[:300], mt[:20]))
        if not bad and (ml != want or (res["log"] is not None and mt != res["log"])):
            bad = True
            print("replay: implementation satisfies the oracle but differs from the model")
    print("replay: %s" % ("still failing" if bad else "passes now"))
    return 1 if bad else 0
