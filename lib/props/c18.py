"""C18 — exceeding an analysis budget only disables optimisation, never correctness.

Three streams, all seeded from env.rng:

  A  function level   count vectors + caps  ->  real `first_exceeded_limit` (facts / counts built
                      with exactly those sizes through the public API) vs the extracted model;
                      small caps (every stage, every order), the default caps at cap-1 / cap /
                      cap+1 of every counter, and u32/u64 extremes (saturation).
  B  shapes           small random programs with every statement kind, nested functions, dead code
                      and unused declarations: the real resolver's tables and count_program vs the
                      model's `counts_of_program`; the real gate's diagnostics / plan vs the model's
                      `emit_analysis_warnings` fed with the analyses recomputed through the public
                      API; property oracle on the implementation.
  C  sized programs   for every limit reachable under DEFAULT_CAPS a program family with a size
                      parameter; the effective threshold T is found by bisection on the *model*
                      (not read off the constants); the real parser + resolver + runtime run at
                      T-1, T, T+1.  Property oracle: accepted, runs to completion, output with the
                      resolver's plan == output with no plan == output with the plan recomputed
                      without the gate == the output the generator expects; over the limit exactly
                      one resource-limit warning, no analysis warning, no plan; below it no
                      resource-limit warning, a plan, the full analysis result.
"""
import concurrent.futures
import json
import os
import re

import common

TRUSTED_EXTRA = [
    "C18: translator/gen_limits.py (regex reading of limits.rs / resolver.rs / summary.rs / runtime.rs into GenLimits.v)",
    "C18: coq/extract/mode_limits.ml (shape parser, decimal <-> Z glue) and harness/src/limits.rs (builds facts/counts of given sizes through public fields; re-runs the analyses through the public API)",
    "C18: usize is 64 bit; `usize as u64` and `u64::from(u32)` are the identity; count_program's u32 counters do not wrap (a program would need 2^32 statements)",
    "C18: OptimizationPlan::contains_* (binary search over the sorted id vectors) modelled as list membership; exec_stmt / register_function are abstract (they never see the plan: runtime.rs mentions `optimization_plan` only in the five functions listed in GenLimits.runtime_plan_users)",
]
ASSUMPTIONS = [
    "the analyses themselves (reachability, summaries, liveness, plan building) are abstract inputs of the gate model; that pruning with a plan preserves results is property C03, here only observed on the generated programs (plan vs no plan vs recomputed plan)",
    "the summary fixpoint is modelled as an arbitrary schedule of push_unique_bounded / class steps over tables of callees, capture reads/writes and class levels (C18_summary_events_are_insertions); the charging functions are tied to summary.rs textually, the schedule itself is not modelled",
    "liveness.rs, reachability.rs, diagnostics.rs and opt.rs have no run-time allowance (GenLimits.caps_users lists every reference to the caps outside limits.rs)",
    "generated programs are closed numeric programs without captured variables (the known C03/C04 defect shapes are avoided); arenas of 256 MiB as in the CLI",
]
COQ_TIMEOUT = 1500

METRICS = ["functions", "locals", "scopes", "statements", "cfg_ops", "ops_in_one_function", "cfg_blocks",
           "blocks_in_one_function", "direct_user_calls", "summary_events", "liveness_events"]
U32 = (1 << 32) - 1
U64 = (1 << 64) - 1
SNAPSHOT = [16384, 131072, 131072, 262144, 262144, 262144, 524288, 65536, 262144, 16777216, 33554432]
ANALYSIS_MESSAGES = {"Unreachable code": "U", "Unused assignment": "A", "Unused variable": "V", "Unused function": "F"}


# ----------------------------------------------------------------------------------------------
# plumbing

def nsmodel(args, timeout=900):
    # the extracted list functions recurse on 10^5-element lists: lift the stack limit
    cmd = "ulimit -s unlimited 2>/dev/null; exec %s %s" % (common.NSMODEL, " ".join("'%s'" % a for a in args))
    return common.sh(cmd, timeout=timeout)


def model_info(env):
    out = os.path.join(env.work, "info.out")
    rc, o = nsmodel(["limits", "info", out])
    if rc != 0:
        raise RuntimeError("nsmodel limits info failed: " + o[-500:])
    info = {}
    for l in open(out).read().splitlines():
        k, v = l.split(None, 1)
        info[k] = v
    info["caps"] = [int(x) for x in info["caps"].split(",")]
    return info


def impl_caps(release=False):
    rc, o = common.sh([common.harness_bin(release), "limits", "caps"])
    m = re.search(r"caps ([\d,]+)", o)
    if rc != 0 or not m:
        raise RuntimeError("nsverif limits caps failed: " + o[-500:])
    return [int(x) for x in m.group(1).split(",")]


# ----------------------------------------------------------------------------------------------
# stream A: function level

def fn_line(cid, caps, g, triples):
    return "C %d | %s | %s | %s" % (cid, ",".join(map(str, caps)), ",".join(map(str, g)),
                                   " ".join("%d,%d,%d" % t for t in triples))


def gen_fn_cases(rng, caps0, tier, searching):
    """Returns (lines, kinds) — each line one case."""
    n_small = 1200 if tier == "quick" else 30000
    n_sat = 300 if tier == "quick" else 8000
    n_mid = 200 if tier == "quick" else 4000
    if searching:
        n_small *= 3
        n_sat *= 3
    lines = []
    kinds = {}

    def add(kind, caps, g, triples):
        lines.append(fn_line(len(lines), caps, g, triples))
        kinds[kind] = kinds.get(kind, 0) + 1

    # small caps, small counts: every stage and every combination of tripping stages
    for _ in range(n_small):
        hi = rng.choice([2, 4, 8])
        caps = [rng.randint(0, hi) for _ in range(9)] + [rng.randint(0, hi * hi * 3), rng.randint(0, hi * hi * 3)]
        if rng.random() < 0.5:
            # make most caps generous so that late stages are reached
            for i in range(11):
                if rng.random() < 0.7:
                    caps[i] = 1000
        f = rng.randint(0, 4)
        triples = [(rng.randint(0, hi + 1), rng.randint(0, hi + 1), rng.randint(0, hi + 1)) for _ in range(f)]
        g = [rng.randint(0, hi + 1) for _ in range(6)]
        add("small", caps, g, triples)
    # default caps, each counter at cap-1 / cap / cap+1 (others small), alone and in pairs
    base_g = [3, 4, 5, 1, 5, 6]
    scal = {1: 0, 2: 1, 3: 2, 8: 3, 4: 4, 6: 5}          # metric index -> position in g
    for mi in range(11):
        for d in (-1, 0, 1):
            g = list(base_g)
            triples = [(2, 5, 3), (2, 0, 0)]
            cap = caps0[mi]
            if mi in scal:
                if cap + d > 400000 and mi not in (4, 6):
                    continue
                g[scal[mi]] = min(cap + d, U32 if mi in (4, 6) else cap + d)
            elif mi == 0:
                if cap + d > 40000:
                    continue
                triples = [(2, 1, 0)] * (cap + d)
            elif mi == 5:
                triples = [(2, 5, 3), (2, min(cap + d, U32), 0)]
            elif mi == 7:
                triples = [(min(cap + d, U32), 5, 0), (2, 0, 0)]
            elif mi == 9:
                # F * (F + 2L + 2) around the cap: choose F then L
                f = max(1, int(cap ** 0.5) // 2)
                f = min(f, 3000)
                l = max(0, (cap // f - f - 2) // 2 + d)
                if l > 400000:
                    continue
                g[0] = l
                triples = [(2, 1, 0)] * f
            elif mi == 10:
                # (2b + o) * l around the cap in one function
                l = max(1, int(cap ** 0.5))
                o = max(0, cap // l - 4 + d)
                triples = [(2, min(o, U32), min(l, U32))]
            add("default-boundary-%s" % METRICS[mi], caps0, g, triples)
    for _ in range(20 if tier == "quick" else 400):
        # two or three counters over their default caps at once: the first in source order wins
        g = list(base_g)
        over = rng.sample([1, 2, 3, 4, 6, 8], rng.randint(2, 3))
        for mi in over:
            if caps0[mi] + 1 <= 400000:
                g[scal[mi]] = caps0[mi] + rng.randint(1, 3)
        add("default-multi", caps0, g, [(2, 5, 3)])
    # functions AND locals large at the same time: F*(F+2L+2) crosses 2^32 although each factor is
    # far below it (and, with the default caps, below its own cap so that no earlier stage trips)
    n_cross = 10 if tier == "quick" else 80
    for i in range(n_cross):
        f = rng.randint(int(caps0[0] * 0.88), caps0[0])
        l = rng.randint(int(caps0[1] * 0.88), caps0[1])
        if f > 40000 or l > 600000:
            break
        add("default-product-cross", caps0, [l, 4, 5, 1, 5, 6], [(2, 1, 0)] * f)
    for i in range(n_cross):
        f = rng.randint(3000, 20000)
        l = rng.randint(100000, 400000)
        prod = f * (f + 2 * l + 2)
        caps = [U32] * 9 + [max(0, prod + rng.choice([-1, 0, 1, -(1 << 32), (1 << 32) - prod % (1 << 32)])), U64]
        add("product-cross", caps, [l, 4, 5, 1, 5, 6], [(2, 1, 0)] * f)
    # u32 / u64 extremes: saturation in the liveness fold, caps at and next to u64::MAX
    ext32 = [0, 1, 2, 65535, 65536, (1 << 31) - 1, 1 << 31, U32 - 1, U32]
    ext64 = [0, 1, (1 << 32), (1 << 63) - 1, 1 << 63, U64 - 2, U64 - 1, U64]
    for _ in range(n_sat):
        caps = [U32] * 9 + [rng.choice(ext64), rng.choice(ext64)]
        if rng.random() < 0.3:
            caps[rng.randrange(9)] = rng.choice(ext32)
        f = rng.randint(1, 4)
        triples = [(rng.choice(ext32), rng.choice(ext32), rng.choice(ext32)) for _ in range(f)]
        g = [rng.randint(0, 40), rng.randint(0, 40), rng.randint(0, 40), rng.randint(0, 40),
             rng.choice(ext32), rng.choice(ext32)]
        add("extreme", caps, g, triples)
    # mid-range random
    for _ in range(n_mid):
        caps = [rng.randint(0, 3000) for _ in range(9)] + [rng.randint(0, 10 ** 7), rng.randint(0, 10 ** 7)]
        f = rng.randint(0, 60)
        triples = [(rng.randint(0, 3000), rng.randint(0, 3000), rng.randint(0, 3000)) for _ in range(f)]
        g = [rng.randint(0, 3000) for _ in range(6)]
        add("mid", caps, g, triples)
    return lines, kinds


def run_fn_stream(env, lines, release=False):
    text = "\n".join(lines) + "\n"
    name = "fn_%d" % int(release)
    inp = os.path.join(env.work, name + ".in")
    open(inp, "w").write(text)
    oi, om = os.path.join(env.work, name + ".impl"), os.path.join(env.work, name + ".model")
    rc1, o1 = common.sh([common.harness_bin(release), "limits", "fn", inp, oi], timeout=1500)
    rc2, o2 = nsmodel(["limits", "fn", inp, om], timeout=1500)
    li = open(oi).read().splitlines() if rc1 == 0 and os.path.exists(oi) else None
    lm = open(om).read().splitlines() if rc2 == 0 and os.path.exists(om) else None
    return li, lm, (o1[-400:] if rc1 else "") + (o2[-400:] if rc2 else "")


# ----------------------------------------------------------------------------------------------
# programs: a tiny AST rendered both to NaijaScript source and to the model's shape language

class Prog:
    """Builds source text and the shape string side by side."""

    def __init__(self):
        self.src = []
        self.shape = []
        self.ind = 0

    def line(self, s):
        self.src.append("    " * self.ind + s)

    def tok(self, t):
        self.shape.append(t)

    def text(self):
        return "\n".join(self.src) + "\n"

    def shape_text(self):
        return " ".join(self.shape)


class RandomProgram:
    """Closed numeric programs: every variable is a number, functions use only their parameters
    and their own locals (no captures), loops count up to a small bound, calls go to functions
    that are already complete (no recursion)."""

    def __init__(self, rng, max_stmts, max_depth):
        self.rng = rng
        self.p = Prog()
        self.uid = 0
        self.budget = max_stmts
        self.max_depth = max_depth
        self.kinds = {}

    def fresh(self, prefix):
        self.uid += 1
        return "%s%d" % (prefix, self.uid)

    def note(self, k):
        self.kinds[k] = self.kinds.get(k, 0) + 1

    def expr(self, vars_, fns, want_calls=None):
        """Returns (text, number of direct user calls)."""
        rng = self.rng
        terms = []
        calls = 0
        for _ in range(rng.randint(1, 3)):
            r = rng.random()
            if fns and (r < 0.3 or (want_calls and calls == 0)):
                name, arity = rng.choice(fns)
                args = []
                for _ in range(arity):
                    args.append(rng.choice(vars_) if vars_ and rng.random() < 0.6 else str(rng.randint(0, 9)))
                terms.append("%s(%s)" % (name, ", ".join(args)))
                calls += 1
            elif vars_ and r < 0.75:
                terms.append(rng.choice(vars_))
            else:
                terms.append(str(rng.randint(0, 9)))
        op = rng.choice([" add ", " times ", " minus "])
        return op.join(terms), calls

    def cond(self, vars_, fns):
        a, c1 = self.expr(vars_, fns)
        b, c2 = self.expr(vars_, [])
        return "%s %s %s" % (a, self.rng.choice(["small pass", "pass", "na"]), b), c1 + c2

    def block(self, vars_, fns, in_loop, in_fn, depth, n):
        """Emits up to n statements into the current block.  vars_/fns are copied: declarations
        made here are visible to the following statements of this block only."""
        rng = self.rng
        p = self.p
        vars_ = list(vars_)
        fns = list(fns)
        emitted = 0
        while emitted < n and self.budget > 0:
            self.budget -= 1
            emitted += 1
            r = rng.random()
            deep = depth < self.max_depth
            if r < 0.22:
                v = self.fresh("v")
                e, c = self.expr(vars_, fns)
                p.line("make %s get %s" % (v, e))
                p.tok("d%d" % c)
                vars_.append(v)
                self.note("decl")
            elif r < 0.40:
                e, c = self.expr(vars_, fns)
                assignable = [v for v in vars_ if not v.startswith("i")]
                if assignable and rng.random() < 0.5:
                    p.line("%s get %s" % (rng.choice(assignable), e))
                else:
                    p.line("shout(%s)" % e)
                p.tok("s%d" % c)
                self.note("simple")
            elif r < 0.47 and in_fn:
                e, c = self.expr(vars_, fns)
                p.line("return %s" % e)
                p.tok("r%d" % c)
                self.note("return")
            elif r < 0.52 and in_loop:
                if rng.random() < 0.5:
                    p.line("comot")
                    p.tok("b")
                else:
                    p.line("next")
                    p.tok("c")
                self.note("break/continue")
            elif r < 0.60 and deep:
                p.line("start")
                p.tok("B(")
                p.ind += 1
                self.block(vars_, fns, in_loop, in_fn, depth + 1, rng.randint(0, 4))
                p.ind -= 1
                p.line("end")
                p.tok(")")
                self.note("block")
            elif r < 0.75 and deep:
                ctext, c = self.cond(vars_, fns)
                has_else = rng.random() < 0.5
                p.line("if to say (%s) start" % ctext)
                p.tok(("E%d(" if has_else else "I%d(") % c)
                p.ind += 1
                self.block(vars_, fns, in_loop, in_fn, depth + 1, rng.randint(0, 4))
                p.ind -= 1
                p.line("end")
                if has_else:
                    p.tok("/")
                    p.line("if not so start")
                    p.ind += 1
                    self.block(vars_, fns, in_loop, in_fn, depth + 1, rng.randint(0, 4))
                    p.ind -= 1
                    p.line("end")
                p.tok(")")
                self.note("if")
            elif r < 0.86 and deep:
                i = self.fresh("i")
                p.line("make %s get 0" % i)
                p.tok("d0")
                bound = rng.randint(0, 3)
                p.line("jasi (%s small pass %d) start" % (i, bound))
                p.tok("L0(")
                p.ind += 1
                p.line("%s get %s add 1" % (i, i))
                p.tok("s0")
                self.block(vars_ + [i], fns, True, in_fn, depth + 1, rng.randint(0, 4))
                p.ind -= 1
                p.line("end")
                p.tok(")")
                vars_.append(i)
                self.budget -= 2
                self.note("loop")
            elif deep:
                f = self.fresh("f")
                arity = rng.randint(0, 3)
                params = [self.fresh("p") for _ in range(arity)]
                p.line("do %s(%s) start" % (f, ", ".join(params)))
                p.tok("F%d(" % arity)
                p.ind += 1
                # a function sees only its parameters (no captures) and the functions completed so far
                self.block(params, fns, False, True, depth + 1, rng.randint(0, 5))
                e, c = self.expr(params, fns)
                p.line("return %s" % e)
                p.tok("r%d" % c)
                p.ind -= 1
                p.line("end")
                p.tok(")")
                fns.append((f, arity))
                self.budget -= 1
                self.note("function")
            else:
                e, c = self.expr(vars_, fns)
                p.line("shout(%s)" % e)
                p.tok("s%d" % c)
                self.note("simple")
        return vars_, fns

    def build(self):
        n = self.budget
        vars_, fns = self.block([], [], False, False, 0, n)
        e, c = self.expr(vars_, fns, want_calls=True)
        self.p.line("shout(%s)" % e)
        self.p.tok("s%d" % c)
        return self.p


# --- sized families ---------------------------------------------------------------------------

# Scoping- and pruning-sensitive prelude shared by every sized family.  Its printed lines are
# known to the generator and must be the same just below, at and above every limit:
#   * `show` reads the outer `x` while its caller `caller` declares an `x` of its own
#     (lexical scoping: prints 10, never 99);
#   * `bump` writes the captured `x`; it is only called from the initialiser of an unused
#     declaration (must not be pruned away: prints 11);
#   * a dead store, an unreachable statement, a never-called function, an unused variable
#     (warnings + removable statements, no effect on the output);
#   * arrays are values: writing through the copy does not change the original.
PRELUDE_SRC = [
    "make x get 10",
    "make dead get 5",                       # unused: warning + removable statement
    "do show() start",
    "    shout(x)",
    "end",
    "do caller() start",
    "    make x get 99",
    "    show()",
    "    return x",
    "end",
    "do bump() start",
    "    x get x add 1",
    "    return 0",
    "end",
    "do helper(a) start",
    "    return a add 1",
    "    shout(\"unreachable\")",            # unreachable: warning + removable statement
    "end",
    "do never() start",                      # never called: warning + removable definition
    "    shout(\"never\")",
    "end",
    "do steps(items) start",                 # loop-carried pure copy: needs the liveness fixpoint to converge
    "    make prev get \"start\"",
    "    jasi (items.len() pass 0) start",
    "        make cur get items.pop()",
    "        shout(\"{prev} -> {cur}\")",
    "        prev get cur",
    "    end",
    "    return prev",
    "end",
    "make keep get 1",
    "keep get helper(keep)",
    "shout(keep)",                           # 2
    "shout(caller())",                       # 10 (from show), then 99
    "make unused get bump()",
    "shout(x)",                              # 11
    "x get 5",                               # dead store
    "x get 6",
    "shout(x)",                              # 6
    "make arr get [1, 2, 3]",
    "make copy get arr",
    "copy[0] get 7",
    "shout(arr[0])",                         # 1
    "shout(copy[0])",                        # 7
    "if to say (keep pass 0) start",         # a branch of the script body reading an earlier variable
    "    shout(keep)",                       # 2
    "end",
    "shout(steps([30, 20, 10]))",            # start -> 10, 10 -> 20, 20 -> 30, 30
]
PRELUDE_SHAPE = ("d0 d0 F0( s0 ) F0( d0 s1 r0 ) F0( s0 r0 ) F1( r0 s0 ) F0( s0 ) F1( d0 L0( d0 s0 s0 ) r0 ) "
                 "d0 s1 s0 s1 d1 s0 s0 s0 s0 d0 d0 s0 s0 s0 I0( s0 ) s1")
PRELUDE_OUT = ["2", "10", "99", "11", "6", "1", "7", "2", "start -> 10", "10 -> 20", "20 -> 30", "30"]


def rep(n, body):
    return "*%d( %s )" % (n, body) if n > 0 else ""


class _NoSrc(list):
    """Drops everything appended: used when only the shape of a family member is wanted."""

    def append(self, x):
        pass

    def __iadd__(self, other):
        return self


def family(name, n, want_src=True):
    """Returns (source, shape, expected output lines).  `n` is the size parameter."""
    src = list(PRELUDE_SRC) if want_src else _NoSrc()
    shape = [PRELUDE_SHAPE]
    keep = 2
    out = list(PRELUDE_OUT)
    if name == "functions":
        for i in range(n):
            src.append("do f%d() start" % i)
            src.append("end")
        shape.append(rep(n, "F0( )"))
    elif name == "statements":
        src += ["keep get keep add 1"] * n
        shape.append(rep(n, "s0"))
        keep += n
    elif name == "scopes":
        for _ in range(n):
            src.append("start")
            src.append("end")
        shape.append(rep(n, "B( )"))
    elif name == "blocks_in_fn":
        for _ in range(n):
            src.append("jasi (keep small pass 0) start")
            src.append("end")
        shape.append(rep(n, "L0( )"))
    elif name == "liveness":
        for i in range(n):
            src.append("make v%d get %d" % (i, i))
        shape.append(rep(n, "d0"))
    elif name == "liveness_chain":
        for i in range(n):
            src.append("make c%d get %s" % (i, ("c%d" % (i - 1)) if i else "1"))
        shape.append(rep(n, "d0"))
        if n:
            src.append("if to say (c%d pass 0) start" % (n - 1))
            src.append("    shout(c%d)" % (n - 1))
            src.append("end")
            shape.append("I0( s0 )")
            out.append("1")
    elif name == "locals":
        nf = 60                      # few functions: the summary bound F*(F+2L+2) stays below its cap
        k, r = divmod(n, nf)
        for i in range(nf):
            kk = k + (1 if i < r else 0)
            src.append("do g%d(%s) start" % (i, ", ".join("p%d" % j for j in range(kk))))
            src.append("end")
            shape.append("F%d( )" % kk)
    elif name == "calls":
        per = 16
        q, r = divmod(n, per)

        def stmt(c):
            e = "keep"
            for _ in range(c):
                e = "helper(%s)" % e
            return "    keep get %s" % e
        src.append("if to say (keep small pass 0) start")      # never taken: the calls are only resolved
        if want_src:
            src += [stmt(per)] * q
        if r:
            src.append(stmt(r))
        src.append("end")
        shape.append("I0( %s %s )" % (rep(q, "s%d" % per), ("s%d" % r) if r else ""))
    elif name == "wide":
        for i in range(n):
            src.append("do w%d(a, b, c, d, e, f, g, h) start" % i)
            src.append("end")
        shape.append(rep(n, "F8( )"))
    elif name == "summary":
        return family("functions", n, want_src)
    else:
        raise ValueError(name)
    src.append("shout(keep add 1)")
    shape.append("s0")
    out.append(str(keep + 1))
    return "\n".join(src) + "\n", " ".join(x for x in shape if x), out


def stmt_tokens(shape):
    return sum(1 for t in shape.split() if t not in (")", "/"))


def callgraph(kind, n, against=False):
    """A program far below every limit: the prelude, a probe (`z get 1` is a dead store around a
    call into the padding), then `n` padding functions whose call graph has the given shape.
    Padding functions are numbered with the call direction (callee index above the caller's)
    or against it.  Returns (source, shape, expected output, number of non-padding statements,
    number of non-padding functions)."""
    def name(i):
        return "pad%d" % ((n - 1 - i) if against else i)
    edges = {i: [] for i in range(n)}
    if kind == "ring":
        for i in range(n):
            edges[i] = [(i + 1) % n] if n > 1 else []
    elif kind == "chain":
        for i in range(n - 1):
            edges[i] = [i + 1]
    elif kind == "hub_out":
        edges[0] = list(range(1, n))
    elif kind == "hub_in":
        for i in range(1, n):
            edges[i] = [0]
        edges[0] = [1] if n > 1 else []
    elif kind == "bipartite":
        a = n // 2
        for i in range(a):
            edges[i] = list(range(a, n))
        for j in range(a, n):
            edges[j] = list(range(a))
    elif kind == "nested_rings":
        m = max(2, int(round(n ** 0.5)))
        for i in range(n):
            r, k = divmod(i, m)
            last = min(n, (r + 1) * m) - 1
            nxt = i + 1 if i < last else r * m
            edges[i] = [nxt] if nxt != i else []
            if k == 0:
                other = ((r + 1) * m) % n if (r + 1) * m < n else 0
                if other != i and other not in edges[i]:
                    edges[i].append(other)
    else:
        raise ValueError(kind)
    src = list(PRELUDE_SRC)
    shape = [PRELUDE_SHAPE]
    out = list(PRELUDE_OUT)
    src += ["make z get 0", "z get 1", "%s(2)" % name(0), "z get 2", "shout(z)", "shout(keep add 1)"]
    shape.append("d0 s0 s1 s0 s0 s0")
    out += ["2", "3"]
    own_stmts = (stmt_tokens(" ".join(shape)), len("\n".join(src)) + 1)      # statement ids / source offsets below these are "own"
    own_fns = sum(1 for t in " ".join(shape).split() if t.startswith("F"))
    order = range(n - 1, -1, -1) if against else range(n)       # definitions in name order
    for i in order:
        src.append("do %s(n) start" % name(i))
        if edges[i]:
            src.append("    if to say (n pass 0) start")
            for j in edges[i]:
                src.append("        %s(n minus 1)" % name(j))
            src.append("    end")
            shape.append("F1( I0( %s ) r0 )" % " ".join(["s1"] * len(edges[i])))
        else:
            shape.append("F1( r0 )")
        src.append("    return n")
        src.append("end")
    return "\n".join(src) + "\n", " ".join(shape), out, own_stmts, own_fns


def own_analysis(r, own_stmts, own_fns):
    """The part of the analysis result that belongs to the prelude and the probe."""
    n_stmts, cut = own_stmts
    _, _, ana = split_diags(r)
    warn = sorted([k, st] for k, st in ana if st < cut)       # the resolver's own analysis warnings, by source offset
    pl = r.get("plan") or {}
    return {"warnings": warn, "removable_stmts": [x for x in pl.get("rs_low", []) if x < n_stmts],
            "removable_fns": [x for x in pl.get("rf_low", []) if x <= own_fns]}


def summary_accounting_diffs(r):
    """Exact-budget probes (harness flag `sumx`): events charged must equal rows inserted."""
    x = ((r.get("full") or {}).get("summ") or {}).get("x")
    if not x:
        return []
    d = []
    if x["unavail_inf"]:
        d.append("summaries unavailable with an unlimited budget")
    if x["unavail_ub"]:
        d.append("a budget of %d events (rows inserted %d + class steps %d) does not suffice: %d summaries unavailable"
                 % (x["ins"] + x["cls_dist"], x["ins"], x["cls_dist"], x["unavail_ub"]))
    if x["unavail_est"]:
        d.append("the preflight estimate F*(F+2L+2) = %d does not suffice as a budget: %d summaries unavailable" % (x["est"], x["unavail_est"]))
    if x["unavail_lb1"] == 0:
        d.append("a budget of %d events suffices although %d rows are inserted and %d classes change (charging is not per insertion)"
                 % (x["ins"] + x["cls_changed"] - 1, x["ins"], x["cls_changed"]))
    return d


# (kind, size quick, size thorough, numbered against the call direction?)
CALLGRAPHS = [
    ("ring", 340, 420, False), ("ring", 600, 900, True),
    ("chain", 700, 1000, False), ("chain", 700, 1000, True),
    ("hub_out", 900, 1000, False), ("hub_in", 900, 1000, False), ("hub_in", 900, 1000, True),
    ("bipartite", 100, 160, False), ("bipartite", 100, 160, True),
    ("nested_rings", 289, 400, False), ("nested_rings", 400, 625, True),
]
CALLGRAPH_SMALL = [3, 17, 50]


# target metric, family, search range, tier
FAMILIES = [
    ("summary_events", "functions", 0, 40000, "quick"),
    ("liveness_events", "liveness", 0, 200000, "quick"),
    ("liveness_events", "liveness_chain", 0, 200000, "quick"),
    ("blocks_in_one_function", "blocks_in_fn", 0, 200000, "quick"),
    ("locals", "locals", 0, 600000, "quick"),
    ("statements", "statements", 0, 600000, "quick"),
    ("functions", "functions", 0, 80000, "quick"),
    ("scopes", "scopes", 0, 600000, "quick"),
    ("direct_user_calls", "calls", 0, 600000, "thorough"),
]


def model_shapes(env, name, items):
    """items: list of (id, shape[, gate fields]) -> {id: (S line, G line or None)}"""
    inp = os.path.join(env.work, name + ".shape.in")
    out = os.path.join(env.work, name + ".shape.out")
    with open(inp, "w") as f:
        for it in items:
            f.write("S %s | %s\n" % (it[0], " | ".join(it[1:])))
    rc, o = nsmodel(["limits", "shape", inp, out], timeout=1500)
    if rc != 0 or not os.path.exists(out):
        raise RuntimeError("nsmodel limits shape failed: " + o[-600:])
    res = {}
    for l in open(out).read().splitlines():
        w = l.split(None, 2)
        if l.startswith("S "):
            res[w[1]] = [w[2], None]
        elif l.startswith("G ") and w[1] in res:
            res[w[1]][1] = w[2]
    return res


def parse_model_S(s):
    """'F=.. L=.. ... pf=b,o,l;.. -> verdict' -> (dict counts, pf list, verdict tuple or None)"""
    left, verdict = s.rsplit(" -> ", 1)
    d = {}
    for kv in left.split():
        k, v = kv.split("=", 1)
        d[k] = v
    pf = [tuple(int(x) for x in t.split(",")) for t in d.pop("pf").split(";") if t]
    c = dict((k, int(v)) for k, v in d.items())
    v = None
    if verdict != "none":
        m, o, l = verdict.split()
        v = (m, int(o), int(l))
    return c, pf, v


def threshold(env, target, fam, lo, hi):
    """Smallest n in (lo, hi] for which the model reports a limit at or before `target` in the
    staged order; bisection, every probe one model run."""
    ti = METRICS.index(target)

    def q(n):
        _, shape, _ = family(fam, n, want_src=False)
        s = model_shapes(env, "thr", [("0", shape)])["0"][0]
        _, _, v = parse_model_S(s)
        return v is not None and METRICS.index(v[0]) <= ti, v
    ok_hi, v_hi = q(hi)
    if not ok_hi:
        return None, v_hi
    while hi - lo > 1:
        mid = (lo + hi) // 2
        if q(mid)[0]:
            hi = mid
        else:
            lo = mid
    return hi, q(hi)[1]


# --- running programs on the implementation ------------------------------------------------------

def run_progs(env, name, progs, release=False, arena_mib=256, timeout=600, single_timeout=60, flags=""):
    """progs: list of (id, source).  Batch run; on a crash the remaining programs are run one by one.
    Returns {id: dict | {'crash': text}}."""
    d = os.path.join(env.work, name)
    os.makedirs(d, exist_ok=True)
    lst = os.path.join(d, "list")
    paths = {}
    with open(lst, "w") as f:
        for pid, src in progs:
            pth = os.path.join(d, "%s.ns" % pid)
            open(pth, "w").write(src)
            paths[pid] = pth
            f.write("%s %s\n" % (pid, pth))
    out = os.path.join(d, "out.jsonl")
    rc, o = common.sh("%s limits progs %s %s %d %s > /dev/null" % (common.harness_bin(release), lst, out, arena_mib, flags), timeout=timeout)
    res = {}
    if os.path.exists(out):
        for l in open(out).read().splitlines():
            try:
                j = json.loads(l)
                res[j["id"]] = j["r"]
            except ValueError:
                pass
    for pid, _ in progs:
        if pid not in res:
            o1 = os.path.join(d, "%s.json" % pid)
            rc1, t1 = common.sh("%s limits prog %s %s %d %s > /dev/null" % (common.harness_bin(release), paths[pid], o1, arena_mib, flags), timeout=single_timeout)
            if rc1 == 0 and os.path.exists(o1):
                res[pid] = json.load(open(o1))
            elif rc1 == 124:
                res[pid] = {"timeout": single_timeout}       # inconclusive, never a violation
            else:
                res[pid] = {"crash": "exit %s: %s" % (rc1, t1[-400:])}
    return res


def run_one_prog(env, pid, src, release=False, arena_mib=256, timeout=1800, flags=""):
    d = os.path.join(env.work, "sized")
    os.makedirs(d, exist_ok=True)
    pth = os.path.join(d, "%s.ns" % pid)
    open(pth, "w").write(src)
    o1 = os.path.join(d, "%s.json" % pid)
    if os.path.exists(o1):
        os.remove(o1)
    rc1, t1 = common.sh("%s limits prog %s %s %d %s > /dev/null" % (common.harness_bin(release), pth, o1, arena_mib, flags), timeout=timeout)
    if rc1 == 0 and os.path.exists(o1):
        return json.load(open(o1))
    return {"crash": "exit %s: %s" % (rc1, t1[-400:])}


# --- the property oracle, evaluated on the implementation alone ----------------------------------

def split_diags(r):
    """(earlier, resource-limit, analysis) diagnostics of the resolver in emission order."""
    earlier, res, ana = [], [], []
    for sev, code, msg, start, label in r.get("diags", []):
        if code == "analysis":
            res.append((sev, msg, label))
        elif sev == "warning" and code == "semantic" and msg in ANALYSIS_MESSAGES:
            ana.append((ANALYSIS_MESSAGES[msg], start))
        else:
            earlier.append((sev, code, msg, start))
    return earlier, res, ana


def oracle(r, expected_out=None):
    """Violations of C18 visible in one implementation run (no model involved)."""
    bad = []
    if "timeout" in r:
        return []
    if "crash" in r:
        return ["implementation crashed: " + r["crash"]]
    if r.get("parse_errors"):
        return ["generated program does not parse: %s" % r.get("parse_diags")]
    if "resolve_panic" in r:
        return ["resolver panicked: " + r["resolve_panic"]]
    earlier, res, ana = split_diags(r)
    n_err = sum(1 for e in earlier if e[0] == "error")
    if r["accepted"] != (n_err == 0):
        bad.append("accepted=%s with %d error diagnostics" % (r["accepted"], n_err))
    lim = r["limit"]
    if lim is not None:
        if len(res) != 1:
            bad.append("over limit %s: %d resource-limit diagnostics" % (lim, len(res)))
        else:
            sev, msg, label = res[0]
            if sev != "warning":
                bad.append("resource-limit diagnostic has severity %s" % sev)
            want = "for %s (observed %d, limit %d)" % (lim[0], lim[1], lim[2])
            if want not in label:
                bad.append("resource-limit warning %r does not name %s" % (label, want))
        if ana:
            bad.append("over limit but %d analysis warnings emitted" % len(ana))
        if r["plan"] is not None:
            bad.append("over limit but a plan is present")
    else:
        if res:
            bad.append("no limit exceeded but resource-limit diagnostic emitted: %s" % (res,))
        if r["plan"] is None:
            bad.append("no limit exceeded but no plan")
        full = r.get("full")
        if full is not None and r["plan"] is not None:
            if (r["plan"]["rs"], r["plan"]["rf"], r["plan"]["h"]) != (full["plan"]["rs"], full["plan"]["rf"], full["plan"]["h"]):
                bad.append("below the limits the resolver's plan %s differs from the recomputed plan %s" % (r["plan"], full["plan"]))
            want = sorted(((sid, i), k, st) for i, (k, sid, st) in enumerate(full["warn"]))
            want = [(k, st) for _, k, st in want]
            if want != ana:
                bad.append("below the limits the emitted analysis warnings differ from the recomputed ones (%d vs %d)" % (len(ana), len(want)))
        un = ((full or {}).get("summ") or {}).get("unavail", 0)
        if un:
            bad.append("below every limit, yet %d function summaries became unavailable (the run-time summary budget ran out "
                       "without a resource-limit warning)" % un)
    if "full_panic" in r:
        bad.append("analyses panicked when run without the gate: " + r["full_panic"])
    if r["accepted"]:
        a, b = r.get("run_plan"), r.get("run_none")
        if not a or not b:
            bad.append("accepted program was not run")
        else:
            for nm, x in (("with the resolver's plan", a), ("without a plan", b)):
                if x["end"] != "ok":
                    bad.append("run %s ended with %s" % (nm, x["end"]))
            if (a["end"], a["n"], a["h"]) != (b["end"], b["n"], b["h"]):
                bad.append("output with the resolver's plan differs from output without a plan: %s vs %s" % (a, b))
            c = r.get("run_full")
            if c and (c["end"], c["n"], c["h"]) != (b["end"], b["n"], b["h"]):
                bad.append("output with the plan recomputed without the gate differs from the unoptimised output: %s vs %s" % (c, b))
            if expected_out is not None:
                got = b["head"] + b["tail"]
                if b["n"] != len(expected_out) or got[:len(expected_out)] != expected_out:
                    bad.append("unoptimised output %s (n=%d) differs from the expected %s" % (got, b["n"], expected_out))
    return bad


# --- correspondence with the model --------------------------------------------------------------

def gate_fields(r):
    """The model's gate inputs taken from the implementation: the earlier diagnostics and what the
    analyses compute when called through the public API."""
    earlier, _, _ = split_diags(r)
    e = " ".join(("e" if x[0] == "error" else "w" if x[0] == "warning" else "n") + str(i) for i, x in enumerate(earlier))
    full = r.get("full") or {"warn": [], "plan": {"rs_head": [], "rf_head": []}}
    by = {"U": [], "A": [], "V": [], "F": []}
    for k, sid, _ in full["warn"]:
        by[k].append(str(sid))
    return [e, ",".join(by["U"]), ",".join(by["A"]), ",".join(by["V"]), ",".join(by["F"]),
            ",".join(map(str, full["plan"]["rs_head"])), ",".join(map(str, full["plan"]["rf_head"]))]


def compare_with_model(r, s_line, g_line):
    """Differences between the implementation's observations and the model's."""
    diffs = []
    mc, mpf, mv = parse_model_S(s_line)
    c = r["counts"]
    ic = {"F": c["F"], "L": c["L"], "S": c["S"], "N": c["N"], "C": c["C"], "tops": c["tops"], "tblocks": c["tblocks"]}
    if ic != mc:
        diffs.append("counts: impl %s model %s" % (ic, mc))
    ipf = [tuple(x[1:]) for x in c["pf"]]
    if ipf != mpf:
        k = next((i for i, (a, b) in enumerate(zip(ipf, mpf)) if a != b), min(len(ipf), len(mpf)))
        diffs.append("per-function counts differ at function %d: impl %s model %s" % (
            k, c["pf"][k] if k < len(ipf) else None, mpf[k] if k < len(mpf) else None))
    iv = None if r["limit"] is None else (r["limit"][0].replace(" ", "_"), r["limit"][1], r["limit"][2])
    if iv != mv:
        diffs.append("first exceeded limit: impl %s model %s" % (iv, mv))
    if g_line is not None:
        m = re.match(r"accepted=(\w+) diags=(.*) plan=(none|some rs=\S* rf=\S*) pruned=(\d+)$", g_line)
        if not m:
            diffs.append("unparsable model gate line: " + g_line[:200])
            return diffs
        earlier, res, ana = split_diags(r)
        if (m.group(1) == "true") != r["accepted"]:
            diffs.append("accepted: impl %s model %s" % (r["accepted"], m.group(1)))
        # model diagnostics after the earlier ones
        md = m.group(2).split()[len(earlier):]
        full = r.get("full")
        span_of = {}
        if full:
            for k, sid, st in full["warn"]:
                span_of[(k, sid)] = st
        idiags = ["R:" + ":".join([x[2].split(" for ", 1)[1].split(" (")[0].replace(" ", "_")] + re.findall(r"\d+", x[2].split(" (", 1)[1])) for x in res]
        idiags += ["%s@%d" % (k, st) for k, st in ana]
        mdiags = []
        for x in md:
            if x.startswith("R:"):
                mdiags.append(x)
            else:
                mdiags.append("%s@%s" % (x[0], span_of.get((x[0], int(x[1:])), "?")))
        if idiags != mdiags:
            diffs.append("gate diagnostics: impl %s model %s" % (idiags[:6], mdiags[:6]))
        if (r["plan"] is None) != (m.group(3) == "none"):
            diffs.append("plan presence: impl %s model %s" % (r["plan"] is not None, m.group(3)))
        elif r["plan"] is not None:
            want = "some rs=%s rf=%s" % (",".join(map(str, r["plan"]["rs_head"])), ",".join(map(str, r["plan"]["rf_head"])))
            if want != m.group(3):
                diffs.append("plan: impl %s model %s" % (want, m.group(3)))
    return diffs


# ----------------------------------------------------------------------------------------------

def correspond(env, searching=False, model=True):
    rng = env.rng
    failures, disagreements, samples = [], [], []
    extra = {}
    evaluations = 0
    nontrivial = set()
    release_too = env.tier == "thorough"
    if release_too:
        ok, out = common.build_harness(release=True)
        if not ok:
            raise RuntimeError("release harness build failed: " + out[-2000:])
    info = model_info(env) if model else {"caps": impl_caps()}
    caps0 = info["caps"]
    icaps = impl_caps()
    extra["default_caps"] = dict(zip(["max_functions", "max_locals", "max_scopes", "max_statements", "max_total_ops",
                                      "max_ops_per_function", "max_total_blocks", "max_blocks_per_function",
                                      "max_direct_user_calls", "max_summary_events", "max_liveness_events"], icaps))
    extra["default_caps_equal_model_snapshot"] = (icaps == SNAPSHOT)
    if icaps != caps0:
        disagreements.append({"stream": "default-caps", "impl": icaps, "model": caps0})

    # ---- stream A -----------------------------------------------------------------------------
    lines, kinds = gen_fn_cases(rng, caps0, env.tier, searching)
    extra["fn_case_kinds"] = kinds
    profiles = [False] + ([True] if release_too else [])
    verdict_hist = {}
    for release in profiles:
        li, lm, err = run_fn_stream(env, lines, release)
        if li is None:
            # find the crashing case
            for l in lines:
                a, _, e = run_fn_stream(env, [l], release)
                if a is None:
                    failures.append({"key": "fn-crash:" + common.chash(l.split("|", 1)[1]), "case": {"kind": "fn", "line": l, "release": release},
                                     "observed": "first_exceeded_limit crashed: " + e[-300:]})
                    break
            continue
        if lm is None and model:
            disagreements.append({"stream": "first_exceeded_limit", "error": "model run failed: " + err})
            continue
        for idx, a in enumerate(li):
            evaluations += 1
            b = lm[idx] if lm and idx < len(lm) else None
            verdict = a.split(" -> ", 1)[1]
            if verdict.startswith("panic"):
                failures.append({"key": "fn-panic:" + common.chash(lines[idx].split("|", 1)[1]),
                                 "case": {"kind": "fn", "line": lines[idx], "release": release}, "observed": a})
                continue
            if model and a != b and len(disagreements) < 5:
                disagreements.append({"stream": "first_exceeded_limit", "case": {"kind": "fn", "line": lines[idx][:400], "release": release},
                                      "impl": a, "model": b})
            m = verdict.split()[0]
            verdict_hist[m] = verdict_hist.get(m, 0) + 1
            if m != "none":
                nontrivial.add(common.chash(lines[idx].split("|", 1)[1]))
            if len(samples) < 2 and m != "none" and len(lines[idx]) < 160:
                samples.append({"case": lines[idx], "impl": a})
    extra["fn_verdicts"] = verdict_hist

    # ---- stream B -----------------------------------------------------------------------------
    n_shapes = 1500 if env.tier == "quick" else 40000
    if searching:
        n_shapes *= 3
    progs = []
    kinds_b = {}
    for i in range(n_shapes):
        g = RandomProgram(rng, rng.choice([6, 12, 25, 50, 120]), rng.choice([2, 3, 5, 7]))
        p = g.build()
        progs.append(("b%d" % i, p.text(), p.shape_text()))
        for k, v in g.kinds.items():
            kinds_b[k] = kinds_b.get(k, 0) + v
    extra["shape_statement_kinds"] = kinds_b
    stats_b = {"accepted": 0, "with_plan_nonempty": 0, "prunable_and_printed": 0}
    for release in profiles:
        shard = 500
        for s0 in range(0, len(progs), shard):
            part = progs[s0:s0 + shard]
            res = run_progs(env, "shapes%d_%d" % (int(release), s0), [(pid, src) for pid, src, _ in part], release, flags="sumx")
            items = []
            for pid, src, shape in part:
                r = res[pid]
                if "counts" in r:
                    items.append((pid, shape) + tuple(gate_fields(r)))
            mres = model_shapes(env, "shapes%d_%d" % (int(release), s0), items) if (model and items) else {}
            for pid, src, shape in part:
                r = res[pid]
                evaluations += 1
                bad = oracle(r)
                if bad:
                    failures.append({"key": "shape:" + common.chash(src), "case": {"kind": "prog", "source": src, "shape": shape, "release": release},
                                     "observed": "; ".join(bad)[:1500]})
                    continue
                if r.get("accepted"):
                    stats_b["accepted"] += 1
                    pl = r.get("plan")
                    if pl and (pl["rs"] or pl["rf"]):
                        stats_b["with_plan_nonempty"] += 1
                        if r["run_none"]["n"] > 0:
                            stats_b["prunable_and_printed"] += 1
                            nontrivial.add(common.chash(shape))
                if model and pid in mres:
                    diffs = compare_with_model(r, mres[pid][0], mres[pid][1])
                    if diffs and len(disagreements) < 5:
                        disagreements.append({"stream": "counts-and-gate", "case": {"kind": "prog", "source": src, "shape": shape, "release": release},
                                              "differences": diffs[:4]})
                acc = summary_accounting_diffs(r)
                if acc and len(disagreements) < 8:
                    disagreements.append({"stream": "summary-accounting", "case": {"kind": "prog", "source": src, "shape": shape, "release": release},
                                          "differences": acc[:3]})
                if len(samples) < 3 and len(src) < 300 and r.get("accepted") and r.get("plan") and r["plan"]["rs"]:
                    samples.append({"source": src, "shape": shape, "counts": {k: v for k, v in r["counts"].items() if k != "pf"},
                                    "plan": r["plan"], "output": r["run_none"]["head"]})
    extra["shape_stats"] = stats_b

    # ---- stream C -----------------------------------------------------------------------------
    sized = []
    thr_report = {}
    if model:
        for target, fam, lo, hi, tier in FAMILIES:
            if tier == "thorough" and env.tier != "thorough":
                thr_report[target] = "skipped in the quick tier (family %s)" % fam
                continue
            t, v = threshold(env, target, fam, lo, hi)
            if t is None or v is None or v[0] != target:
                thr_report[target] = "not reachable with family %s up to n=%d (model verdict there: %s)" % (fam, hi, v)
                continue
            thr_report[target] = {"family": fam, "threshold_n": t, "model_verdict_at_threshold": list(v)}
            thr_report[target + ":" + fam] = thr_report[target]
            below = [t - 1]
            if target in ("liveness_events", "summary_events") and t >= 2:
                # every size whose estimate is within one sweep of the script body below the limit
                # (2 * blocks * locals of function 0, from the model's counts), at most 12 sizes
                _, shp, _ = family(fam, t - 1, want_src=False)
                _, pf1, _ = parse_model_S(model_shapes(env, "win", [("0", shp)])["0"][0])
                est1 = sum((2 * b + o) * l for b, o, l in pf1)
                sweep0 = 2 * pf1[0][0] * pf1[0][2]
                marginal = max(1, v[1] - est1) if target == "liveness_events" else max(1, v[1] - v[2])
                k_max = min(12, sweep0 // marginal + 2) if target == "liveness_events" else 3
                below = [t - k for k in range(k_max, 0, -1) if t - k >= 0]
                thr_report[target + ":" + fam] = dict(thr_report[target], sizes_below=below)
            for n in below + [t, t + 1]:
                if n >= 0:
                    sized.append((target, fam, n))
    # fixed probes: functions and locals both close to their caps (the summary bound is then far
    # above 2^32 resp. just below it); whatever the model says is the expected verdict
    if icaps[0] <= 40000 and icaps[1] <= 600000 and icaps[1] >= 8 * icaps[0] - 64:
        for n in (int(icaps[0] * 0.9), icaps[0] - 8):
            sized.append(("summary_events", "wide", n))
    extra["effective_thresholds"] = thr_report
    extra["unreachable_under_default_caps"] = (
        "cfg_ops and ops_in_one_function are shadowed by statements (C18_ops_stages_shadowed; caps %d <= %d <= %d); "
        "cfg_blocks needs more blocks than max_scopes/max_statements admit (2 blocks per statement at best) and has no family"
        % (icaps[3], icaps[4], icaps[5]))

    def do_sized(job):
        (target, fam, n), release = job
        src, shape, expect = family(fam, n)
        pid = "%s_%s_%d_%d" % (target, fam, n, int(release))
        r = run_one_prog(env, pid, src, release)
        return job, shape, expect, r
    jobs = [(s, rel) for s in sized for rel in profiles]
    sized_rows = []
    with concurrent.futures.ThreadPoolExecutor(max_workers=6) as ex:
        results = list(ex.map(do_sized, jobs))
    items = []
    for ((target, fam, n), release), shape, expect, r in results:
        if "counts" in r:
            items.append(("%s_%d_%d" % (fam, n, int(release)), shape) + tuple(gate_fields(r)))
    mres = model_shapes(env, "sized", items) if (model and items) else {}
    for ((target, fam, n), release), shape, expect, r in results:
        evaluations += 1
        bad = oracle(r, expect)
        row = {"target": target, "family": fam, "n": n, "release": release,
               "limit": r.get("limit"), "plan": (r.get("plan") or {}).get("rs") if r.get("plan") else None,
               "t_ms": r.get("t")}
        sized_rows.append(row)
        if bad:
            failures.append({"key": "sized:%s:%s:%d" % (target, fam, n), "case": {"kind": "family", "family": fam, "n": n, "release": release},
                             "observed": "; ".join(bad)[:1500]})
            continue
        pl = r.get("full", {}).get("plan") if r.get("full") else None
        if pl and (pl["rs"] or pl["rf"]) and r["run_none"]["n"] > 0:
            nontrivial.add("sized:%s:%d" % (fam, n))
        key = "%s_%d_%d" % (fam, n, int(release))
        if model and key in mres:
            diffs = compare_with_model(r, mres[key][0], mres[key][1])
            if diffs and len(disagreements) < 8:
                disagreements.append({"stream": "sized-programs", "case": {"kind": "family", "family": fam, "n": n, "release": release},
                                      "differences": diffs[:4]})
    extra["sized_runs"] = sized_rows
    if sized_rows:
        s = sized_rows[0]
        samples.append({"sized": s})

    # ---- stream D: call-graph shapes far below every limit ----------------------------------
    cg_rows = []
    small_jobs = []
    for kind in sorted(set(k for k, _, _, _ in CALLGRAPHS)):
        for against in (False, True):
            for n in CALLGRAPH_SMALL:
                small_jobs.append((kind, n, against))
    small = {}
    progs_d = []
    for kind, n, against in small_jobs:
        src, shape, expect, own_s, own_f = callgraph(kind, n, against)
        pid = "cg_%s_%d_%d" % (kind, n, int(against))
        small[pid] = (kind, n, against, src, shape, expect, own_s, own_f)
        progs_d.append((pid, src))
    baselines = {}
    for release in profiles:
        res = run_progs(env, "callgraphs%d" % int(release), progs_d, release, flags="sumx")
        items = [(pid, small[pid][4]) + tuple(gate_fields(res[pid])) for pid, _ in progs_d if "counts" in res[pid]]
        mres = model_shapes(env, "callgraphs%d" % int(release), items) if (model and items) else {}
        for pid, _ in progs_d:
            kind, n, against, src, shape, expect, own_s, own_f = small[pid]
            r = res[pid]
            evaluations += 1
            case = {"kind": "callgraph", "shape_kind": kind, "n": n, "against": against, "release": release}
            bad = oracle(r, expect)
            if bad:
                failures.append({"key": "callgraph:%s:%d:%d" % (kind, n, int(against)), "case": case, "observed": "; ".join(bad)[:1500]})
                continue
            nontrivial.add("callgraph:%s:%d:%d" % (kind, n, int(against)))
            own = own_analysis(r, own_s, own_f)
            base = baselines.setdefault(release, own)
            if own != base:
                failures.append({"key": "callgraph-dependence:%s:%d:%d" % (kind, n, int(against)), "case": case,
                                 "observed": "the analysis result for the prelude and the probe depends on the unrelated padding: %s, with other padding %s"
                                             % (json.dumps(own)[:500], json.dumps(base)[:500])})
                continue
            if model and pid in mres:
                diffs = compare_with_model(r, mres[pid][0], mres[pid][1])
                if diffs and len(disagreements) < 8:
                    disagreements.append({"stream": "callgraph-counts-and-gate", "case": case, "differences": diffs[:4]})
            acc = summary_accounting_diffs(r)
            if acc and len(disagreements) < 8:
                disagreements.append({"stream": "summary-accounting", "case": case, "differences": acc[:3]})

    def do_cg(job):
        (kind, n, against), release = job
        src, shape, expect, own_s, own_f = callgraph(kind, n, against)
        # the strongly connected shapes are expensive (the fixpoint is quartic in the ring size):
        # run the analyses once (in the resolver), not a second time through the public API
        r = run_one_prog(env, "cgbig_%s_%d_%d_%d" % (kind, n, int(against), int(release)), src, release,
                         flags="nofull" if kind in ("ring", "nested_rings") else "")
        return job, shape, expect, own_s, own_f, r
    big_jobs = [((kind, (nq if env.tier == "quick" else nt), against), rel) for kind, nq, nt, against in CALLGRAPHS for rel in profiles]
    with concurrent.futures.ThreadPoolExecutor(max_workers=6) as ex:
        big = list(ex.map(do_cg, big_jobs))
    items = [("%s_%d_%d_%d" % (k, n, int(a), int(rel)), shape) + tuple(gate_fields(r)) for ((k, n, a), rel), shape, _, _, _, r in big if "counts" in r]
    mres = model_shapes(env, "callgraphs_big", items) if (model and items) else {}
    for ((kind, n, against), release), shape, expect, own_s, own_f, r in big:
        evaluations += 1
        case = {"kind": "callgraph", "shape_kind": kind, "n": n, "against": against, "release": release}
        cg_rows.append({"shape": kind, "n": n, "against": against, "release": release, "limit": r.get("limit"), "t_ms": r.get("t"),
                        "summary_estimate": (r.get("counts") or {}).get("F", 0) * ((r.get("counts") or {}).get("F", 0) + 2 * (r.get("counts") or {}).get("L", 0) + 2)})
        bad = oracle(r, expect)
        if not bad and r.get("limit") is not None:
            bad = ["a call-graph shape meant to be far below every limit is over %s" % (r["limit"],)]
        if bad:
            failures.append({"key": "callgraph:%s:%d:%d" % (kind, n, int(against)), "case": case, "observed": "; ".join(bad)[:1500]})
            continue
        own = own_analysis(r, own_s, own_f)
        base = baselines.get(release)
        if base is not None and own != base:
            failures.append({"key": "callgraph-dependence:%s:%d:%d" % (kind, n, int(against)), "case": case,
                             "observed": "the analysis result for the prelude and the probe depends on the unrelated padding: %s, with small padding %s"
                                         % (json.dumps(own)[:500], json.dumps(base)[:500])})
            continue
        nontrivial.add("callgraph:%s:%d:%d" % (kind, n, int(against)))
        key = "%s_%d_%d_%d" % (kind, n, int(against), int(release))
        if model and key in mres:
            # without the recomputed analyses only the counts and the verdict can be compared
            diffs = compare_with_model(r, mres[key][0], mres[key][1] if r.get("full") else None)
            if diffs and len(disagreements) < 8:
                disagreements.append({"stream": "callgraph-counts-and-gate", "case": case, "differences": diffs[:4]})
    extra["callgraph_runs"] = cg_rows
    extra["callgraph_baseline"] = baselines.get(False)

    return {
        "evaluations": evaluations,
        "distinct_nontrivial": len(nontrivial),
        "rule": "A: count vectors x caps (small caps, default caps at cap-1/cap/cap+1 per counter, u32/u64 extremes) through the real "
                "first_exceeded_limit vs the extracted model; non-trivial = distinct vector on which a limit is reported. "
                "B: random closed programs (all statement kinds, nested functions): real fact tables + count_program vs counts_of_program, "
                "real gate vs emit_analysis_warnings, oracle on the implementation; non-trivial = distinct shape that is accepted, has a "
                "non-empty plan and prints something. C: per reachable limit a family sized at T-1/T/T+1 with T found by bisection on the "
                "model (for the derived bounds every size within one script sweep below T); full pipeline, three plan configurations, "
                "expected output; non-trivial = has prunable statements and output. D: call-graph shapes (ring, chain, hubs, complete "
                "bipartite, nested rings; numbered with and against the call direction) far below every limit: all summaries available, "
                "the analysis result for the prelude + probe independent of the padding, exact-budget probes of the summary fixpoint "
                "(events charged = rows inserted) on the small ones and on every program of B.",
        "samples": samples,
        "failures": failures,
        "disagreements": disagreements,
        "extra": extra,
    }


def replay(env, payload):
    common.refresh_tables()
    common.build_nsmodel()
    case = payload.get("case") or {}
    inner = case.get("case") or (payload.get("disagreements") or [{}])[0].get("case") or {}
    kind = inner.get("kind")
    release = bool(inner.get("release"))
    if release:
        common.build_harness(release=True)
    if kind == "fn":
        li, lm, err = run_fn_stream(env, [inner["line"]], release)
        print("impl:  %s\nmodel: %s" % (li, lm))
        bad = li is None or li != lm or "panic" in (li or [""])[0]
        print("replay: %s" % ("still failing" if bad else "passes now"))
        return 1 if bad else 0
    if kind == "callgraph":
        src, shape, expect, own_s, own_f = callgraph(inner["shape_kind"], inner["n"], inner["against"])
        r = run_one_prog(env, "replay", src, release, flags="sumx" if inner["n"] <= 120 else "")
        bad = oracle(r, expect)
        bsrc, _, bexp, bs, bf = callgraph("ring", 3, False)
        rb = run_one_prog(env, "replay_base", bsrc, release)
        if not bad and "counts" in rb and own_analysis(r, own_s, own_f) != own_analysis(rb, bs, bf):
            bad = ["analysis result for the prelude depends on the padding: %s vs %s" % (own_analysis(r, own_s, own_f), own_analysis(rb, bs, bf))]
        acc = summary_accounting_diffs(r)
        print("oracle: %s\nsummary accounting: %s" % (bad or "ok", acc or "ok"))
        print("replay: %s" % ("still failing" if (bad or acc) else "passes now"))
        return 1 if (bad or acc) else 0
    if kind in ("prog", "family"):
        if kind == "family":
            src, shape, expect = family(inner["family"], inner["n"])
        else:
            src, shape, expect = inner["source"], inner["shape"], None
        r = run_one_prog(env, "replay", src, release)
        bad = oracle(r, expect)
        diffs = []
        if "counts" in r:
            m = model_shapes(env, "replay", [("0", shape) + tuple(gate_fields(r))])["0"]
            diffs = compare_with_model(r, m[0], m[1])
        print("oracle: %s\nmodel differences: %s" % (bad or "ok", diffs or "none"))
        if kind == "prog":
            print(src)
        print("replay: %s" % ("still failing" if (bad or diffs) else "passes now"))
        return 1 if (bad or diffs) else 0
    print("replay: no concrete case in this file (obligations: %s)" % payload.get("no_longer_checks"))
    return 1
