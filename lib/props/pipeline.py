"""PIPELINE — the end-to-end model (coq/theories/Pipeline.v) tied to the real pipeline on SOURCE TEXT.

Not a property of properties.jsonl: the composition of the per-property models
  Lexer.lex -> Parser.parse_program -> Parser.to_lang NumParse.to_number -> StaticRules.check
  -> Spec.run_spec (run_source)  /  LexResolve.lex_ids -> Lang.run_impl None (run_source_impl)
whose theorems (coq/Properties/PIPELINE.v) are cited by C01 (impl = spec end to end), C07
(front_total), C10 (layout_invariant_end_to_end) and C06 (accepted_never_panics_end_to_end).
`bin/check PIPELINE` re-checks those proofs and runs the correspondence below; other checks can
run it as an extra stream (EXTRA_STREAM_MODULES = ["pipeline"]).

Correspondence.  Every input is a SOURCE TEXT handed to both sides:
  * implementation: `nsverif lang <in> <out> nn` = Lexer -> Parser -> Resolver ->
    Runtime::run_with_analysis without plan and without frame arena (diagnostics with phase /
    severity / code / message / span / first label, acceptance, resolved AST, printed values,
    ending);
  * model: `nsmodel pipeline` = the extracted Pipeline.front / run_source / run_source_impl, which
    lex and parse the text themselves (the implementation's `ast` line is only passed along to be
    COMPARED with the model's own tree, never evaluated).
Compared per case, each disagreement attributed to the earliest phase that explains it:
  lexer    reported lexical diagnostics (message, span), incl. the lazy-lexing cut-off
  parser   syntax diagnostics (message, span, first label), the named AST (implementation's tree
           with ids erased = Parser.to_lang of the model's tree)
  number   the same, when the trees differ only in number literals (str::parse::<f64> vs
           NumParse.to_number); every Number token of the model lexer has the shape digits[.digits]
           (the hypothesis of PIPELINE_number_literal_parses)
  static   acceptance and the multiset of error messages of the resolver vs StaticRules.check
  resolve  Pipeline.ids (LexResolve.lex_ids) succeeds on every accepted program, its result is
           `lexical` and binds like the real resolver (same_binding_structure)
  runtime  printed values and ending of configuration nn vs run_source_impl (Lang.run_impl None)
  spec     the same vs run_source (Spec.run_spec) whenever the reference run is comparable
  theorem  run_source comparable => run_source_impl equal (instance of impl_equals_spec_end_to_end)
  cli      the REAL `naija <file>` binary (cmd.rs run_source, plan + frame arena): exit status 0 iff
           the model accepts and its run ends normally, failure otherwise; stdout contains what
           Lang.display says `shout` wrote; a rejected text shows the model's first diagnostic
Inputs: langgen programs (size-capped: the extracted lexer is quadratic on byte lists),
token-level mutants and single-rule injections (rejections in every phase), re-layouts and
redundant-parenthesis variants produced by `nsverif layout` from the real token spans, a fixed
corpus (which phase stops the pipeline, lazy lexing, number-literal shapes, keyword look-ahead,
templates, scoping / closures, runtime endings), one program per static rule / typing-table cell
(STATIC_LINES) and per built-in edge call (BUILTIN_LINES), the dynamic typing matrix (every operator /
condition / index / method on every kind of value through parameters), the
```naijascript snippets of
/repo/docs and /repo/examples.  Model runs are sharded and watched (a case on which the byte-list
model needs more than the watchdog allows is counted inconclusive, never as agreement).

ORACLE: none of its own (this check is a tie between the assembled model and the code); the only
`failures` it reports are re-layouts on which the IMPLEMENTATION's observable behaviour differs from
the base text (C10's oracle, evaluated here because the re-layouts are produced anyway)."""
import os
import re
import time

import common
import langgen
import langrun

TRUSTED_EXTRA = [
    "PIPELINE: coq/theories/Pipeline.v assembles Lexer.v, Parser.v, NumParse.v, StaticRules.v, LexResolve.v, Spec.v, Lang.v "
    "(each tied to the code by its own property's correspondence) in the order of src/bin/naija/cmd.rs run_source; the assembly "
    "itself (which diagnostics stop the pipeline, lazy lexing, merged diagnostic order) is tied by this check on source text",
    "PIPELINE: harness/src/lang.rs (diagnostic and AST dump, configuration nn) and coq/extract/mode_pipeline.ml (hex decoding, "
    "AST reader/printer, value printer) are trusted glue",
    "PIPELINE: the real resolver's ids are compared with LexResolve.lex_ids up to a bijection (same_binding_structure); the plan / "
    "analysis is not part of this model (C03)",
]
ASSUMPTIONS = [
    "source text is valid UTF-8 (a &str in the implementation) and ends with a line break (the case format of `nsverif lang`)",
    "runs are compared up to resource exhaustion: model fuel / unsupported built-ins (read_line, command) and implementation "
    "Stack overflow / timeout are counted inconclusive, never as agreement",
    "the implementation side is configuration nn (no plan, no frame arena); plan and frame arena are C03 / C02",
    "static-rule diagnostics are compared as multisets of messages (StaticRules reports rule + path, the resolver message + span)",
]
COQ_TIMEOUT = 2400
KEY_PREFIX = "pipeline-"
FUEL = 60000
SKIP_MODEL = ("fuel", "unsupported")
SKIP_IMPL = ("err:Stack_overflow", "timeout")
PHASES = ("front", "lexer", "parser", "number", "static", "resolve", "runtime", "spec", "theorem", "cli")

TOKEN_RE = re.compile(
    r'\s+|#[^\n\r]*|"(?:\\.|[^"\\\n\r])*"?|\'(?:\\.|[^\'\\\n\r])*\'?|if\s+to\s+say\b|if\s+not\s+so\b|small\s+pass\b|'
    r'[A-Za-z_][A-Za-z_0-9]*|[0-9]+(?:\.[0-9]+)?|.', re.S)

# ---------------------------------------------------------------------------- inputs

CORPUS = [
    # which phase stops the pipeline; what the lazily driven lexer never sees
    ("ok-small", 'make x get 2 add 3 times 4\ndo f(a) start return a minus 1 end\nshout(f(x))\nshout("v={x}")\n'),
    ("static-undeclared", 'shout(y)\n'),
    ("syntax-make", 'make get 1\n'),
    ("lexical-char", 'make x get @1\nshout(x)\n'),
    ("lexical-and-syntax", 'make x get @\nshout(x)\n'),
    ("unlexed-string", 'make x get ) "abc\n'),
    ("unlexed-char", 'make x get ) @ @ @\n'),
    ("unlexed-after-trailing", 'make x get 1 ) "abc\n'),
    ("lexed-before-stop", 'make x @ get ) "abc\n'),
    ("tail-char", 'shout(1) @\n'),
    ("tail-char-2", 'shout(1)\n@'),
    ("only-bad", '@\n'),
    ("nonascii-char", 'make x get é\n'),
    ("nonascii-ident", 'make é get 1\n'),
    ("unterminated", 'make s get "abc\nshout(s)\n'),
    ("unterminated-eof", 'shout("abc'),
    ("bad-escape", 'shout("a\\qb")\nshout("a\\éb")\n'),
    ("bad-dot", 'make x get 1.\nshout(x)\n'),
    ("bad-dot-ident", 'make x get 1.x\n'),
    ("bad-dot-nonascii", 'make x get 1.é\n'),
    ("number-suffix", 'make x get 12abc\nshout(x)\n'),
    ("number-e", 'shout(1e5)\n'),
    ("stray-close", 'start ) end\nshout(1)\n'),
    ("statement-error", 'get 1\nshout(2)\n'),
    ("trailing-tokens", 'shout(1) end shout(2)\n'),
    ("reserved-param", 'do f(make) start end\n'),
    ("invalid-target", 'f() get 1\n'),
    ("member-target", 'make a get [1]\na.len get 2\n'),
    ("empty", ''),
    ("only-comment", '# nothing\n'),
    ("only-ws", ' \t\r\n\x0c\n'),
    # number literal shapes: str::parse::<f64> on the literal text vs NumParse.to_number
    ("num-shapes", 'shout(0)\nshout(007)\nshout(1.50)\nshout(0.1)\nshout(0.30000000000000004)\nshout(3.14159)\n'
                   'shout(123456789012345678901234567890)\nshout(0.000000000000000000000000000001)\n'
                   'shout(9007199254740993)\nshout(9007199254740992.5)\nshout(4.35)\nshout(0.1 add 0.2)\n'
                   'shout(2.2250738585072011)\nshout(179769313486231580793728971405303415079934132710037826936173778980444968292764750946649017977587207096330286416692887910946555547851940402630657488671505820681908902000708383676273854845817711531764475730270069855571366959622842914819860834936475292719074168444365510704342711559699508093042880177904174497791)\n'
                   'shout(1' + '0' * 330 + ')\nshout(0.' + '0' * 340 + '1)\nshout(0.' + '0' * 322 + '49406564584124654)\n'
                   'shout(17976931348623158' + '0' * 292 + ')\nshout(17976931348623159' + '0' * 292 + ')\n'
                   'shout(1.7976931348623157)\nshout(4.9)\nshout(5e)\n'),
    ("num-placeholder", 'make x get\nshout(x)\n'),
    ("num-methods", 'shout(1 .abs())\nshout(2.5.floor())\nshout((3).sqrt())\nshout(10.75.round())\n'),
    # keywords, look-ahead, comments
    ("small-comment-pass", 'make small get 5\nshout(small #c\n pass 3)\n'),
    ("small-pass", 'make small get 5\nshout(small small pass 3)\nshout(small small\n\tpass 3)\n'),
    ("if-ident", 'make if get 2\nshout(if #x\n)\nmake to get 1\nshout(if add to)\n'),
    ("if-comment-to-say", 'if #c\n to say\n'),
    ("keyword-then-digit", 'if to say(1 small pass 2)start shout("yes")end if not so start shout("no")end\n'),
    ("crlf-comments", '# head\r\nmake x get 1 # one\r\nshout(x)\r\n# tail\n'),
    ("cr-only", 'make x get 1\rshout(x)\r# c\rshout(x add 1)\n'),
    ("formfeed", 'make\x0cx\x0cget\x0c1\x0cshout(x)\n'),
    # strings and templates
    ("interp-owned", 'make n get 3\nshout("a{n}")\nshout("a\\t{n}")\nshout(\'{n}\\\'s\')\nshout("{{n}}")\nshout("{ n }{n}")\nshout("{")\nshout("}{")\n'),
    ("interp-undeclared", 'shout("a{zz}")\n'),
    ("strings", 'shout("tab\\there")\nshout("q\\"q")\nshout(\'it\\\'s\')\nshout("back\\\\slash")\nshout("日本 café")\nshout("a\\nb")\n'),
    # static rules (one per rule family)
    ("arity", 'do f(a) start return a end\nshout(f())\n'),
    ("builtin-arity", 'shout()\n'),
    ("dup-fn", 'do f() start end\ndo f() start end\n'),
    ("dup-param", 'do f(a, a) start end\n'),
    ("reserved-name", 'make shout get 1\n'),
    ("comot-outside", 'comot\n'),
    ("next-in-fn-in-loop", 'jasi (true) start do g() start next end comot end\n'),
    ("return-outside", 'return 1\n'),
    ("assign-undeclared", 'x get 1\n'),
    ("unknown-method", 'shout("a".nope())\n'),
    ("method-arity", 'shout("a".slice(1))\n'),
    ("type-mismatch", 'shout(1 add true)\n'),
    ("cond-type", 'if to say (1) start end\n'),
    ("undeclared-fn", 'shout(g(1))\n'),
    ("two-violations", 'shout(y)\nshout(z add 1)\ncomot\n'),
    ("warning-only", 'make unused get 1\ndo f() start return 1 shout(2) end\nshout(f())\n'),
    # scoping, closures, hoisting, shadowing (ids vs names)
    ("shadow", 'make a get 1\nstart make a get a add 1 shout(a) end\nshout(a)\nmake a get a add 10\nshout(a)\n'),
    ("closure", 'do mk(p) start make a get p do bump(d) start a get a add d return a end '
                'if to say (p pass 0) start shout(mk(p minus 1)) end return bump(3) end\nshout(mk(1))\n'),
    ("forward-call", 'shout(g(3))\ndo g(n) start\n  do h(m) start return m times 2 end\n  return h(n) add 1\nend\n'),
    ("mutual", 'do even(n) start if to say (n na 0) start return true end return odd(n minus 1) end\n'
               'do odd(n) start if to say (n na 0) start return false end return even(n minus 1) end\nshout(even(10))\nshout(odd(7))\n'),
    ("early-capture", 'shout(f())\nmake x get 1\ndo f() start return x end\n'),
    ("inner-shadows-fn", 'do g() start return 5 end\ndo f(p) start do g(a) start return a end return g(p) end\nshout(f(2))\nshout(g())\n'),
    # mutation through subscripts, activations, captured arrays (C04 / C05 shapes)
    ("nested-mutation", 'make a get [[1,2],[3,4]]\na[1][0] get 9\na[0].push(5)\nshout(a)\nmake b get [[[1],[2]],[[3],[4]]]\n'
                        'b[1][0].push(7)\nshout(b)\nb[0][1][0] get 8\nshout(b)\nshout(b[0][1].pop())\nshout(b)\nb[1].reverse()\nshout(b)\n'
                        'b[0][1].push(5)\nb[0][1].push(6)\nb[0][1].reverse()\nshout(b)\nshout(b[1][1].push(6))\nshout(b)\n'
                        'make c get b\nc[0][0].push(0)\nshout(b)\nshout(c)\n'
                        'do spread(cells, n) start\n  make i get 0\n  jasi (i small pass n) start\n    cells[0][1].push(i)\n    i get i add 1\n  end\n'
                        '  return cells\nend\nshout(spread(c, 2))\nshout(c)\n'),
    ("captured-array-same-name", 'make a get [[1],[2]]\ndo set_it() start a[0][0] get 9 a[1].push(3) end\n'
                                 'do caller() start make a get [[5],[6]] set_it() shout(a) a[0][0] get 7 shout(a) end\ncaller()\nshout(a)\n'),
    ("activation-locals", 'do rec(n) start\n  make l get [n]\n  if to say (n pass 0) start rec(n minus 1) end\n  l.push(n times 10)\n'
                          '  l[0] get l[0] add 100\n  shout(l)\nend\nrec(2)\n'),
    ("param-array-mutation", 'do grow(xs, k) start\n  xs.push(k)\n  if to say (k pass 0) start grow(xs, k minus 1) end\n  shout(xs)\n  return xs\nend\n'
                             'make base get [9]\nshout(grow(base, 2))\nshout(base)\n'),
    ("closure-counter-array", 'do mk() start\n  make log get []\n  do note(v) start log.push(v) return log.len() end\n  note(1)\n  note(2)\n'
                              '  shout(log)\n  return note(3)\nend\nshout(mk())\nshout(mk())\n'),
    # runtime endings
    ("runtime-error", 'make a get [1]\nshout(a[5])\nshout("after")\n'),
    ("div-zero", 'shout(1 divide 0)\nshout(2)\n'),
    ("dyn-type-error", 'do f(p) start return p minus 1 end\nshout(f(3))\nshout(f("s"))\n'),
    ("invalid-index", 'make a get [1,2]\nshout(a[0.5])\n'),
    ("arrays", 'make a get [[1,2],[3,[4,5]]]\nshout(a[1][1][0])\na[1][1][0] get 9\nshout(a)\na[0].push(7)\nshout(a.len())\nshout(a[0].pop())\n'),
    ("loops", 'make i get 0\njasi (i small pass 10) start\n  i get i add 1\n  if to say (i mod 2 na 0) start next end\n'
              '  if to say (i pass 7) start comot end\n  shout(i)\nend\nshout(i)\n'),
    ("builtins", 'shout(typeof(1))\nshout(to_string([1,"a",null]))\nshout(" 12.5 ".trim().to_number())\n'
                 'shout("AbC".to_lowercase())\nshout("a,b".split(","))\nshout([1,2].join("-"))\nshout("hello".find("l"))\n'),
]


BUILTIN_LINES = [
    'shout(s.slice(minus 2.5, 6))',
    'shout(s.slice(0, minus 0.5))',
    'shout(s.slice(minus 4.2, minus 1.9))',
    'shout(s.slice(1.7, 4.2))',
    'shout(s.slice(4, 2))',
    'shout(s.slice(minus 100, 100))',
    'shout("héllo wörld".slice(1, minus 1))',
    'shout(s.find(""))',
    'shout(s.find("zz"))',
    'shout("aaa".replace("a", ""))',
    'shout("aaa".replace("", "x"))',
    'shout("a,b,,c".split(","))',
    'shout("abc".split(""))',
    'shout("  \\t x y \\t ".trim())',
    'shout("ǅ straße İ".to_uppercase())',
    'shout("ǅ STRASSE İ".to_lowercase())',
    'shout(" 1.5".to_number())',
    'shout("1e3".to_number())',
    'shout("inf".to_number())',
    'shout("-0".to_number())',
    'shout("0x10".to_number())',
    'shout((2.5).round())',
    'shout((minus 2.5).round())',
    'shout((minus 2.5).floor())',
    'shout((minus 2.5).ceil())',
    'shout((minus 0.4).round())',
    'shout((minus 4).sqrt())',
    'shout((minus 7).abs())',
    'shout(7 mod 3)',
    'shout(minus 7 mod 3)',
    'shout(7 mod minus 3)',
    'shout(7.5 mod 2)',
    'shout(1 divide 3)',
    'shout(0.1 add 0.2 na 0.3)',
    'shout("a" small pass "b")',
    'shout("é" pass "z")',
    'shout([1,[2]] na [1,[2]])',
    'shout(null na null)',
    'shout("1" na 1)',
    'shout(to_string(1.0))',
    'shout(to_string(1000000000000000000000))',
    'shout(to_string(0.000001))',
    'shout(typeof(null))',
    'shout(typeof([]))',
    'shout([3,1,2].reverse())',
    'shout([].pop())',
    'shout([1,2,3].join(""))',
    'shout("x" add 1.50)',
    'shout(1 add "x")',
    'shout("n=" add null)',
    'shout("b=" add true)',
    'shout("a=" add [1,"s"])',
]


DYN_VALUES = [("num", "2.5"), ("str", '"ab"'), ("bool", "true"), ("null", "null"), ("arr", "[1, 2]")]
DYN_BINOPS = ["add", "minus", "times", "divide", "mod", "and", "or", "na", "pass", "small pass"]
DYN_METHODS = ["len()", "slice(0, 1)", "to_uppercase()", "to_lowercase()", "find(\"a\")", "replace(\"a\", \"b\")", "trim()",
               "to_number()", "split(\"a\")", "abs()", "sqrt()", "floor()", "ceil()", "round()", "push(1)", "pop()", "reverse()",
               "join(\"-\")", "nope()"]


def dynamic_matrix():
    """every operator / condition / index / method applied to every kind of value through PARAMETERS
    (dynamically typed: the static rules accept, the runtime decides): the type-routing arms of runtime.rs"""
    out = []
    for op in DYN_BINOPS:
        for ka, va in DYN_VALUES:
            for kb, vb in DYN_VALUES:
                out.append(("dyn-%s-%s-%s" % (op.replace(" ", "_"), ka, kb),
                            "do f(a, b) start return a %s b end\nshout(1)\nshout(f(%s, %s))\nshout(2)\n" % (op, va, vb)))
    for ka, va in DYN_VALUES:
        out.append(("dyn-not-%s" % ka, "do f(a) start return not a end\nshout(f(%s))\n" % va))
        out.append(("dyn-neg-%s" % ka, "do f(a) start return minus a end\nshout(f(%s))\n" % va))
        out.append(("dyn-if-%s" % ka, "do f(a) start if to say (a) start return 1 end return 0 end\nshout(f(%s))\n" % va))
        out.append(("dyn-loop-%s" % ka, "do f(a) start jasi (a) start return 1 end return 0 end\nshout(f(%s))\n" % va))
        out.append(("dyn-interp-%s" % ka, 'do f(a) start return "v={a}!" end\nshout(f(%s))\n' % va))
        for kb, vb in DYN_VALUES:
            out.append(("dyn-index-%s-%s" % (ka, kb), "do f(a, i) start return a[i] end\nshout(f(%s, %s))\n" % (va, vb)))
            out.append(("dyn-setindex-%s-%s" % (ka, kb), "do f(a, i) start a[i] get 7 return a end\nshout(f(%s, %s))\n" % (va, vb)))
        for m in DYN_METHODS:
            out.append(("dyn-%s-%s" % (re.sub(r"\W", "", m), ka), "do f(a) start return a.%s end\nshout(f(%s))\n" % (m, va)))
    return out


def hx(text):
    b = text.encode("utf-8")
    return b.hex() if b else "-"


def full_corpus():
    """the fixed corpus plus every static-rule line and every built-in edge call on its own"""
    out = CORPUS + [("static-line-%d" % i, ln + "\n") for i, ln in enumerate(STATIC_LINES)]
    # one built-in call with edge arguments per program (a failing call must not hide the following ones)
    out += [("builtin-line-%d" % i, ('make s get "abcdef"\n' if "s." in ln else "") + ln + "\n") for i, ln in enumerate(BUILTIN_LINES)]
    return out


def unhx(h):
    return "" if h == "-" else bytes.fromhex(h).decode("utf-8")


def norm(src):
    """the text both sides see: `nsverif lang` cases end with a line break"""
    return src if src.endswith("\n") else src + "\n"


def usable(src):
    return "\x01" not in src and "\x00" not in src


def mutate(rng, text):
    """token-level damage; a hand tokeniser is enough, the result is just another source text"""
    toks = TOKEN_RE.findall(text)
    idx = [i for i, t in enumerate(toks) if not t.isspace() and not t.startswith("#")]
    if len(idx) < 3:
        return text + rng.choice(["@", ")", '"', "1."])
    for _ in range(rng.randint(1, 2)):
        i = rng.choice(idx)
        k = rng.random()
        if k < 0.2:
            toks[i] = ""
        elif k < 0.3:
            toks[i] = toks[i] + " " + toks[i]
        elif k < 0.45:
            j = rng.choice(idx)
            toks[i], toks[j] = toks[j], toks[i]
        elif k < 0.7:
            toks[i] = toks[i] + " " + rng.choice(["end", "start", ")", "(", "get", "make", "add", "]", ",", "undeclared_v",
                                                  "return", "comot", "next", "if not so", ".", "[", "do", "jasi", "not", "minus"])
        elif k < 0.85:
            # lexical damage: stray characters, broken literals
            toks[i] = toks[i] + rng.choice([" @", " $ ", " é", '"', " 1.", "1.x", " 9z", ' "\\q"', " ~", " '", "\\"])
        elif k < 0.93:
            # static damage: rename to an undeclared / reserved / other name
            if re.fullmatch(r"[A-Za-z_][A-Za-z_0-9]*", toks[i]):
                toks[i] = rng.choice(["zz_undeclared", "shout", "typeof", "v1", "f1", "p0"])
            else:
                toks[i] = rng.choice(["true", "null", '"s"', "0"])
        else:
            toks[i] = rng.choice(["comot", "next", "return 1", "return"])
    return "".join(toks)


STATIC_LINES = ['shout(zz_undeclared)', 'zz_undeclared get 1', 'comot', 'next', 'return 1', 'shout(zz_fn(1))', 'make shout get 1',
                'do typeof(a) start end', 'shout("s".nope())', 'shout("s".slice(1))', 'shout([1].join())', 'shout(1 add true)',
                'shout(not 1)', 'if to say (1) start end', 'jasi ("s") start comot end', 'shout(typeof())', 'shout(to_string(1, 2))',
                'do zz_d(a, a) start end', 'do zz_e() start end\ndo zz_e() start end', 'shout("a{zz_undeclared}")',
                'make zz_a get [1]\nshout(zz_a["x"])', 'shout(null.len())', 'make zz_n get 1\nzz_n.push(2)',
                # method argument counts on a receiver whose type is only known at run time
                'do zz_f(p) start return p.slice() end', 'do zz_f(p) start return p.len(1) end', 'do zz_f(p) start return p.push() end',
                'do zz_f(p) start return p.find() end', 'do zz_f(p) start return p.replace("a") end', 'do zz_f(p) start return p.join() end',
                'do zz_f(p) start return p.nope(1, 2) end\nshout(1)', 'do zz_f(p) start return p.slice(1, 2, 3) end',
                'do zz_f(p) start return p[0].slice() end', 'do zz_f(p) start p.push(1, 2) end',
                # ... and on a receiver expression that has no inferable type at all (a call of a call result)
                'do zz_g() start return [1] end\nzz_g()().push()', 'do zz_g() start return "s" end\nshout(zz_g()().slice(1))',
                'do zz_g() start return [1] end\nshout(zz_g()().len())',
                # a method of another family on a receiver of every statically known type
                'make zz_h get null\nshout(zz_h.to_uppercase())', 'make zz_b get true\nshout(zz_b.len())',
                'make zz_k get 1\nshout(zz_k.len())', 'make zz_s get "s"\nshout(zz_s.sqrt())', 'make zz_r get [1]\nshout(zz_r.trim())',
                'shout(true.abs())', 'shout((1).trim())', 'shout("s".push(1))', 'shout([1].to_uppercase())',
                # operand typing of every operator family
                'shout("a" minus 1)', 'shout(true times 2)', 'shout(null divide 1)', 'shout([1] mod 2)', 'shout(minus "s")',
                'shout(1 and true)', 'shout("a" or false)', 'shout(1 na "a")', 'shout(true pass 1)', 'shout([1] small pass [2])',
                'make zz_i get [1]\nshout(zz_i[true])', 'make zz_j get 1\nshout(zz_j[0])', 'make zz_j get 1\nzz_j[0] get 2']


def inject_static(rng, text):
    """one statement that breaks exactly one static rule, at top level: before or after the program, or
    a call of one of the program's own functions with one argument too many"""
    fns = re.findall(r"(?m)^do (\w+)\(([^)]*)\)", text)
    if fns and rng.random() < 0.3:
        f, ps = rng.choice(fns)
        n = len([x for x in ps.split(",") if x.strip()])
        line = "shout(%s(%s))" % (f, ", ".join(["1"] * (n + 1)))
    else:
        line = rng.choice(STATIC_LINES)
    return (line + "\n" + text) if rng.random() < 0.4 else (text if text.endswith("\n") else text + "\n") + line + "\n"


def docs_and_examples():
    out = []
    repo = common.REPO
    ex = os.path.join(repo, "examples")
    if os.path.isdir(ex):
        for fn in sorted(os.listdir(ex)):
            if fn.endswith(".ns"):
                out.append(("ex-" + fn[:-3], open(os.path.join(ex, fn), encoding="utf-8").read()))
    docs = os.path.join(repo, "docs")
    files = [os.path.join(docs, fn) for fn in sorted(os.listdir(docs)) if fn.endswith(".md")] if os.path.isdir(docs) else []
    rd = os.path.join(repo, "README.md")
    if os.path.exists(rd):
        files.append(rd)
    for p in files:
        txt = open(p, encoding="utf-8").read()
        for i, m in enumerate(re.finditer(r"```naijascript\n(.*?)```", txt, re.S)):
            out.append(("doc-%s-%d" % (os.path.basename(p)[:-3].lower(), i), m.group(1)))
    return out


def has_io(src):
    return re.search(r"\b(read_line|command)\b", src) is not None


def gen_program(rng, cap):
    mixes = [langgen.Opts(max_stmts=8, max_depth=2), langgen.Opts(max_stmts=10, p_fn=0.3, p_recursion=0.5, p_forward_call=0.5),
             langgen.Opts(max_stmts=8, name_pool=["a", "b", "c"], p_shadow=0.6, p_fn=0.25, p_capture_write=0.7),
             langgen.Opts(max_stmts=6, max_depth=3, p_trap=0.12), langgen.Opts(max_stmts=12, max_depth=2, alias_heavy=True)]
    o = rng.choice(mixes)
    src = None
    for _ in range(12):
        src, _ = langgen.generate(rng, o)
        if len(src.encode("utf-8")) <= cap:
            return src
        o.max_stmts = max(3, o.max_stmts - 2)
    # still too long: keep whole top-level lines up to the cap (may cut a block: then it is a syntax-error input)
    out, n = [], 0
    for ln in src.split("\n"):
        if n + len(ln) + 1 > cap:
            break
        out.append(ln)
        n += len(ln) + 1
    return "\n".join(out) + "\n"


def relayouts(env, bases, k, timeout):
    """`nsverif layout` re-renders each base text k ways from the REAL token spans and wraps random
    sub-expressions in redundant parentheses; returns ([(id, text)], [oracle failures])."""
    inp = os.path.join(env.work, "relayout.in")
    outp = os.path.join(env.work, "relayout.out")
    with open(inp, "w") as f:
        for i, (cid, src) in enumerate(bases):
            f.write("P %s %d %d %s\n" % (cid, env.rng.randrange(1 << 30), k, hx(src)))
    if os.path.exists(outp):
        os.remove(outp)
    rc, out = common.sh([common.harness_bin(False), "layout", "--limit-ms", "20000", inp, outp], timeout=timeout)
    res, fails = [], []
    cur = None
    base_of = dict(bases)
    if not os.path.exists(outp):
        return res, fails, "nsverif layout rc=%s %s" % (rc, out[-300:])
    for l in open(outp, encoding="utf-8", errors="replace"):
        p = l.split()
        if not p:
            continue
        if p[0] == "CASE":
            cur = p[2] if len(p) > 2 else None
        elif p[0] == "L" and cur and len(p) >= 4:
            try:
                res.append(("%s~L%s" % (cur, p[1]), unhx(p[3])))
            except (ValueError, UnicodeDecodeError):
                pass
        elif p[0] == "XT" and cur and len(p) >= 4:
            try:
                res.append(("%s~X%s" % (cur, p[1]), unhx(p[3])))
            except (ValueError, UnicodeDecodeError):
                pass
        elif p[0] in ("O", "X") and cur and len(p) >= 4 and "DIFF" in p[2:4]:
            k2 = p.index("DIFF")
            fails.append({"key": KEY_PREFIX + "relayout-differs:%s" % (p[k2 + 1] if len(p) > k2 + 1 else "?"),
                          "case": {"base_id": cur, "source": base_of.get(cur, "")[:4000], "variant": p[1]},
                          "observed": " ".join(p[:8])[:600]})
    return res, fails, ("" if rc == 0 else "nsverif layout rc=%s" % rc)


# ---------------------------------------------------------------------------- running both sides

def parse_model(lines):
    recs = {}
    cur = None
    for l in lines:
        if l.startswith("case "):
            cur = {"id": l[5:].strip(), "front": None, "ldiag": [], "sdiag": [], "viol": [], "accepted": None, "phase": None,
                   "asteq": None, "resolved": None, "lexical": None, "bindeq": None, "nec": None, "runs": {}, "nast": None,
                   "iast": None, "complete": False, "info": None}
            recs[cur["id"]] = cur
        elif cur is None:
            continue
        elif l.startswith("front "):
            cur["front"] = l[6:].strip()
        elif l.startswith("tokens "):
            cur["info"] = l.strip()
        elif l.startswith("numlit "):
            cur["numlit"] = l[7:].strip()
        elif l.startswith("ldiag "):
            p = l.split()
            cur["ldiag"].append((p[1].replace("_", " "), int(p[2]), int(p[3])))
        elif l.startswith("sdiag "):
            p = l.split()
            cur["sdiag"].append((p[1].replace("_", " "), int(p[2]), int(p[3]), p[4]))
        elif l.startswith("viol "):
            p = l.split()
            cur["viol"].append((p[1], unhx(p[2]), p[3] if len(p) > 3 else ""))
        elif l.startswith("accepted "):
            cur["accepted"] = l[9:].strip() == "1"
        elif l.startswith("phase "):
            cur["phase"] = l[6:].strip()
        elif l.startswith("nast"):
            cur["nast"] = l[4:].strip()
        elif l.startswith("iast"):
            cur["iast"] = l[4:].strip()
        elif l.startswith("asteq "):
            cur["asteq"] = l[6:].strip()
        elif l.startswith("resolved "):
            cur["resolved"] = l[9:].strip()
        elif l.startswith("lexical "):
            cur["lexical"] = l[8:].strip()
        elif l.startswith("bindeq "):
            cur["bindeq"] = l[7:].strip()
        elif l.startswith("nec "):
            cur["nec"] = l[4:].strip()
        elif l.startswith("run "):
            _, tag, rest = l.split(" ", 2)
            ending, _, vals = rest.partition(" |")
            cur["runs"][tag] = (ending.strip(), vals.strip())
        elif l.startswith("out "):
            cur["out"] = l[4:].strip()
        elif l.startswith("end "):
            cur["complete"] = True
    return recs


def run_model(env, name, cases, impl_recs, timeout, jobs=4, low_fuel=()):
    """cases: [(id, normalised source)].  Sharded over `jobs` processes (the extracted lexer is slow).
    Cases in `low_fuel` (front-end-only snippets: console / process built-ins, the stack-overflow
    example) are evaluated with a small fuel: their runs are never compared.
    A watchdog kills a shard whose output has not grown for `stall` seconds (the model works on byte
    lists: a generated program that doubles a string in a nested loop can take minutes), records the
    case it was working on as `model timeout` (inconclusive) and restarts the shard behind it."""
    import subprocess
    stall = 45 if getattr(env, "tier", "quick") == "quick" else 300
    shards = [[] for _ in range(max(1, jobs))]
    # the fixed corpus goes through run_source / run_source_impl THEMSELVES (NSPIPE_DIRECT); for the
    # other cases the glue calls Pipeline.front once and applies spec_of_front / impl_of_front to it
    # (run_source = spec_of_front o front by definition) -- three times fewer runs of the quadratic lexer
    direct = [c for c in cases if c[0].startswith("c-") and "~" not in c[0]]
    rest = [c for c in cases if not (c[0].startswith("c-") and "~" not in c[0])]
    # longest first, round robin: balanced shards
    order = sorted(range(len(rest)), key=lambda i: -len(rest[i][1]))
    for n, i in enumerate(order):
        shards[n % len(shards)].append(rest[i])
    eps = langrun.eps_hex()
    recs = {}
    err = ""
    timed_out = []
    deadline = time.time() + timeout
    counter = [0]

    def start(sh, is_direct):
        counter[0] += 1
        inp = os.path.join(env.work, "%s.%d.min" % (name, counter[0]))
        outp = os.path.join(env.work, "%s.%d.mout" % (name, counter[0]))
        with open(inp, "w") as f:
            for cid, src in sh:
                f.write("case %s %s%s\n" % (cid, hx(src), " 300" if cid in low_fuel else ""))
                r = impl_recs.get(cid)
                if r and r.get("ast"):
                    f.write(r["ast"] + "\n")
        if os.path.exists(outp):
            os.remove(outp)
        penv = dict(os.environ)
        if is_direct:
            penv["NSPIPE_DIRECT"] = "1"
        p = subprocess.Popen([common.NSMODEL, "pipeline", eps, str(FUEL), inp, outp],
                             stdin=subprocess.DEVNULL, stdout=subprocess.DEVNULL, stderr=subprocess.PIPE, env=penv)
        return {"p": p, "cases": sh, "out": outp, "direct": is_direct, "size": -1, "changed": time.time()}

    def collect(job):
        if os.path.exists(job["out"]):
            got = parse_model(open(job["out"], encoding="utf-8", errors="replace").read().splitlines())
            recs.update({k: v for k, v in got.items() if v.get("complete")})

    active = [start(sh, False) for sh in shards if sh]
    if direct:
        active.append(start(direct, True))
    while active:
        time.sleep(0.3)
        now = time.time()
        for job in list(active):
            rc = job["p"].poll()
            size = os.path.getsize(job["out"]) if os.path.exists(job["out"]) else 0
            if size != job["size"]:
                job["size"], job["changed"] = size, now
            if rc is not None:
                collect(job)
                if rc != 0:
                    e = job["p"].stderr.read() if job["p"].stderr else b""
                    err += "nsmodel pipeline rc=%s %s\n" % (rc, (e or b"").decode("utf-8", "replace")[-300:])
                active.remove(job)
            elif now - job["changed"] > stall or now > deadline:
                job["p"].kill()
                job["p"].wait()
                collect(job)
                active.remove(job)
                left = [c for c in job["cases"] if c[0] not in recs]
                if left:
                    timed_out.append(left[0][0])
                    if now <= deadline and len(left) > 1 and len(timed_out) < 40:
                        active.append(start(left[1:], job["direct"]))
                    else:
                        timed_out.extend(c[0] for c in left[1:])
    for cid in timed_out:
        recs[cid] = {"id": cid, "model_timeout": True, "complete": False}
    return recs, err


def impl_diags(rec):
    """-> (lexical [(msg,start,end)], syntax [(msg,start,end,label)], resolve error messages sorted, order_ok)"""
    lex, syn, res = [], [], []
    order_ok = True
    for d in rec["diags"]:
        p = d.split()
        if len(p) < 7:
            continue
        phase, sev, code, msg, a, b, lab = p[0], p[1], p[2], unhx(p[3]), int(p[4]), int(p[5]), p[6]
        if phase == "parse" and code == "lexical":
            if syn:
                order_ok = False
            lex.append((msg, a, b))
        elif phase == "parse":
            syn.append((msg, a, b, lab))
        elif phase == "resolve" and sev == "error":
            res.append(msg)
    return lex, syn, sorted(res), order_ok


def impl_phase(rec):
    lex, syn, res, _ = impl_diags(rec)
    if lex:
        return "lexical"
    if syn:
        return "syntax"
    if res:
        return "static"
    return "-"


def numbers_only_differ(a, b):
    ta, tb = (a or "").split(), (b or "").split()
    if len(ta) != len(tb):
        return False
    diff = [i for i in range(len(ta)) if ta[i] != tb[i]]
    return bool(diff) and all(i > 0 and ta[i - 1] == "N" for i in diff)


def compare_case(ir, mr, ran):
    """-> (status, phase, detail); status in agree | inconclusive | disagree"""
    if mr is not None and mr.get("model_timeout"):
        return "inconclusive", "front", {"what": "model evaluation exceeded the watchdog (byte-list strings / quadratic lexer)"}
    if mr is None or not mr.get("complete"):
        return "disagree", "front", {"what": "no complete model record"}
    if ir is None or ir.get("accepted") is None:
        if ir is not None and ir.get("crash"):
            return "inconclusive", "front", {"what": "implementation front end died", "crash": ir["crash"][:2]}
        return "disagree", "front", {"what": "no implementation record"}
    if mr["front"] != "ok":
        return "disagree", "front", {"what": "model front end did not return on valid UTF-8", "front": mr["front"]}
    if mr.get("numlit") == "0":
        return "disagree", "number", {"what": "a Number token of the model lexer is not digits[.digits] (hypothesis of number_literal_parses)"}
    lex, syn, res, order_ok = impl_diags(ir)
    if not order_ok:
        return "disagree", "lexer", {"what": "implementation lists a lexical diagnostic after a syntax diagnostic"}
    if lex != mr["ldiag"]:
        return "disagree", "lexer", {"what": "reported lexical diagnostics", "impl": lex[:6], "model": mr["ldiag"][:6], "info": mr["info"]}
    if syn != mr["sdiag"]:
        return "disagree", "parser", {"what": "syntax diagnostics", "impl": syn[:6], "model": mr["sdiag"][:6]}
    if ir.get("ast") is not None:
        if mr["asteq"] != "1":
            ph = "number" if numbers_only_differ(mr.get("iast"), mr.get("nast")) else "parser"
            return "disagree", ph, {"what": "named AST", "impl": (mr.get("iast") or "")[:600], "model": (mr.get("nast") or "")[:600],
                                    "asteq": mr["asteq"]}
    if not lex and not syn:
        mv = sorted(v[1] for v in mr["viol"])
        if res != mv:
            return "disagree", "static", {"what": "static-rule diagnostics (multiset of messages)", "impl": res[:8],
                                          "model": [(v[0], v[2]) for v in mr["viol"]][:8]}
    if ir["accepted"] != mr["accepted"]:
        return "disagree", {"lexical": "lexer", "syntax": "parser", "static": "static", "-": "static"}[
            mr["phase"] if not mr["accepted"] else impl_phase(ir)], {"what": "acceptance", "impl": ir["accepted"], "model": mr["accepted"],
                                                                    "impl_phase": impl_phase(ir), "model_phase": mr["phase"]}
    if impl_phase(ir) != mr["phase"]:
        return "disagree", "static", {"what": "rejecting phase", "impl": impl_phase(ir), "model": mr["phase"]}
    if not mr["accepted"]:
        for tag in ("s", "i"):
            if not mr["runs"].get(tag, ("", ""))[0].startswith("rejected:"):
                return "disagree", "front", {"what": "model evaluated a rejected program", "run": mr["runs"].get(tag)}
        return "agree", None, None
    # accepted
    if mr["resolved"] != "1":
        return "disagree", "resolve", {"what": "Pipeline.ids (lex_ids) failed on an accepted program"}
    if mr["lexical"] != "1":
        return "disagree", "resolve", {"what": "lex_ids result is not lexical"}
    if mr["bindeq"] == "0":
        return "disagree", "resolve", {"what": "real resolver's ids bind differently from lex_ids (same_binding_structure false)"}
    es, vs = mr["runs"].get("s", ("missing", ""))
    ei, vi = mr["runs"].get("i", ("missing", ""))
    if es not in ("stuck",) + SKIP_MODEL and (es, vs) != (("panic" if ei.startswith("panic") else ei), vi):
        return "disagree", "theorem", {"what": "run_source comparable but run_source_impl differs", "spec": (es, vs[:300]), "impl_model": (ei, vi[:300])}
    if not ran:
        return "agree", None, None
    if "nn" not in ir["runs"]:
        return "inconclusive", "runtime", {"what": "no implementation run"}
    e, v = ir["runs"]["nn"]
    ce = langrun.ending_class(e)
    if ce in SKIP_IMPL or ce == "crash":
        return "inconclusive", "runtime", {"what": "implementation resource exhaustion / crash", "ending": ce}
    status = "agree"
    cm = "panic" if ei.startswith("panic") else ei
    if cm in SKIP_MODEL:
        status = "inconclusive"
    elif (ce, v) != (cm, vi):
        return "disagree", "runtime", {"what": "configuration nn vs run_source_impl", "impl": (langrun.panic_text(e)[:200], v[:400]), "model": (ei, vi[:400])}
    if es in ("stuck",) + SKIP_MODEL:
        return ("inconclusive" if status == "agree" and es != "stuck" else status), None, None
    if (ce, v) != (es, vs):
        return "disagree", "spec", {"what": "configuration nn vs run_source", "impl": (langrun.panic_text(e)[:200], v[:400]), "model": (es, vs[:400])}
    return status, None, None


def evaluate(env, cases, io_ids=(), jobs=4, timeout=None):
    """cases: [(id, source)] -> (per-case results, impl recs, model recs, notes)"""
    if timeout is None:
        timeout = 300 if env.tier == "quick" else 3000
    cases = [(cid, norm(src)) for cid, src in cases if usable(src)]
    io_ids = set(io_ids)
    run_cases = [c for c in cases if c[0] not in io_ids]
    front_cases = [c for c in cases if c[0] in io_ids]
    t0 = time.time()
    irecs = langrun.run_impl(env, "pipe", run_cases, cfgs=["nn"], timeout=timeout) if run_cases else {}
    if front_cases:
        irecs.update(langrun.run_impl(env, "pipe-front", front_cases, cfgs=["none"], timeout=timeout))
    t1 = time.time()
    mrecs, err = run_model(env, "pipe", cases, irecs, timeout=timeout * 2, jobs=jobs, low_fuel=io_ids)
    env.log("pipeline: implementation %.1fs, model %.1fs (%d cases, %d shards)" % (t1 - t0, time.time() - t1, len(cases), jobs))
    out = []
    for cid, src in cases:
        st, ph, det = compare_case(irecs.get(cid), mrecs.get(cid), cid not in io_ids)
        out.append((cid, src, st, ph, det))
    return out, irecs, mrecs, err


# ---------------------------------------------------------------------------- the shipped binary

def cli_stream(env, cases, mrecs, io_ids):
    """The REAL `naija <file>` (src/bin/naija/cmd.rs run_source: plan + frame arena) on source files,
    against the model's verdict: exit status 0 iff the text is accepted and the run ends normally;
    what `shout` wrote (Lang.display of every printed value + LF) appears in stdout; a rejected text
    exits with failure and shows its first reported diagnostic.  Ties the gate of the shipped binary
    (which diagnostics stop the pipeline) to Pipeline.accepted, and Display to Lang.display."""
    import subprocess
    exe = common.naija_bin()

    def stale():
        if not os.path.exists(exe):
            return True
        t = os.path.getmtime(exe)
        for root, _, files in os.walk(os.path.join(common.REPO, "src")):
            for fn in files:
                if os.path.getmtime(os.path.join(root, fn)) > t:
                    return True
        return os.path.getmtime(os.path.join(common.REPO, "Cargo.toml")) > t

    ok, out = (True, "") if not stale() else common.build_naija()
    if not ok or not os.path.exists(exe):
        return [], {"cli_note": "naija binary not built: %s" % out[-300:]}
    dis, n, skipped = [], 0, 0
    d = os.path.join(env.work, "cli")
    os.makedirs(d, exist_ok=True)
    for cid, src in cases:
        mr = mrecs.get(cid)
        if cid in io_ids or mr is None or mr.get("front") != "ok" or not src.strip():
            skipped += 1
            continue
        path = os.path.join(d, "%d.ns" % n)
        with open(path, "w", encoding="utf-8", newline="") as f:
            f.write(src)
        try:
            p = subprocess.run([exe, path], stdin=subprocess.DEVNULL, stdout=subprocess.PIPE, stderr=subprocess.PIPE, timeout=20)
            rc, so = p.returncode, p.stdout
        except subprocess.TimeoutExpired:
            skipped += 1
            continue
        n += 1
        what = None
        if not mr["accepted"]:
            first = (mr["ldiag"] or mr["sdiag"] or [None])[0]
            msg = first[0] if first else (mr["viol"][0][1] if mr["viol"] else "")
            if rc != 1:
                what = "rejected by the model (%s) but `naija` exit status is %s" % (mr["phase"], rc)
            elif msg and msg.encode("utf-8") not in so:
                what = "first reported diagnostic %r not shown by `naija`" % msg
        else:
            e, _ = mr["runs"].get("i", ("missing", ""))
            exp = bytes.fromhex(mr.get("out", "-").replace("-", "")) if mr.get("out") else b""
            if e in SKIP_MODEL or e.startswith("panic") or rc not in (0, 1):
                skipped += 1          # resource exhaustion / open early-capture finding / native crash: C06, C08
                continue
            if e == "ok" and rc != 0:
                what = "accepted, model run ends normally, `naija` exit status %s" % rc
            elif e.startswith("err:") and rc != 1:
                what = "model run ends with %s, `naija` exit status %s" % (e, rc)
            elif exp not in so:
                what = "printed text differs (Lang.display vs stdout)"
            elif e == "ok" and not so.endswith(exp):
                what = "something was written after the program's own output although the run ended normally"
        if what:
            dis.append({"stream": "pipeline:cli", "key": KEY_PREFIX + "cli", "case": {"id": cid, "source": src[:4000]},
                        "detail": {"what": what, "exit": rc, "stdout": so[:400].decode("utf-8", "replace"), "model_run": mr["runs"].get("i")}})
    return dis, {"cli_cases": n, "cli_skipped": skipped}


# ---------------------------------------------------------------------------- entry points

def correspond(env, searching=False, model=True):
    rng = env.rng
    quick = env.tier == "quick"
    scale = 1 if quick else 12
    if searching:
        scale *= 2
    cap = 3200 if quick else 8000
    n_gen = 190 * scale
    n_mut = 240 * scale
    n_rel_bases = 36 * scale
    cases = []
    origin = {}
    for cid, src in full_corpus():
        cases.append(("c-" + cid, src))
    dyn = dynamic_matrix()
    for cid, src in dyn:
        cases.append(("c-" + cid, src))
    io_ids = set()
    for cid, src in docs_and_examples():
        if len(src.encode("utf-8")) > 4 * cap:
            continue
        cases.append((cid, src))
        if has_io(src) or cid == "ex-stack_overflow":
            io_ids.add(cid)
    gens = []
    for i in range(n_gen):
        src = gen_program(rng, cap)
        gens.append(src)
        cases.append(("g%d" % i, src))
    # whole-grammar programs over a tiny name pool shared by variables, parameters and functions
    # (lib/tinygen.py, made terminating): shadowing, hoisting, redeclaration and name collisions
    # at every level, from SOURCE TEXT through the whole pipeline on both sides
    try:
        import tinygen
        for i in range(50 * scale):
            cases.append(("t%d" % i, tinygen.gen_terminating(rng, max_bytes=cap)))
    except ImportError:
        pass
    for i in range(n_mut):
        base = rng.choice(gens) if rng.random() < 0.8 else rng.choice(CORPUS)[1]
        cases.append(("m%d" % i, inject_static(rng, base) if rng.random() < 0.3 else mutate(rng, base)))
    bases = [("g%d" % i, norm(gens[i])) for i in rng.sample(range(len(gens)), min(n_rel_bases, len(gens)))]
    bases += [("c-" + cid, norm(src)) for cid, src in CORPUS if cid in ("ok-small", "small-pass", "closure", "interp-owned", "loops", "arrays", "num-methods")]
    bases = [(cid, src) for cid, src in bases if len(src) <= cap]
    rel, layout_fails, rel_note = relayouts(env, bases, 2, timeout=240 if quick else 2400)
    for cid, src in rel:
        if usable(src) and len(src.encode("utf-8")) <= 3 * cap:
            cases.append((cid, src))
            origin[cid] = cid.split("~")[0]
    t0 = time.time()
    results, irecs, mrecs, err = evaluate(env, cases, io_ids=io_ids, jobs=6 if quick else 12)
    disagreements, samples = [], []
    by_phase = {p: 0 for p in PHASES}
    counts = {"agree": 0, "inconclusive": 0, "disagree": 0}
    phases_seen = {"lexical": 0, "syntax": 0, "static": 0, "-": 0}
    endings = {}
    seen = set()
    nontrivial = 0
    lazy_cut = 0
    rel_same = 0
    model_timeouts = []
    for cid, src, st, ph, det in results:
        counts[st] += 1
        mr = mrecs.get(cid)
        if mr and mr.get("model_timeout"):
            model_timeouts.append(cid)
            continue
        if mr and mr.get("phase") in phases_seen:
            phases_seen[mr["phase"]] += 1
        if mr and mr.get("info"):
            p = mr["info"].split()
            # tokens N pulled P lexed_all B lexdiags_all D : diagnostics the lazy lexing never reported
            if len(p) >= 8 and int(p[7]) > len(mr["ldiag"]):
                lazy_cut += 1
        if mr and mr["runs"].get("i"):
            e = mr["runs"]["i"][0]
            e = "panic" if e.startswith("panic") else e.split(":")[0] if e.startswith("rejected") else e
            endings[e] = endings.get(e, 0) + 1
        h = common.chash(src)
        if h not in seen:
            seen.add(h)
            if mr and mr.get("front") == "ok" and ((mr["accepted"] and mr["runs"].get("i", ("", ""))[1]) or
                                                   (not mr["accepted"] and (mr["ldiag"] or mr["sdiag"] or mr["viol"]))):
                nontrivial += 1
        if st == "disagree":
            by_phase[ph] = by_phase.get(ph, 0) + 1
            disagreements.append({"stream": "pipeline:%s" % ph, "key": KEY_PREFIX + ph, "case": {"id": cid, "source": src[:6000]}, "detail": det})
        elif len(samples) < 5 and st == "agree" and mr and mr["accepted"] and mr["runs"]["i"][1]:
            samples.append({"id": cid, "source": src[:300], "phase": mr["phase"], "run_source": list(mr["runs"]["s"])[:2],
                            "impl_nn": list(irecs[cid]["runs"].get("nn", ("", "")))[:2]})
    # re-layouts: the MODEL's view of a re-layout equals its view of the base (instance of layout_invariant_end_to_end)
    for cid, base in origin.items():
        a, b = mrecs.get(cid), mrecs.get(base)
        if a and b and a.get("front") == "ok" and b.get("front") == "ok" and "~L" in cid:
            va = (a["nast"], a["accepted"], a["phase"], [x[0] for x in a["sdiag"]], a["viol"], a["runs"].get("s"), a["runs"].get("i"))
            vb = (b["nast"], b["accepted"], b["phase"], [x[0] for x in b["sdiag"]], b["viol"], b["runs"].get("s"), b["runs"].get("i"))
            if va == vb:
                rel_same += 1
            elif not b["ldiag"]:
                by_phase["theorem"] += 1
                disagreements.append({"stream": "pipeline:theorem", "key": KEY_PREFIX + "theorem-layout",
                                      "case": {"id": cid, "source": dict((c[0], c[1]) for c in cases).get(cid, "")[:4000]},
                                      "detail": {"what": "model observation of a re-layout differs from the base text", "base": base}})
    if err:
        disagreements.append({"stream": "pipeline:front", "key": KEY_PREFIX + "model-run", "case": {}, "detail": {"what": err[:600]}})
    # the shipped binary on the fixed corpus, the examples / docs and a sample of the generated programs
    cli_cases = [(cid, norm(src)) for cid, src in cases
                 if usable(src) and (cid.startswith(("c-", "ex-", "doc-")) or (cid[0] in "gm" and "~" not in cid and int(cid[1:]) < 40 * scale))]
    cli_dis, cli_extra = cli_stream(env, cli_cases, mrecs, io_ids)
    by_phase["cli"] = len(cli_dis)
    disagreements += cli_dis
    extra = {"pipeline_counts": counts, "pipeline_disagreements_by_phase": {k: v for k, v in by_phase.items() if v},
             "pipeline_rejecting_phase_histogram": phases_seen, "pipeline_endings": endings,
             "pipeline_lazy_lexing_cut_diagnostics": lazy_cut, "pipeline_relayouts": len(origin),
             "pipeline_relayouts_same_model_observation": rel_same, "pipeline_relayout_note": rel_note,
             "pipeline_io_snippets_front_end_only": len(io_ids), "pipeline_seconds": round(time.time() - t0, 1),
             "pipeline_size_cap_bytes": cap, "pipeline_model_timeouts": model_timeouts[:20]}
    extra.update({"pipeline_" + k: v for k, v in cli_extra.items()})
    env.log("pipeline: %d cases, %s, by phase %s, rejecting phases %s, %.1fs" % (
        len(results), counts, extra["pipeline_disagreements_by_phase"], phases_seen, time.time() - t0))
    return {"evaluations": len(results), "distinct_nontrivial": nontrivial,
            "rule": "distinct source texts (sha256) on which the front end returned and either the program was accepted and printed "
                    "at least one value or it was rejected with at least one diagnostic",
            "samples": samples, "failures": layout_fails, "disagreements": disagreements, "extra": extra}


def replay(env, payload):
    case = payload.get("case") or {}
    if "disagreements" in payload and payload["disagreements"]:
        case = payload["disagreements"][0].get("case") or {}
    src = case.get("source")
    if src is None:
        res = correspond(env)
        return 1 if (res["failures"] or res["disagreements"]) else 0
    if "base_id" in case:
        rel, fails, _ = relayouts(env, [(case["base_id"], src)], 4, timeout=240)
        return 1 if fails else 0
    results, _, _, err = evaluate(env, [("replay", src)], io_ids=(["replay"] if has_io(src) else []), jobs=1)
    for cid, s, st, ph, det in results:
        env.log("replay: %s %s %s" % (st, ph, det))
        if st == "disagree":
            return 1
    return 1 if err else 0
