"""tinygen — a tiny-vocabulary grammar fuzzer for NaijaScript front-end properties.

    src, tree, stats = tinygen.gen(rng, opts=None)        # one program
    text = tinygen.render(tree)                            # tree -> source text

It samples the WHOLE grammar — every statement form x every expression form x every literal
type (numbers, strings, template strings with `{name}` placeholders, booleans, null, arrays),
member calls of every built-in method (and a few unknown ones), index chains, all unary and
binary operators, conditions, nested blocks / loops / functions up to `max_depth` — over a
deliberately tiny pool of identifiers that is shared by variables, parameters AND functions at
every nesting level, so that shadowing, redeclaration, hoisting, use before declaration, arity
and typing interactions happen all the time, in both verdict directions.  Programs are short
(1..max_stmts statements at top level) and are meant for front-end-only runs: loops need not
terminate and nothing has to make sense at run time.

The generator keeps an approximate picture of what is declared with which type (`Env`) only to
BIAS the choices (Opts.p_sane): it is not an oracle.  Every random choice comes from `rng`.

Tree format (plain tuples, first component = kind):
  statements  ("make", x, e|None) ("set", x, e) ("setidx", target_expr, e) ("if", c, [stmts], [stmts]|None)
              ("loop", c, [stmts]) ("block", [stmts]) ("fun", f, [params], [stmts]) ("return", e|None)
              ("break",) ("next",) ("expr", e)
  expressions ("num", text) ("str", text) ("tmpl", [("lit", s) | ("var", x)]) ("bool", b) ("null",)
              ("arr", [e]) ("var", x) ("bin", op, a, b) ("un", op, a) ("idx", a, i) ("member", o, f)
              ("call", callee_expr, [args])
"""

BINOPS = ["add", "minus", "times", "divide", "mod", "and", "or", "na", "pass", "small pass"]
UNOPS = ["not", "minus"]
GLOBALS = {"shout": 1, "typeof": 1, "to_string": 1, "read_line": 1, "command": 1}
METHODS = {
    "string": {"len": 0, "slice": 2, "to_uppercase": 0, "to_lowercase": 0, "find": 1, "replace": 2, "trim": 0,
               "to_number": 0, "split": 1},
    "array": {"len": 0, "push": 1, "pop": 0, "reverse": 0, "join": 1},
    "number": {"abs": 0, "sqrt": 0, "floor": 0, "ceil": 0, "round": 0},
    "command": {"arg": 1, "cwd": 1, "env": 2, "stdin_text": 1, "stdin_inherit": 0, "stdin_null": 0, "stdout_capture": 0,
                "stdout_inherit": 0, "stdout_null": 0, "stderr_capture": 0, "stderr_inherit": 0, "stderr_null": 0,
                "timeout_ms": 1, "run": 0},
    "result": {"success": 0, "exit_code": 0, "stdout": 0, "stderr": 0},
}
ALL_METHODS = sorted(set(m for fam in METHODS.values() for m in fam))
TYPES = ["number", "string", "boolean", "array", "null"]
STMT_KINDS = ["make", "set", "setidx", "if", "loop", "block", "fun", "return", "break", "next", "expr"]


class Opts:
    def __init__(self, **kw):
        self.names = ["a", "b", "f"]          # shared by variables, parameters and functions
        self.odd_names = ["len", "run"]       # built-in METHOD names are legal user names
        self.p_odd_name = 0.06
        self.reserved_names = ["shout", "typeof"]   # built-in FUNCTION names are not: rare, on purpose
        self.p_reserved_name = 0.01
        self.max_stmts = 8
        self.max_block = 3                    # statements of a nested block (shrinks with depth)
        self.p_plan_fn = 0.3                  # a block starts by planning a (hoisted) function
        self.p_hide_fn = 0.12                 # a function redefines a visible function inside its body and returns its result
        self.max_depth = 4                    # nesting of blocks / loops / functions
        self.max_expr_depth = 3
        self.p_sane = None                    # follow the approximate environment (declared names, arity, types);
                                              # None = drawn per program from sane_levels
        self.sane_levels = [(0.45, 1.0), (0.2, 0.98), (0.2, 0.9), (0.15, 0.6)]
        self.p_unknown_method = 0.04
        self.stmt_weights = {"make": 22, "set": 8, "setidx": 3, "if": 10, "loop": 7, "block": 5, "fun": 12,
                             "return": 5, "break": 3, "next": 2, "expr": 23}
        self.__dict__.update(kw)


class Env:
    """approximate scopes, for bias only"""

    def __init__(self):
        self.vars = [{}]          # name -> type ("dynamic" when unknown)
        self.funs = [{}]          # name -> (arity, result type)
        self.in_loop = 0
        self.in_fn = 0

    def push(self):
        self.vars.append({})
        self.funs.append({})

    def pop(self):
        self.vars.pop()
        self.funs.pop()

    def var(self, x):
        for s in reversed(self.vars):
            if x in s:
                return s[x]
        return None

    def fun(self, f):
        for s in reversed(self.funs):
            if f in s:
                return s[f]
        return None

    def vars_of(self, t):
        seen, out = set(), []
        for s in reversed(self.vars):
            for x, ty in s.items():
                if x not in seen:
                    seen.add(x)
                    if t is None or ty == t or ty == "dynamic":
                        out.append(x)
        return out

    def all_funs(self):
        seen, out = set(), []
        for s in reversed(self.funs):
            for f, sig in s.items():
                if f not in seen:
                    seen.add(f)
                    out.append((f, sig))
        return out


class Gen:
    def __init__(self, rng, opts=None):
        self.r = rng
        self.o = opts or Opts()
        self.env = Env()
        self.stats = {"stmt": {}, "expr": {}}
        if self.o.p_sane is not None:
            self.p_sane = self.o.p_sane
        else:
            k, acc = rng.random(), 0.0
            self.p_sane = self.o.sane_levels[-1][1]
            for w, v in self.o.sane_levels:
                acc += w
                if k < acc:
                    self.p_sane = v
                    break
        self.stats["p_sane"] = self.p_sane

    def count(self, group, k):
        d = self.stats[group]
        d[k] = d.get(k, 0) + 1

    # ------------------------------------------------------------ names
    def name(self, fresh_in=None):
        """an identifier of the pool; in sane mode not one of `fresh_in` (names that would clash) and never reserved"""
        r, o = self.r, self.o
        for _ in range(6):
            k = r.random()
            if k < o.p_reserved_name and not self.sane():
                return r.choice(o.reserved_names)
            n = r.choice(o.odd_names) if k < o.p_reserved_name + o.p_odd_name else r.choice(o.names)
            if fresh_in is None or n not in fresh_in or not self.sane():
                return n
        return n

    def params(self):
        ps = []
        for _ in range(self.r.randint(0, 2)):
            ps.append(self.name(fresh_in=ps))
        return ps

    def sane(self):
        return self.r.random() < self.p_sane

    # ------------------------------------------------------------ expressions
    def literal(self, t):
        r = self.r
        if t == "number":
            return ("num", r.choice(["0", "1", "2", "7", "0.5", "10"]))
        if t == "string":
            if r.random() < 0.35:
                segs = []
                for _ in range(r.randint(1, 3)):
                    if r.random() < 0.6:
                        vs = self.env.vars_of(None)
                        if vs and self.sane():
                            segs.append(("var", r.choice(vs)))
                        elif not self.sane():
                            segs.append(("var", self.name()))
                    else:
                        segs.append(("lit", r.choice(["x", " ", "k=", "!"])))
                if any(s[0] == "var" for s in segs):
                    return ("tmpl", segs)
            return ("str", r.choice(["", "s", "ab", "a b"]))
        if t == "boolean":
            return ("bool", r.random() < 0.5)
        if t == "null":
            return ("null",)
        if t == "array":
            return ("arr", [self.expr(r.choice(TYPES + ["number", "number"]), 2) for _ in range(r.randint(0, 3))])
        return self.literal(r.choice(TYPES))

    def expr(self, want=None, depth=0):
        """an expression, with probability p_sane of the wanted static type (None = any)"""
        r = self.r
        free = want is None or not self.sane()
        if free:
            want = r.choice(TYPES + ["dynamic", "number", "boolean"])
        k = r.random()
        if depth >= self.o.max_expr_depth or k < 0.25:
            e = self.atom(want)
        elif k < 0.60:
            e = self.operator(want, depth) if (want in ("number", "string", "boolean") or not self.sane()) else self.atom(want)
        elif k < 0.78:
            e = self.member_call(want, depth)
        elif k < 0.90:
            e = self.call(want, depth)
        elif k < 0.96:
            e = ("idx", self.expr("array", depth + 1), self.expr("number", depth + 1))
        elif free or not self.sane():
            e = self.odd(depth)              # forms without a static type: only where any type will do
        else:
            e = self.atom(want)
        self.count("expr", e[0])
        return e

    def atom(self, want):
        r = self.r
        vs = self.env.vars_of(want if want != "dynamic" else None)
        if vs and r.random() < 0.55:
            return ("var", r.choice(vs))
        if not self.sane():
            return ("var", self.name())                       # maybe undeclared, maybe of another type
        if want == "dynamic":
            ar = self.env.vars_of("array")
            if ar:
                return ("idx", ("var", r.choice(ar)), ("num", "0"))
            return ("idx", ("arr", [("num", "1")]), ("num", "0"))
        return self.literal(want)

    def operator(self, want, depth):
        r = self.r
        d = depth + 1
        if want == "number":
            if r.random() < 0.15:
                return ("un", "minus", self.expr("number", d))
            return ("bin", r.choice(["add", "minus", "times", "divide", "mod"]), self.expr("number", d), self.expr("number", d))
        if want == "string":
            a, b = self.expr("string", d), self.expr(r.choice(["string", "number"]), d)
            return ("bin", "add", a, b) if r.random() < 0.5 else ("bin", "add", b, a)
        if want == "boolean":
            k = r.random()
            if k < 0.25:
                return ("un", "not", self.expr(r.choice(["boolean", "boolean", "null"]), d))
            if k < 0.6:
                t = r.choice(["number", "number", "string", "boolean", "null"])
                return ("bin", r.choice(["na", "pass", "small pass"]), self.expr(t, d), self.expr(r.choice([t, t, "null"]), d))
            return ("bin", r.choice(["and", "or"]), self.expr(r.choice(["boolean", "boolean", "null"]), d),
                    self.expr(r.choice(["boolean", "boolean", "null"]), d))
        # anything: a random operator over random operands
        if r.random() < 0.25:
            return ("un", r.choice(UNOPS), self.expr(None, d))
        return ("bin", r.choice(BINOPS), self.expr(None, d), self.expr(None, d))

    def member_call(self, want, depth):
        r = self.r
        d = depth + 1
        table = {"number": [("number", ["abs", "sqrt", "floor", "ceil", "round"]), ("string", ["len", "find", "to_number"]), ("array", ["len"])],
                 "string": [("string", ["slice", "to_uppercase", "to_lowercase", "replace", "trim"]), ("array", ["join"])],
                 "array": [("string", ["split"])],
                 "null": [("array", ["push", "reverse"])],
                 "dynamic": [("array", ["pop"])]}
        if want not in table and want in ("boolean",) and self.sane():
            return self.operator(want, depth)
        if want in table and self.sane():
            fam, ms = r.choice(table[want])
            m = r.choice(ms)
        else:
            fam = r.choice(["string", "array", "number", "string", "array", "command", "result"])
            m = r.choice(sorted(METHODS[fam]))
            if not self.sane():
                m = r.choice(ALL_METHODS)                       # a method of another family
        if r.random() < self.o.p_unknown_method and not self.sane():
            m = r.choice(["nosuch", "size"])
        recv_t = {"command": "dynamic", "result": "dynamic"}.get(fam, fam)
        recv = self.expr(recv_t, d) if self.sane() else self.expr(None, d)
        n = METHODS.get(fam, {}).get(m, 0) if self.sane() else r.randint(0, 3)
        argt = "string" if m in ("find", "replace", "split", "join", "arg", "cwd", "env", "stdin_text") else "number"
        args = [self.expr(argt if self.sane() else None, d + 1) for _ in range(n)]
        return ("call", ("member", recv, m), args)

    def call(self, want, depth):
        r = self.r
        d = depth + 1
        k = r.random()
        sane = self.sane()
        builtin = {"string": ["to_string", "typeof", "read_line"], "null": ["shout"],
                   None: ["to_string", "typeof", "shout", "read_line", "command"],
                   "dynamic": []}.get(want, []) if sane else ["to_string", "typeof", "shout", "read_line", "command"]
        if builtin and k < 0.35:
            g = r.choice(builtin)
            n = 1 if sane else r.randint(0, 2)
            t = "string" if g in ("command", "read_line") else None
            return ("call", ("var", g), [self.expr(t, d) for _ in range(n)])
        fs = self.env.all_funs()
        if sane:
            good = [(f, s) for f, s in fs if want in (None, "dynamic") or s[1] in (want, "dynamic")]
            if not good:
                return self.atom(want) if want is not None else ("call", ("var", "to_string"), [self.expr(None, d)])
            f, (ar, _) = r.choice(good)
            n = ar
        elif fs and r.random() < 0.5:
            f, (ar, _) = r.choice(fs)
            n = r.choice([ar, ar, r.randint(0, 3)])
        else:
            f, n = self.name(), r.randint(0, 2)
        return ("call", ("var", f), [self.expr(None, d) for _ in range(n)])

    def odd(self, depth):
        r = self.r
        d = depth + 1
        k = r.random()
        if k < 0.3:
            return ("member", self.expr(None, d), r.choice(ALL_METHODS))             # member access without a call
        if k < 0.5:
            return ("call", self.call(None, d), [self.expr(None, d + 1) for _ in range(r.randint(0, 1))])    # f()()
        if k < 0.7:
            return ("idx", ("idx", self.expr("array", d), self.expr("number", d)), self.expr("number", d))    # a[i][j]
        if k < 0.85:
            return ("call", ("idx", self.expr("array", d), ("num", "0")), [])          # a[0]()
        return ("arr", [self.expr(None, d) for _ in range(r.randint(0, 2))])

    # ------------------------------------------------------------ statements
    def static_type(self, e):
        """rough static type of an expression, for the environment only"""
        k = e[0]
        if k == "num":
            return "number"
        if k in ("str", "tmpl"):
            return "string"
        if k == "bool":
            return "boolean"
        if k == "null":
            return "null"
        if k == "arr":
            return "array"
        if k == "var":
            return self.env.var(e[1]) or "dynamic"
        if k == "un":
            return "boolean" if e[1] == "not" else "number"
        if k == "bin":
            if e[1] in ("na", "pass", "small pass", "and", "or"):
                return "boolean"
            if e[1] == "add":
                a, b = self.static_type(e[2]), self.static_type(e[3])
                return "string" if "string" in (a, b) else "number" if (a, b) == ("number", "number") else "dynamic"
            return "number"
        if k == "call" and e[1][0] == "var":
            f = e[1][1]
            if f in ("typeof", "to_string", "read_line"):
                return "string"
            if f == "shout":
                return "null"
            sig = self.env.fun(f)
            return sig[1] if sig else "dynamic"
        if k == "call" and e[1][0] == "member":
            m = e[1][2]
            rt = self.static_type(e[1][1])
            if rt in METHODS and m in METHODS[rt]:
                return {"len": "number", "find": "number", "to_number": "number", "split": "array", "join": "string",
                        "push": "null", "reverse": "null", "pop": "dynamic"}.get(m, "number" if rt == "number" else "string")
        return "dynamic"

    def block(self, n, depth, params=None, fn=False, loop=False):
        env = self.env
        env.push()
        if params:
            for p in params:
                env.vars[-1][p] = "dynamic"
        saved = (env.in_loop, env.in_fn)
        if fn:
            env.in_loop, env.in_fn = 0, env.in_fn + 1
        if loop:
            env.in_loop += 1
        # the functions of a block are visible in the whole block: decide the statement kinds first and
        # register every function the block will define before generating anything
        kinds = [self.pick_kind(depth) for _ in range(n)]
        if depth < self.o.max_depth and self.r.random() < self.o.p_plan_fn:
            kinds.insert(self.r.randrange(len(kinds) + 1), "fun")
        plans = {}
        for i, k in enumerate(kinds):
            if k == "fun":
                f = self.name(fresh_in=env.funs[-1])
                ps = self.params()
                rt = self.r.choice(["number", "string", "boolean", "array", "dynamic", "number"])
                hide = None
                vis = [g for g, _ in env.all_funs() if g != f]
                if vis and self.r.random() < self.o.p_hide_fn:
                    # the body will define its own version of a visible function g inside a nested construct and
                    # return g() from there: the result type of f is that of the INNER g
                    rt = self.r.choice(["number", "string", "boolean", "array"])
                    hide = (self.r.choice(vis), self.r.choice(["then", "else", "loop", "block", "body"]))
                if f not in env.funs[-1]:
                    env.funs[-1][f] = (len(ps), rt)
                plans[i] = (f, ps, rt, hide)
        out = []
        for i, k in enumerate(kinds):
            if k == "fun":
                out.append(self.fun(plans[i][0], plans[i][1], plans[i][2], depth, plans[i][3]))
            else:
                out.append(self.stmt(k, depth))
        env.in_loop, env.in_fn = saved
        env.pop()
        return out

    def nested_len(self, depth):
        return self.r.randint(0, max(1, self.o.max_block - depth // 2))

    def fun(self, f, ps, rt, depth, hide=None):
        self.count("stmt", "fun")
        r = self.r
        body = self.block(self.nested_len(depth), depth + 1, params=ps, fn=True)
        if hide is not None:
            g, where = hide
            n = r.randint(0, 1)
            inner = [("fun", g, ["a", "b"][:n], [("return", self.literal(rt))]),
                     ("return", ("call", ("var", g), [self.literal("number") for _ in range(n)]))]
            if where == "then":
                body.append(("if", ("bool", True), inner, None))
            elif where == "else":
                body.append(("if", ("bool", False), [], inner))
            elif where == "loop":
                body.append(("loop", ("bool", True), inner))
            elif where == "block":
                body.append(("block", inner))
            else:
                body += inner
            return ("fun", f, ps, body)
        if rt != "null" and (self.sane() or r.random() < 0.5):
            self.env.push()
            for p in ps:
                self.env.vars[-1][p] = "dynamic"
            self.env.in_fn += 1
            body.append(("return", self.literal(rt) if (rt in TYPES and r.random() < 0.4) else self.expr(rt if rt != "dynamic" else None, 1)))
            self.env.in_fn -= 1
            self.env.pop()
        return ("fun", f, ps, body)

    def pick_kind(self, depth):
        o, env = self.o, self.env
        kinds = list(o.stmt_weights)
        k = self.r.choices(kinds, [o.stmt_weights[x] for x in kinds])[0]
        if depth >= o.max_depth and k in ("if", "loop", "block", "fun"):
            k = "expr"
        return k

    def stmt(self, k, depth):
        r, o, env = self.r, self.o, self.env
        if k == "break" or k == "next":
            if not env.in_loop and self.sane():
                k = "expr"
        if k == "return" and not env.in_fn and self.sane():
            k = "make"
        self.count("stmt", k)
        if k == "make":
            x = self.name()
            if r.random() < 0.06:
                env.vars[-1][x] = "null"
                return ("make", x, None)
            e = self.expr(None, 0)
            env.vars[-1][x] = self.static_type(e)
            return ("make", x, e)
        if k in ("set", "setidx") and self.sane():
            if not env.vars_of(None if k == "set" else "array"):
                k = "make"
        if k == "set":
            vs = env.vars_of(None)
            x = r.choice(vs) if vs and self.sane() else self.name()
            t = env.var(x)
            return ("set", x, self.expr(t if t and t != "dynamic" else None, 0))
        if k == "setidx":
            ar = env.vars_of("array")
            base = ("var", r.choice(ar) if ar and self.sane() else self.name())
            tgt = ("idx", base, self.expr("number", 1))
            if r.random() < 0.25:
                tgt = ("idx", tgt, self.expr("number", 1))
            return ("setidx", tgt, self.expr(None, 1))
        if k == "if":
            c = self.expr("boolean", 0)
            t = self.block(self.nested_len(depth), depth + 1)
            e = self.block(self.nested_len(depth), depth + 1) if r.random() < 0.4 else None
            return ("if", c, t, e)
        if k == "loop":
            return ("loop", self.expr("boolean", 0), self.block(self.nested_len(depth), depth + 1, loop=True))
        if k == "block":
            return ("block", self.block(self.nested_len(depth), depth + 1))
        if k == "return":
            if r.random() < 0.4 and env.all_funs():
                return ("return", self.call(None, 0))        # results that depend on other signatures
            return ("return", self.expr(None, 0) if r.random() < 0.8 else None)
        if k == "break":
            return ("break",)
        if k == "next":
            return ("next",)
        # expression statement: must start with an identifier
        j = r.random()
        if j < 0.45:
            return ("expr", ("call", ("var", "shout"), [self.expr(None, 0)] if self.sane() else [self.expr(None, 0) for _ in range(r.randint(0, 2))]))
        if j < 0.7:
            e = self.call(None, 0)
            return ("expr", e)
        if j < 0.95:
            fam0 = r.choice(["string", "array", "array", "number"])
            vs = env.vars_of(fam0)
            if not vs and self.sane():
                return ("expr", ("call", ("var", "shout"), [self.expr(None, 0)]))
            x = r.choice(vs) if vs and self.sane() else self.name()
            t = env.var(x)
            fam = t if t in METHODS else fam0
            m = r.choice(sorted(METHODS[fam])) if self.sane() else r.choice(ALL_METHODS)
            n = METHODS[fam].get(m, 0) if self.sane() else r.randint(0, 2)
            recv = ("var", x) if r.random() < 0.8 else ("idx", ("var", x), self.expr("number", 1))
            return ("expr", ("call", ("member", recv, m), [self.expr(None, 1) for _ in range(n)]))
        vs = env.vars_of(None)
        return ("expr", ("var", r.choice(vs) if vs and self.sane() else self.name()))

    def program(self):
        n = self.r.randint(1, self.o.max_stmts)
        body = self.block(n, 0)
        return body


# ---------------------------------------------------------------- rendering
def atomic(e):
    return e[0] in ("num", "str", "tmpl", "bool", "null", "arr", "var", "idx", "call", "member")


def rexpr(e):
    k = e[0]
    if k == "num":
        return e[1]
    if k == "str":
        return '"%s"' % e[1]
    if k == "tmpl":
        return '"%s"' % "".join(s[1] if s[0] == "lit" else "{%s}" % s[1] for s in e[1])
    if k == "bool":
        return "true" if e[1] else "false"
    if k == "null":
        return "null"
    if k == "arr":
        return "[%s]" % ", ".join(rexpr(x) for x in e[1])
    if k == "var":
        return e[1]
    if k == "bin":
        return "%s %s %s" % (roperand(e[2]), e[1], roperand(e[3]))
    if k == "un":
        return "%s %s" % (e[1], roperand(e[2]))
    if k == "idx":
        return "%s[%s]" % (rpostfix(e[1]), rexpr(e[2]))
    if k == "member":
        return "%s.%s" % (rpostfix(e[1]), e[2])
    if k == "call":
        return "%s(%s)" % (rpostfix(e[1]), ", ".join(rexpr(a) for a in e[2]))
    raise ValueError(k)


def roperand(e):
    return rexpr(e) if atomic(e) else "(%s)" % rexpr(e)


def rpostfix(e):
    """an expression that a postfix ( [..] .name (..) ) may follow without changing the tree"""
    if e[0] in ("var", "idx", "call", "member"):
        return rexpr(e)
    return "(%s)" % rexpr(e)


def rblock(stmts, ind, out):
    for i, s in enumerate(stmts):
        rstmt(s, ind, out, last=(i == len(stmts) - 1))


def rstmt(s, ind, out, last=False):
    pad = "  " * ind
    k = s[0]
    if k == "make":
        out.append("%smake %s" % (pad, s[1]) + (" get %s" % rexpr(s[2]) if s[2] is not None else ""))
    elif k == "set":
        out.append("%s%s get %s" % (pad, s[1], rexpr(s[2])))
    elif k == "setidx":
        out.append("%s%s get %s" % (pad, rexpr(s[1]), rexpr(s[2])))
    elif k == "if":
        out.append("%sif to say (%s) start" % (pad, rexpr(s[1])))
        rblock(s[2], ind + 1, out)
        out.append("%send" % pad)
        if s[3] is not None:
            out.append("%sif not so start" % pad)
            rblock(s[3], ind + 1, out)
            out.append("%send" % pad)
    elif k == "loop":
        out.append("%sjasi (%s) start" % (pad, rexpr(s[1])))
        rblock(s[2], ind + 1, out)
        out.append("%send" % pad)
    elif k == "block":
        out.append("%sstart" % pad)
        rblock(s[1], ind + 1, out)
        out.append("%send" % pad)
    elif k == "fun":
        out.append("%sdo %s(%s) start" % (pad, s[1], ", ".join(s[2])))
        rblock(s[3], ind + 1, out)
        out.append("%send" % pad)
    elif k == "return":
        if s[1] is not None:
            out.append("%sreturn %s" % (pad, rexpr(s[1])))
        elif last and ind > 0:
            out.append("%sreturn" % pad)              # a bare `return` swallows the next expression: only before `end`
        else:
            out.append("%sreturn null" % pad)
    elif k == "break":
        out.append("%scomot" % pad)
    elif k == "next":
        out.append("%snext" % pad)
    elif k == "expr":
        out.append("%s%s" % (pad, rexpr(s[1])))
    else:
        raise ValueError(k)


def render(tree):
    out = []
    rblock(tree, 0, out)
    return "\n".join(out) + "\n"


# ---------------------------------------------------------------- features of a tree (for the reported distribution)
def features(tree):
    """-> dict: shadowed_fn (a function defined in a block nested in a block that defines the same name),
    null_operand (null literal as operand of an operator / condition / receiver), deep_call_below_shadow
    (a call of f at least two block levels below a definition of f that shadows an outer definition),
    redeclare (a name made twice in one block), var_fn_clash (a name used for a variable and a function)"""
    f = {"shadowed_fn": False, "null_operand": False, "deep_call_below_shadow": False, "redeclare": False,
         "var_fn_clash": False, "max_depth": 0}
    vnames, fnames = set(), set()

    def expr(e, defs, depth):
        k = e[0]
        if k in ("bin",):
            if e[2][0] == "null" or e[3][0] == "null":
                f["null_operand"] = True
            expr(e[2], defs, depth)
            expr(e[3], defs, depth)
        elif k == "un":
            if e[2][0] == "null":
                f["null_operand"] = True
            expr(e[2], defs, depth)
        elif k == "arr":
            for x in e[1]:
                expr(x, defs, depth)
        elif k == "idx":
            expr(e[1], defs, depth)
            expr(e[2], defs, depth)
        elif k == "member":
            if e[1][0] == "null":
                f["null_operand"] = True
            expr(e[1], defs, depth)
        elif k == "call":
            if e[1][0] == "var":
                name = e[1][1]
                levels = [d for d, names in defs if name in names]
                if len(levels) >= 2 and depth - levels[-1] >= 2:
                    f["deep_call_below_shadow"] = True
            else:
                expr(e[1], defs, depth)
            for a in e[2]:
                expr(a, defs, depth)

    def block(stmts, defs, depth):
        f["max_depth"] = max(f["max_depth"], depth)
        own = set(s[1] for s in stmts if s[0] == "fun")
        if any(own & names for _, names in defs):
            f["shadowed_fn"] = True
        fnames.update(own)
        defs = defs + [(depth, own)]
        made = set()
        for s in stmts:
            k = s[0]
            if k == "make":
                if s[1] in made:
                    f["redeclare"] = True
                made.add(s[1])
                vnames.add(s[1])
                if s[2] is not None:
                    expr(s[2], defs, depth)
            elif k == "set":
                expr(s[2], defs, depth)
            elif k == "setidx":
                expr(s[1], defs, depth)
                expr(s[2], defs, depth)
            elif k == "if":
                if s[1][0] == "null":
                    f["null_operand"] = True
                expr(s[1], defs, depth)
                block(s[2], defs, depth + 1)
                if s[3] is not None:
                    block(s[3], defs, depth + 1)
            elif k == "loop":
                expr(s[1], defs, depth)
                block(s[2], defs, depth + 1)
            elif k == "block":
                block(s[1], defs, depth + 1)
            elif k == "fun":
                vnames.update(s[2])
                block(s[3], defs, depth + 1)
            elif k == "return" and s[1] is not None:
                expr(s[1], defs, depth)
            elif k == "expr":
                expr(s[1], defs, depth)

    block(tree, [], 0)
    f["var_fn_clash"] = bool(vnames & fnames)
    return f


def gen(rng, opts=None):
    """-> (source text, tree, stats) ; stats = {"stmt": {kind: n}, "expr": {kind: n}}"""
    g = Gen(rng, opts)
    tree = g.program()
    return render(tree), tree, g.stats


# ---------------------------------------------------------------- shrinking on the tree
def copy_block(stmts):
    out = []
    for s in stmts:
        k = s[0]
        if k == "if":
            out.append(("if", s[1], copy_block(s[2]), copy_block(s[3]) if s[3] is not None else None))
        elif k == "loop":
            out.append(("loop", s[1], copy_block(s[2])))
        elif k == "block":
            out.append(("block", copy_block(s[1])))
        elif k == "fun":
            out.append(("fun", s[1], list(s[2]), copy_block(s[3])))
        else:
            out.append(s)
    return out


def blocks_of(stmts):
    """every statement list of the tree (the lists themselves: deleting from them edits the tree)"""
    yield stmts
    for s in stmts:
        k = s[0]
        if k == "if":
            yield from blocks_of(s[2])
            if s[3] is not None:
                yield from blocks_of(s[3])
        elif k == "loop":
            yield from blocks_of(s[2])
        elif k == "block":
            yield from blocks_of(s[1])
        elif k == "fun":
            yield from blocks_of(s[3])


def shrink(tree, still_bad, budget_s=30.0):
    """greedy statement deletion / unwrapping while `still_bad(tree)` holds; returns the smallest tree found"""
    import time
    deadline = time.time() + budget_s
    best = copy_block(tree)
    changed = True
    while changed and time.time() < deadline:
        changed = False
        nb = len(list(blocks_of(best)))
        for bi in range(nb):
            j = 0
            while time.time() < deadline:
                cand = copy_block(best)
                blk = list(blocks_of(cand))[bi] if bi < len(list(blocks_of(cand))) else None
                if blk is None or j >= len(blk):
                    break
                s = blk[j]
                inner = s[2] if s[0] in ("loop",) else s[1] if s[0] == "block" else s[3] if s[0] == "fun" else s[2] if s[0] == "if" else None
                del blk[j]
                if still_bad(cand):
                    best = cand
                    changed = True
                    continue
                if inner:                                   # replace the construct by its body
                    cand = copy_block(best)
                    blk = list(blocks_of(cand))[bi]
                    blk[j:j + 1] = copy_block(inner)
                    if still_bad(cand):
                        best = cand
                        changed = True
                        continue
                j += 1
    return best


# ---------------------------------------------------------------------------------------------
# terminating variant (for streams that RUN the programs): every loop gets a counter and leaves
# after 3 iterations, every function body increments a global call counter and returns null
# beyond 40 calls; programs that read stdin or spawn processes are not used.
def _bound(stmts, ctr):
    out = []
    for s in stmts:
        k = s[0]
        if k == "fun":
            pre = [("set", "zd", ("bin", "add", ("var", "zd"), ("num", "1"))),
                   ("if", ("bin", "pass", ("var", "zd"), ("num", "40")), [("return", ("null",))], None)]
            out.append(("fun", s[1], s[2], pre + _bound(s[3], ctr)))
        elif k == "loop":
            ctr[0] += 1
            zk = "zk%d" % ctr[0]
            pre = [("set", zk, ("bin", "add", ("var", zk), ("num", "1"))),
                   ("if", ("bin", "pass", ("var", zk), ("num", "3")), [("break",)], None)]
            out.append(("make", zk, ("num", "0")))
            out.append(("loop", s[1], pre + _bound(s[2], ctr)))
        elif k == "if":
            out.append(("if", s[1], _bound(s[2], ctr), None if s[3] is None else _bound(s[3], ctr)))
        elif k == "block":
            out.append(("block", _bound(s[1], ctr)))
        else:
            out.append(s)
    return out


def gen_terminating(rng, max_bytes=None):
    for _ in range(60):
        o = Opts(p_sane=rng.choice([1.0, 1.0, 0.98]), max_depth=rng.choice([3, 4, 5]))
        src, tree, _ = gen(rng, o)
        if "read_line" in src or "command" in src or ".run" in src:
            continue
        text = render([("make", "zd", ("num", "0"))] + _bound(tree, [0]))
        if max_bytes is None or len(text.encode("utf-8")) <= max_bytes:
            return text
    return "shout(1)\n"
