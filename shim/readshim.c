/* readshim.c — LD_PRELOAD interposer that fixes how standard input is split across
 * read(2) returns (property C17).
 *
 *   READSHIM_SCHED = path of a file with whitespace/comma separated sizes s_1 s_2 ...
 *   READSHIM_LOG   = path; one line "count returned" is appended per read(0, ..)
 *
 * The schedule lists the sizes of the pieces in which the input becomes available (an
 * entry below 1 counts as 1).  A read(0, buf, count) returns exactly
 *       min(count, what is left of the current piece, bytes left in the input)
 * bytes (the next ones of the real standard input, in order; the real descriptor is read
 * repeatedly until that many bytes arrived or it reports end of input); a piece larger
 * than count is handed out over several reads.  When the schedule is used up a read
 * returns min(count, bytes left).  Once the real descriptor has reported end of input
 * every later read returns 0.  Other descriptors are untouched.
 * This is the function [sys_read] of coq/theories/ReadLine.v.
 */
#define _GNU_SOURCE
#include <dlfcn.h>
#include <errno.h>
#include <stdio.h>
#include <stdlib.h>
#include <string.h>
#include <unistd.h>

static ssize_t (*real_read)(int, void *, size_t);
static long *sched;
static size_t nsched, isched, cur;   /* cur: bytes left of the current piece */
static int inited, at_eof;
static FILE *logf;

static void init(void) {
    inited = 1;
    real_read = (ssize_t(*)(int, void *, size_t))dlsym(RTLD_NEXT, "read");
    const char *p = getenv("READSHIM_SCHED");
    if (p) {
        FILE *f = fopen(p, "r");
        if (f) {
            size_t cap = 1024;
            sched = malloc(cap * sizeof(long));
            long v;
            for (;;) {
                int c = fgetc(f);
                if (c == EOF) break;
                if (c == ',' || c == ' ' || c == '\n' || c == '\t' || c == '\r') continue;
                ungetc(c, f);
                if (fscanf(f, "%ld", &v) != 1) break;
                if (nsched == cap) { cap *= 2; sched = realloc(sched, cap * sizeof(long)); }
                sched[nsched++] = v;
            }
            fclose(f);
        }
    }
    const char *l = getenv("READSHIM_LOG");
    if (l) logf = fopen(l, "a");
}

ssize_t read(int fd, void *buf, size_t count) {
    if (!inited) init();
    if (fd != 0) return real_read(fd, buf, count);
    size_t want = count;
    if (cur == 0 && isched < nsched) {
        long s = sched[isched++];
        cur = s < 1 ? 1 : (size_t)s;
    }
    int in_piece = cur > 0;
    if (in_piece && cur < want) want = cur;
    size_t got = 0;
    while (!at_eof && got < want) {
        ssize_t r = real_read(0, (char *)buf + got, want - got);
        if (r < 0) {
            if (errno == EINTR) continue;
            if (got == 0) return r;
            break;
        }
        if (r == 0) { at_eof = 1; break; }
        got += (size_t)r;
    }
    if (in_piece) cur -= got < cur ? got : cur;
    if (at_eof) cur = 0;
    if (logf) { fprintf(logf, "%zu %zu\n", count, got); fflush(logf); }
    return (ssize_t)got;
}
