#!/usr/bin/env python3
"""ast2coq.py — turns an `ast ...` line printed by `nsverif lang` into a Gallina term of type
`list Lang.stmt` (used to write refutation witnesses for Properties/C04.v by hand).
usage: ast2coq.py '<ast line>'"""
import sys


def conv(toks):
    pos = [0]

    def nxt():
        t = toks[pos[0]]
        pos[0] += 1
        return t

    def oid(t):
        return "None" if t == "-" else "(Some %s)" % t

    def name(h):
        if h == "-":
            return "[]"
        return "[" + ";".join(str(int(h[i:i + 2], 16)) for i in range(0, len(h), 2)) + "]"

    def expr():
        t = nxt()
        if t == "N":
            return "(ENum (of_bits %d))" % int(nxt(), 16)
        if t == "S":
            return "(EStr %s)" % name(nxt())
        if t == "I":
            n = int(nxt())
            segs = []
            for _ in range(n):
                k = nxt()
                if k == "L":
                    segs.append("SegLit %s" % name(nxt()))
                else:
                    nm = name(nxt())
                    segs.append("SegVar %s %s" % (nm, oid(nxt())))
            return "(EInterp [%s])" % "; ".join(segs)
        if t == "B":
            return "(EBool %s)" % ("true" if nxt() == "1" else "false")
        if t == "Z":
            return "ENull"
        if t == "V":
            nm = name(nxt())
            return "(EVar %s %s)" % (nm, oid(nxt()))
        if t == "O":
            op = {"add": "Add", "minus": "Minus", "times": "Times", "divide": "Divide", "mod": "Mod", "and": "And",
                  "or": "Or", "eq": "OEq", "gt": "OGt", "lt": "OLt"}[nxt()]
            a = expr()
            b = expr()
            return "(EBin %s %s %s)" % (op, a, b)
        if t == "U":
            op = {"not": "Not", "neg": "Neg"}[nxt()]
            return "(EUn %s %s)" % (op, expr())
        if t == "A":
            n = int(nxt())
            return "(EArr [%s])" % "; ".join(expr() for _ in range(n))
        if t == "X":
            a = expr()
            i = expr()
            return "(EIdx %s %s)" % (a, i)
        if t == "M":
            o = expr()
            return "(EMember %s %s)" % (o, name(nxt()))
        if t == "C":
            c = expr()
            n = int(nxt())
            args = [expr() for _ in range(n)]
            return "(ECall %s [%s] %s)" % (c, "; ".join(args), oid(nxt()))
        raise ValueError(t)

    def block():
        n = int(nxt())
        return "[" + ";\n ".join(stmt() for _ in range(n)) + "]"

    def stmt():
        t = nxt()
        if t == "F":
            sid = oid(nxt())
            nm = name(nxt())
            np_ = int(nxt())
            ps = [name(nxt()) for _ in range(np_)]
            body = block()
            fid = oid(nxt())
            ls = nxt()
            ll = nxt()
            return "SFun %s %s [%s] %s %s %s %s" % (sid, nm, "; ".join(ps), body, fid, ls, ll)
        if t in ("K", "T"):
            sid = oid(nxt())
            nm = name(nxt())
            l = oid(nxt())
            return "%s %s %s %s %s" % ("SMake" if t == "K" else "SSet", sid, nm, l, expr())
        if t == "J":
            sid = oid(nxt())
            a = expr()
            b = expr()
            return "SSetIdx %s %s %s" % (sid, a, b)
        if t == "IF":
            sid = oid(nxt())
            c = expr()
            th = block()
            f = "(Some %s)" % block() if nxt() == "1" else "None"
            return "SIf %s %s %s %s" % (sid, c, th, f)
        if t == "W":
            sid = oid(nxt())
            c = expr()
            return "SLoop %s %s %s" % (sid, c, block())
        if t == "BL":
            sid = oid(nxt())
            return "SBlock %s %s" % (sid, block())
        if t == "R":
            sid = oid(nxt())
            return "SRet %s %s" % (sid, "(Some %s)" % expr() if nxt() == "1" else "None")
        if t == "BR":
            return "SBreak %s" % oid(nxt())
        if t == "NX":
            return "SNext %s" % oid(nxt())
        if t == "EX":
            sid = oid(nxt())
            return "SExpr %s %s" % (sid, expr())
        raise ValueError(t)

    return block()


if __name__ == "__main__":
    toks = sys.argv[1].split()
    if toks[0] == "ast":
        toks = toks[1:]
    print(conv(toks))
