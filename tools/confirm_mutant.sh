#!/bin/bash
# tools/confirm_mutant.sh <mutant dir> <worktree> <mode> <name-or-filter> [append-target]
#   mode testfile: demo.rs -> tests/<name>.rs, run `cargo test --test <name>`
#   mode append:   demo.rs appended to <append-target>, run `cargo test --lib <filter>`
# Confirms: with the change the tree builds, the existing suite is green, the demonstration FAILS;
# without the change the demonstration PASSES.  Prints one line per fact and a JSON summary.
set -u
M=$1; WT=$2; MODE=$3; NAME=$4; TARGET=${5:-}
cd "$WT" || exit 2
git checkout -q -- . ; git clean -fdq -e target
place() { if [ "$MODE" = testfile ]; then cp "$M/demo.rs" "tests/$NAME.rs"; else cat "$M/demo.rs" >> "$TARGET"; fi; }
rundemo() { if [ "$MODE" = testfile ]; then cargo +nightly test --offline --test "$NAME" 2>&1 | grep -E "^test result" | tail -1; else cargo +nightly test --offline --lib "$NAME" 2>&1 | grep -E "^test result" | tail -1; fi; }
# 1. with the change
git apply "$M/patch.diff" || { echo "APPLY FAILED"; exit 2; }
B=$(cargo +nightly build --offline 2>&1 | tail -1)
S=$(cargo +nightly test --workspace --no-fail-fast --offline 2>&1 | grep -E "^test result" | grep -vc "ok\.")
place; DW=$(rundemo)
# 2. without the change
git checkout -q -- . ; git clean -fdq -e target
place; DO=$(rundemo)
git checkout -q -- . ; git clean -fdq -e target
echo "build_with_change: $B"
echo "suite_groups_not_ok_with_change: $S"
echo "demo_with_change: $DW"
echo "demo_without_change: $DO"
