import sys, subprocess, os
# usage: dbg.py file.v LINE [nchars] -> prints the goal state just before LINE (inserting Show.)
tmp = '/tmp/dbg_tmp_%d' % os.getpid()
f, line = sys.argv[1], int(sys.argv[2])
src = open(f).read().splitlines()
open(tmp + '.v', 'w').write("\n".join(src[:line - 1]) + "\nShow. \n")
r = subprocess.run(['coqc', '-Q', '/verif/coq', 'NS', tmp + '.v', '-o', tmp + '.vo'], capture_output=True, text=True)
out = r.stdout + r.stderr
print(out[-int(sys.argv[3]) if len(sys.argv) > 3 else -3000:])
for e in ('.v', '.vo', '.glob', '.vok', '.vos'):
    try:
        os.remove(tmp + e)
    except OSError:
        pass
