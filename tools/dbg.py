import sys,subprocess,re,os
tmp='/tmp/dbg_tmp_%d'%os.getpid()
# usage: dbg.py file line  -> prints goal state at the given line (inserting Show.)
f,line=sys.argv[1],int(sys.argv[2])
src=open(f).read().splitlines()
pre=src[:line-1]
open(tmp+'.v','w').write("\n".join(pre)+"\nShow. \n")
r=subprocess.run(['coqc','-Q','/verif/coq','NS','/tmp/dbg_tmp_$$.v','-o','/tmp/dbg_tmp.vo'],capture_output=True,text=True)
out=r.stdout+r.stderr
print(out[-int(sys.argv[3]) if len(sys.argv)>3 else -3000:])
