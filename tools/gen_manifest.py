#!/usr/bin/env python3
"""Regenerates MANIFEST.json from tools/claims.json (one entry per claimed property)."""
import json, os
V = os.path.dirname(os.path.dirname(os.path.abspath(__file__)))
props = [json.loads(l) for l in open(os.path.join(V, "properties.jsonl"))]
claims = json.load(open(os.path.join(V, "tools", "claims.json")))
checks = []
for pid in sorted(claims["claimed"]):
    c = claims["claimed"][pid]
    checks.append({
        "property_id": pid,
        "quick_cmd": "bin/check %s --tier quick" % pid,
        "thorough_cmd": "bin/check %s --tier thorough" % pid,
        "evidence_file": "/verif/evidence/%s.json" % pid,
        "replay_cmd_template": "bin/check %s --replay {path}" % pid,
        "engine": "coq-proof+correspondence",
        "level_claimed": {"category": "proof", "text": c["text"], "design_ref": "DESIGN.md §6.%s" % pid},
        "level_note": c["note"],
        "technique": c.get("technique", "Rocq/Coq proof over executable Gallina model + extracted-model vs implementation correspondence"),
    })
na = [{"property_id": p["id"], "reason": claims["not_claimed"].get(p["id"], "check under construction in this round (DESIGN.md §8 build order); not claimed until its theorems and correspondence are committed")}
      for p in props if p["id"] not in claims["claimed"]]
m = {
    "version": 1,
    "setup_cmd": "bin/setup",
    "hooks": {"guard": "naijascript_verif", "enable": "RUSTFLAGS=\"--cfg naijascript_verif\"",
              "baseline_off_cmd": "cd /repo && cargo test --workspace --no-fail-fast --offline",
              "source_commits": claims["hook_commits"], "add_only": True},
    "engines": [{"name": "coq-proof+correspondence", "path": "bin/check", "serves_properties": sorted(claims["claimed"]),
                 "kind_free_text": "Coq 8.16.1 theorems over executable Gallina models (coq/), extraction to OCaml (nsmodel), Rust harness (harness/) driving the implementation, Python driver applying the verdict logic of DESIGN.md §5"}],
    "checks": checks,
    "notes": "See DESIGN.md. Genuine defects repaired by fix: commits or kept as findings are listed in known_findings.json.",
    "not_applicable": na,
}
json.dump(m, open(os.path.join(V, "MANIFEST.json"), "w"), indent=1)
print("MANIFEST.json: %d claimed, %d not claimed" % (len(checks), len(na)))
