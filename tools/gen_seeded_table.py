#!/usr/bin/env python3
"""Rewrites the seeded-mutant table of DESIGN.md (between the SEEDED-TABLE markers) from
seeded/*/meta.json."""
import json, os, re
V = os.path.dirname(os.path.dirname(os.path.abspath(__file__)))
rows = []
for d in sorted(os.listdir(os.path.join(V, "seeded"))):
    mp = os.path.join(V, "seeded", d, "meta.json")
    if not os.path.exists(mp):
        continue
    m = json.load(open(mp))
    what = m.get("summary") or m.get("breaks", "")
    what = re.sub(r"\s+", " ", what.replace("|", "/")).strip()
    what = re.sub(r"^#+\s*", "", what)[:260]
    cr = m.get("check_result", {})
    verdict = cr.get("verdict")
    if isinstance(verdict, list):
        caught = cr.get("caught")
        v = " ".join(verdict)
        how = "failing input" if ("VIOLATION" in v and "no-failing-input-found" not in v) else ("broken obligation / correspondence (no failing input found)" if "VIOLATION" in v else "MISSED")
        verdict = ("caught: " if caught else "") + how
    note = m.get("note", "")
    rows.append("| %s | %s | %s%s |" % (m["id"], what, verdict, (" — " + note) if note else ""))
table = "| mutant | change (from the sub-agent's README) | verdict of the property's check |\n|---|---|---|\n" + "\n".join(rows)
p = os.path.join(V, "DESIGN.md")
s = open(p).read()
b, e = "<!-- SEEDED-TABLE-BEGIN -->", "<!-- SEEDED-TABLE-END -->"
if b in s:
    s = s[:s.index(b) + len(b)] + "\n" + table + "\n" + s[s.index(e):]
    open(p, "w").write(s)
print(table)
