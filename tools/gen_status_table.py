#!/usr/bin/env python3
"""tools/gen_status_table.py — rewrites the table between <!-- STATUS-TABLE-BEGIN/END --> in
DESIGN.md from what the checks themselves wrote (evidence/*.json), known_findings.json,
Properties/Cxx.v and seeded/*/meta.json.  Nothing in it is typed by hand."""
import glob, json, os, re

V = os.path.dirname(os.path.dirname(os.path.abspath(__file__)))
kf = json.load(open(os.path.join(V, "known_findings.json")))["findings"]
rows = []
for i in range(1, 19):
    pid = "C%02d" % i
    ev = {}
    p = os.path.join(V, "evidence", pid + ".json")
    if os.path.exists(p):
        ev = json.load(open(p))
    cov = ev.get("coverage", {})
    src = open(os.path.join(V, "coq", "Properties", pid + ".v")).read()
    thms = len(re.findall(r"^\s*(?:Theorem|Corollary)\s+C\d\d_", src, re.M))
    exs = len(re.findall(r"^\s*(?:Example|Lemma)\s+C\d\d_", src, re.M))
    opened = [e for e in kf if e["status"] == "open" and (e["property"] == pid)]
    fixed = [e for e in kf if e["status"] == "fixed" and (e["property"] == pid)]
    seeded = [json.load(open(m)) for m in sorted(glob.glob(os.path.join(V, "seeded", pid + "-*", "meta.json")))]
    def is_caught(m):
        cr = m.get("check_result", {})
        return cr.startswith("caught") if isinstance(cr, str) else bool(cr.get("caught"))
    caught = sum(1 for m in seeded if is_caught(m))
    first_missed = sum(1 for m in seeded if m.get("note"))
    rows.append("| %s | %d (+%d examples/witnesses) | %s | %s / %s | %d fixed, %d open | %d of %d (%d first missed) |" % (
        pid, thms, exs, ev.get("tier", "-"), cov.get("evaluations", "-"), cov.get("distinct_nontrivial", "-"),
        len(fixed), len(opened), caught, len(seeded), first_missed))
head = ("| property | theorems pinned in Properties/Cxx.v | tier of the last evidence file | cases / non-trivial in that run | defects | seeded changes caught |\n"
        "|---|---|---|---|---|---|\n")
table = head + "\n".join(rows) + "\n"
p = os.path.join(V, "DESIGN.md")
s = open(p).read()
b, e = "<!-- STATUS-TABLE-BEGIN -->\n", "<!-- STATUS-TABLE-END -->"
if b in s and e in s:
    s = s[:s.index(b) + len(b)] + table + s[s.index(e):]
    open(p, "w").write(s)
    print("status table: %d rows" % len(rows))
else:
    print(table)
