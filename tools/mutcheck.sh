#!/bin/bash
# tools/mutcheck.sh <PROP> <patch.diff|-> <worktree> [tier]
# Runs one check against a scratch worktree of /repo with a seeded change applied, from a
# PRIVATE COPY of /verif (sources, generated Coq files, build output), so that nothing in
# /verif itself (generated Gen*.v, evidence, replays, nsmodel) is touched by the experiment.
# Prints the verdict lines; exit status is the check's.
set -u
PROP=$1; PATCH=$2; WT=$3; TIER=${4:-quick}
SCR=/tmp/mutv-$(basename "$WT")
git -C "$WT" checkout -q -- . || exit 2
if [ "$PATCH" != "-" ]; then git -C "$WT" apply "$PATCH" || { echo "patch does not apply"; exit 2; }; fi
mkdir -p "$SCR"
rsync -a --delete --exclude .git --exclude 'replays/*.json' --exclude '.build/work/*' --exclude '.build/chk*' /verif/ "$SCR/verif/"
( cd "$SCR/verif" && VERIF_REPO="$WT" ./bin/check "$PROP" --tier "$TIER" ) > "/tmp/mutcheck-$PROP.log" 2>&1
rc=$?
grep -E "VIOLATION|KNOWN-FINDING|$PROP $TIER:" "/tmp/mutcheck-$PROP.log" | cut -c1-300 | tail -6
mkdir -p /tmp/mut-replays; cp "$SCR"/verif/replays/*.json /tmp/mut-replays/ 2>/dev/null
echo "exit=$rc"
git -C "$WT" checkout -q -- .
rm -rf "$SCR"    # ~1-2 GB per copy: never leave it behind
exit $rc
