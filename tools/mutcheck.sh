#!/bin/bash
# tools/mutcheck.sh <PROP> <patch.diff> <worktree> [tier]
# Applies a seeded change to a scratch worktree of /repo (never to /repo itself while workers
# build from it), runs one check against that tree with its own build directory, prints the
# verdict line, and restores the worktree.
set -u
PROP=$1; PATCH=$2; WT=$3; TIER=${4:-quick}
git -C "$WT" checkout -q -- . && git -C "$WT" apply "$PATCH" || { echo "patch does not apply"; exit 2; }
cp /verif/evidence/$PROP.json /tmp/evidence-$PROP.bak 2>/dev/null
ls /verif/replays > /tmp/replays-before.txt
VERIF_REPO="$WT" VERIF_BUILD="/tmp/build-mut-$(basename $WT)" /verif/bin/check "$PROP" --tier "$TIER" > "/tmp/mutcheck-$PROP.log" 2>&1
rc=$?
grep -E "VIOLATION|KNOWN-FINDING|$PROP $TIER:" "/tmp/mutcheck-$PROP.log" | tail -5
echo "exit=$rc"
git -C "$WT" checkout -q -- .
# the evidence file must only ever describe runs against /repo itself
cp /tmp/evidence-$PROP.bak /verif/evidence/$PROP.json 2>/dev/null
mkdir -p /tmp/mut-replays; for f in $(ls /verif/replays | grep -v -x -f /tmp/replays-before.txt); do mv /verif/replays/$f /tmp/mut-replays/; done
exit $rc
