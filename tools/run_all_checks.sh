#!/bin/bash
# runs every claimed check's quick command once, sequentially; prints one line per property
cd "$(dirname "$0")/.."
SKIP=" ${SKIP:-} "
for p in $(python3 -c "import json; print(' '.join(c['property_id'] for c in json.load(open('MANIFEST.json'))['checks']))"); do
  case "$SKIP" in *" $p "*) echo "$p skipped"; continue;; esac
  s=$(date +%s); bin/check $p --tier ${1:-quick} > ${TMPDIR:-/tmp}/all-$p-${1:-quick}.log 2>&1; rc=$?; e=$(date +%s)
  echo "$p rc=$rc $((e-s))s $(grep -c KNOWN-FINDING ${TMPDIR:-/tmp}/all-$p-${1:-quick}.log) known; $(grep -E "VIOLATION|$p ${1:-quick}:" ${TMPDIR:-/tmp}/all-$p-${1:-quick}.log | tail -1 | cut -c1-150)"
done
