#!/usr/bin/env python3
"""tools/seed_mutant.py PROP k [tier]  — confirms an independently produced mutant
(/tmp/mut-cNN-out/m<k>: patch.diff, demo.*, run_demo.sh, README.md) in its scratch worktree
/tmp/mut-cNN (builds, existing suite green, demonstration fails with the change and passes
without), runs the property's check against it through tools/mutcheck.sh, and stores everything
under /verif/seeded/<PROP>-m<k>/ with meta.json.  Nothing is kept unless the confirmation holds."""
import json, os, shutil, subprocess, sys, re

prop, k = sys.argv[1], sys.argv[2]
tier = sys.argv[3] if len(sys.argv) > 3 else "quick"
wave = sys.argv[4] if len(sys.argv) > 4 else ""      # "" = first wave (mut-), "b" = second wave (mutb-)
nn = prop[1:]
wt = "/tmp/mut%s-c%s" % (wave, nn)
src = "/tmp/mut%s-c%s-out/m%s" % (wave, nn, k)
tag = "%s-%s%s" % (prop, wave or "m", k)


def sh(cmd, timeout=3600):
    p = subprocess.run(cmd, shell=True, stdout=subprocess.PIPE, stderr=subprocess.STDOUT, timeout=timeout)
    return p.returncode, p.stdout.decode("utf-8", "replace")


def clean():
    sh("git -C %s checkout -q -- . ; git -C %s clean -fdq -e target" % (wt, wt))


clean()
rc, out = sh("git -C %s apply %s/patch.diff" % (wt, src))
if rc != 0:
    print("patch does not apply:", out[-300:]); sys.exit(2)
rc_b, out_b = sh("cd %s && cargo +nightly build --offline 2>&1 | tail -2" % wt)
built = "Finished" in out_b
rc_t, out_t = sh("cd %s && cargo +nightly test --workspace --no-fail-fast --offline 2>&1 | grep -E '^test result|^test .* FAILED'" % wt)
groups = [l for l in out_t.splitlines() if l.startswith("test result")]
failed_tests = [l for l in out_t.splitlines() if "FAILED" in l and not l.startswith("test result")]
# tests the pinned baseline itself marks flaky / always failing in this sandbox do not count
try:
    _b = json.load(open("/root/.vp/BASELINE.json"))
    _unstable = set(n.split("::")[-1] for n in _b.get("flaky", []) + _b.get("always_fail", []))
except Exception:
    _unstable = set()
nonproc_failed = [l for l in failed_tests if "process::" not in l and l.split()[1] not in _unstable]
rc_dw, out_dw = sh("cd %s && bash %s/run_demo.sh %s" % (wt, src, wt), timeout=900)
clean()
rc_do, out_do = sh("cd %s && bash %s/run_demo.sh %s" % (wt, src, wt), timeout=900)
clean()
conf = {"build_with_change": built, "suite_groups": len(groups), "failed_tests_with_change": failed_tests,
        "demo_with_change_rc": rc_dw, "demo_without_change_rc": rc_do,
        "demo_with_change_tail": out_dw[-400:], "demo_without_change_tail": out_do[-300:]}
ok = built and not nonproc_failed and rc_dw != 0 and rc_do == 0
print(json.dumps(conf, indent=1))
if not ok:
    print("NOT CONFIRMED"); sys.exit(3)
rc_c, out_c = sh("/verif/tools/mutcheck.sh %s %s/patch.diff %s %s" % (prop, src, wt, tier), timeout=7200)
print(out_c)
verdict_lines = [l for l in out_c.splitlines() if "VIOLATION" in l or ("%s %s:" % (prop, tier)) in l]
caught = any("VIOLATION" in l for l in verdict_lines)
readme = open(os.path.join(src, "README.md")).read()
d = "/verif/seeded/%s" % tag
os.makedirs(d, exist_ok=True)
for f in os.listdir(src):
    if os.path.isfile(os.path.join(src, f)):
        shutil.copy(os.path.join(src, f), os.path.join(d, f))
base = subprocess.check_output("git -C %s rev-parse --short HEAD" % wt, shell=True).decode().strip()
meta = {"id": tag, "property": prop,
        "breaks": readme.split("\n\n")[0][:600] if readme else "",
        "needs_to_manifest": "see README.md (section on the trigger)",
        "produced_by": "independent sub-agent given only the property text and a scratch worktree (no access to /verif)",
        "base_commit": base,
        "confirmed_by_coordinator": {"command": "tools/seed_mutant.py %s %s %s %s" % (prop, k, tier, wave), "result": conf},
        "check_result": {"command": "tools/mutcheck.sh %s %s/patch.diff %s %s" % (prop, src, wt, tier),
                         "caught": caught, "verdict": verdict_lines}}
json.dump(meta, open(os.path.join(d, "meta.json"), "w"), indent=1)
print("SEEDED", d, "caught" if caught else "MISSED")
