#!/bin/bash
# usage: seedwave.sh WAVE NN:k [NN:k ...]
w=$1; shift
for it in "$@"; do nn=${it%%:*}; k=${it##*:}
  /verif/tools/seed_mutant.py C$nn $k quick $w > /tmp/seed$w-C$nn-$k.log 2>&1
  echo "C$nn-$w$k: $(tail -1 /tmp/seed$w-C$nn-$k.log)"
done
