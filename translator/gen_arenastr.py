#!/usr/bin/env python3
"""Regenerates coq/theories/GenArenaStr.v from the current source of src/arena/string.rs
(property C11, container layer): the API SURFACE of the arena's client containers and the
SHAPE of vec_replace_impl that theories/BumpVec.v models.

Read out of the file (regex over the text, comments stripped):
  api                   every item through which a client can reach the arena from this file:
                        `pub`/`pub(crate)` inherent methods of ArenaString, the methods of every
                        trait implemented for ArenaString (fmt::Write, Deref, ...), derived traits,
                        public traits with their impls (ReplaceRange for Vec<T, A>), free functions
                        and exported macros.  lib/props/c11.py maps history ops to these names and
                        lists the rest as 'not exercised' in the evidence, so that a newly added
                        method shows up there.
  may_allocate          per item: the body mentions a call that can request arena memory
  replace_ptr_after_reserve
                        vec_replace_impl takes the buffer address (`as_mut_ptr`) AFTER the
                        `reserve` call, which is the order BumpVec.vreplace models (the address
                        used for the tail shift and the copy is the one of the grown buffer)
  replace_clamps_range  vec_replace_impl clamps `off` to the length and `del_len` to the rest
The file is rewritten only when its content changes.  Exit status 2 with a message when the
source no longer has a shape this script can read."""
import os
import re
import sys

REPO = os.environ.get("VERIF_REPO", "/repo")
VERIF = os.path.dirname(os.path.dirname(os.path.abspath(__file__)))
OUT = os.path.join(VERIF, "coq", "theories", "GenArenaStr.v")

ALLOC_CALLS = re.compile(
    r"\b(reserve|reserve_exact|push|push_str|push_repeat|extend|extend_from_slice|extend_from_within|"
    r"with_capacity_in|from_str|clone|replace_range|vec_replace_impl|shrink_to_fit|write_fmt|"
    r"from_utf8_lossy|insert|resize|append|to_vec_in)\s*\(")


class TranslatorError(Exception):
    pass


def strip_comments(src):
    src = re.sub(r"/\*.*?\*/", "", src, flags=re.S)
    return re.sub(r"//[^\n]*", "", src)


def block_from(src, start, what):
    i = src.find("{", start)
    if i < 0:
        raise TranslatorError("%s: no body" % what)
    depth = 0
    for j in range(i, len(src)):
        if src[j] == "{":
            depth += 1
        elif src[j] == "}":
            depth -= 1
            if depth == 0:
                return i, j + 1
    raise TranslatorError("%s: unbalanced braces" % what)


FN = re.compile(r"(?P<vis>pub(?:\([a-z]+\))?\s+)?(?:const\s+)?(?:unsafe\s+)?(?:const\s+)?fn\s+(?P<name>\w+)")


def fns_in(body):
    """(name, is_public, text of the fn body) for every fn directly inside `body`."""
    res = []
    pos = 0
    while True:
        m = FN.search(body, pos)
        if not m:
            return res
        # signature ends at the first '{' or ';' after the name
        k = m.end()
        while k < len(body) and body[k] not in "{;":
            k += 1
        if k < len(body) and body[k] == "{":
            i, j = block_from(body, m.end(), m.group("name"))
            res.append((m.group("name"), bool(m.group("vis")), body[i:j]))
            pos = j
        else:
            res.append((m.group("name"), bool(m.group("vis")), ""))
            pos = k + 1


def api(repo=REPO):
    """Returns (items, flags): items = list of (name, may_allocate)."""
    path = os.path.join(repo, "src", "arena", "string.rs")
    src = strip_comments(open(path, encoding="utf-8").read())
    items = []
    consumed = []   # spans of impl/trait blocks
    # derives on the struct
    m = re.search(r"#\[derive\(([^)]*)\)\]\s*pub struct ArenaString", src)
    if not re.search(r"pub struct ArenaString", src):
        raise TranslatorError("struct ArenaString not found")
    if m:
        for d in [x.strip() for x in m.group(1).split(",") if x.strip()]:
            items.append(("ArenaString: %s (derived)" % d, d == "Clone"))
    for m in re.finditer(r"\bimpl\b(?P<head>[^{;]*)\{", src):
        head = " ".join(m.group("head").split())
        i, j = block_from(src, m.start(), "impl " + head)
        consumed.append((m.start(), j))
        body = src[i + 1:j - 1]
        tm = re.match(r"(?:<[^>]*>\s*)?(?P<trait>[\w:]+(?:<[^>]*>)?)\s+for\s+(?P<ty>.+)$", head)
        if tm:
            ty = re.sub(r"<'_>|<'a>", "", tm.group("ty")).strip()
            for name, _, text in fns_in(body):
                items.append(("%s as %s::%s" % (ty, tm.group("trait"), name), bool(ALLOC_CALLS.search(text))))
        else:
            ty = re.sub(r"^<[^>]*>\s*", "", head)
            ty = re.sub(r"<'_>|<'a>", "", ty).strip()
            for name, public, text in fns_in(body):
                if public:
                    items.append(("%s::%s" % (ty, name), bool(ALLOC_CALLS.search(text))))
    for m in re.finditer(r"\bpub\s+trait\s+(\w+)", src):
        i, j = block_from(src, m.end(), "trait " + m.group(1))
        consumed.append((m.start(), j))
    # free functions and macros outside impl/trait blocks
    outside = list(src)
    for a, b in consumed:
        for k in range(a, b):
            if outside[k] != "\n":
                outside[k] = " "
    outside = "".join(outside)
    for name, public, text in fns_in(outside):
        items.append(("fn %s%s" % (name, "" if public else " (private)"), bool(ALLOC_CALLS.search(text))))
    for m in re.finditer(r"#\[macro_export\]\s*macro_rules!\s*(\w+)", src):
        items.append(("%s!" % m.group(1), True))
    if not any(n == "ArenaString::push_str" for n, _ in items) or not any("vec_replace_impl" in n for n, _ in items):
        raise TranslatorError("src/arena/string.rs: ArenaString::push_str / vec_replace_impl not found; surface not readable")

    # shape of vec_replace_impl
    fm = re.search(r"\bfn\s+vec_replace_impl\b", src)
    i, j = block_from(src, fm.end(), "vec_replace_impl")
    body = re.sub(r"\s+", "", src[i:j])
    r = body.find("dst.reserve(")
    p = body.find("as_mut_ptr()")
    if r < 0 or p < 0:
        raise TranslatorError("vec_replace_impl: no `dst.reserve(` / `as_mut_ptr()` (shape not readable)")
    if body.find("as_mut_ptr()", p + 1) >= 0 or body.find("dst.reserve(", r + 1) >= 0:
        raise TranslatorError("vec_replace_impl: several reserve / as_mut_ptr calls (shape not readable)")
    flags = {
        "replace_ptr_after_reserve": r < p,
        "replace_clamps_range": "letoff=range.start.min(dst_len);" in body
                                and "letdel_len=range.end.saturating_sub(off).min(dst_len-off);" in body,
    }
    return items, flags


def main():
    try:
        items, flags = api()
    except (TranslatorError, OSError) as e:
        print("translator gen_arenastr: %s" % e)
        return 2
    lines = ["(* GENERATED by translator/gen_arenastr.py from src/arena/string.rs — do not edit. *)",
             "From Coq Require Import String List Bool.", "Import ListNotations.", "Open Scope string_scope.", "",
             "(* client-facing surface of the arena's containers: (item, body may request arena memory) *)",
             "Definition arena_string_api : list (string * bool) :=", "  ["]
    lines.append(";\n".join('   ("%s", %s)' % (n.replace('"', "'"), "true" if a else "false") for n, a in items))
    lines += ["  ].", ""]
    for k in sorted(flags):
        lines.append("Definition src_%s : bool := %s." % (k, "true" if flags[k] else "false"))
    text = "\n".join(lines) + "\n"
    if os.path.exists(OUT) and open(OUT).read() == text:
        print("translator: GenArenaStr.v unchanged")
    else:
        open(OUT, "w").write(text)
        print("translator: GenArenaStr.v rewritten (%d items)" % len(items))
    return 0


if __name__ == "__main__":
    sys.exit(main())
