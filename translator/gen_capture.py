#!/usr/bin/env python3
"""Regenerates coq/theories/GenCapture.v from /repo/src/sys/process_common.rs (property C16).

Read from the current source on every run (regex over the function bodies):
  * read_captured_stream: size of the stack chunk (`[0u8; 8_192]`), the overflow test
    (`buf.len().saturating_add(n) > max`, strict or not), the atomic update of the shared flag
    (`compare_exchange(0, overflow_code, ..)` = set-if-still-0, or an unconditional `store`),
    and whether the loop `break`s after it;
  * spawn_capture_reader: the overflow code each reader thread is started with;
  * stream_code / stream_from_code: the code each join compares with, and the decoding used by the
    wait loop;
  * wait_for_child: the order of {flag load, try_wait, deadline test, sleep} inside the loop,
    the deadline comparison (`>=` or `>`), the lower clamp of the poll interval, and that both
    error exits call terminate_child (kill + wait);
  * join_capture: whether and how the overflow flag is re-read after the join and before UTF-8
    validation (own code only / any recorded overflow / not at all);
  * run_host_process: join order on the success path and on the error path; which ProcessCaps field is handed
    to each reader as its limit and to the wait loop as its poll interval;
  * src/process.rs: the field list of ProcessCaps (declaration order) and, in ProcessCommand::validate, the
    fallback of an unset timeout (`self.timeout_ms.unwrap_or(caps.<field>)`) and its bounds.
The model (theories/Capture.v) takes these values from here, and proofs/CaptureProofs.v proves the
theorems for exactly these values, so an edit of the source that changes one of them either
re-checks or breaks the proof.  Rewritten only when the content changes.  Exit status 2 with a
message when the source no longer has the shape parsed here.
"""
import os
import re
import sys

REPO = os.environ.get("VERIF_REPO", "/repo")
VERIF = os.path.dirname(os.path.dirname(os.path.abspath(__file__)))
OUT = os.path.join(VERIF, "coq", "theories", "GenCapture.v")


class TranslatorError(Exception):
    pass


def fn_body(src, name):
    m = re.search(r"\bfn\s+%s\b" % re.escape(name), src)
    if not m:
        raise TranslatorError("fn %s not found" % name)
    # the body starts at the first '{' that follows the parameter list / return type
    depth_par = 0
    i = m.end()
    while i < len(src):
        c = src[i]
        if c in "(<[":
            depth_par += 1
        elif c in ")>]":
            # '->' contains '>' : do not count it
            if not (c == ">" and src[i - 1] == "-"):
                depth_par -= 1
        elif c == "{" and depth_par <= 0:
            break
        i += 1
    depth = 0
    for j in range(i, len(src)):
        if src[j] == "{":
            depth += 1
        elif src[j] == "}":
            depth -= 1
            if depth == 0:
                return src[i + 1:j]
    raise TranslatorError("unbalanced braces in fn %s" % name)


def strip_comments(src):
    src = re.sub(r"//[^\n]*", "", src)
    return re.sub(r"/\*.*?\*/", "", src, flags=re.S)


def num(t):
    return int(t.replace("_", ""))


def b(x):
    return "true" if x else "false"


def generate():
    path = os.path.join(REPO, "src", "sys", "process_common.rs")
    with open(path, encoding="utf-8") as f:
        src = strip_comments(f.read())

    # ---------------------------------------------------------------- reader
    rd = fn_body(src, "read_captured_stream")
    m = re.search(r"let\s+mut\s+chunk\s*=\s*\[\s*0u8\s*;\s*([\d_]+)\s*\]", rd)
    if not m:
        raise TranslatorError("read_captured_stream: chunk array not found")
    read_chunk = num(m.group(1))
    m = re.search(r"if\s+buf\.len\(\)\.saturating_add\(n\)\s*(>=|>)\s*max\s*\{(.*?)\}", rd, flags=re.S)
    if not m:
        raise TranslatorError("read_captured_stream: overflow test `buf.len().saturating_add(n) > max` not found")
    ovf_strict = m.group(1) == ">"
    ovf_block = m.group(2)
    if not re.search(r"let\s+max\s*=\s*cap\s+as\s+usize", rd):
        raise TranslatorError("read_captured_stream: `let max = cap as usize` not found")
    mcas = re.search(r"overflow\.compare_exchange\(\s*(\d+)\s*,\s*overflow_code\b", ovf_block)
    mstore = re.search(r"overflow\.(store|swap)\(\s*overflow_code\b", ovf_block)
    mor = re.search(r"overflow\.fetch_or\(\s*overflow_code\b", ovf_block)
    if mcas:
        flag_update, cas_expected = "FlagCas", int(mcas.group(1))
    elif mstore:
        flag_update, cas_expected = "FlagStore", 0
    elif mor:
        flag_update, cas_expected = "FlagOr", 0
    else:
        flag_update, cas_expected = "FlagNone", 0      # the reader stops without telling anybody
    ovf_breaks = bool(re.search(r"\bbreak\b", ovf_block))
    if not re.search(r"if\s+n\s*==\s*0\s*\{\s*break", rd):
        raise TranslatorError("read_captured_stream: EOF test `if n == 0 { break` not found")
    # the chunk is appended only after the overflow test
    if rd.find("buf.extend_from_slice") < rd.find("saturating_add"):
        raise TranslatorError("read_captured_stream: extend_from_slice precedes the overflow test")

    # ---------------------------------------------------------------- spawn
    sp = fn_body(src, "spawn_capture_reader")
    m1 = re.search(r"StreamReader::Stdout\(\w+\)\s*=>\s*read_captured_stream\(\s*\w+\s*,\s*cap\s*,\s*(\d+)\s*,", sp)
    m2 = re.search(r"StreamReader::Stderr\(\w+\)\s*=>\s*read_captured_stream\(\s*\w+\s*,\s*cap\s*,\s*(\d+)\s*,", sp)
    if not (m1 and m2):
        raise TranslatorError("spawn_capture_reader: reader start-up codes not found")
    rc1, rc2 = int(m1.group(1)), int(m2.group(1))
    if not re.search(r"if\s+policy\s*!=\s*OutputPolicy::Capture\s*\{\s*return\s+None", sp):
        raise TranslatorError("spawn_capture_reader: `policy != Capture => None` not found")

    if re.search(r"\bfn\s+stream_code\b", src):
        sc = fn_body(src, "stream_code")
        m1 = re.search(r"ProcessStream::Stdout\s*=>\s*(\d+)", sc)
        m2 = re.search(r"ProcessStream::Stderr\s*=>\s*(\d+)", sc)
        if not (m1 and m2):
            raise TranslatorError("stream_code: arms not found")
        jc1, jc2 = int(m1.group(1)), int(m2.group(1))
    else:
        jc1, jc2 = rc1, rc2        # no separate table: the joins can only use the readers' codes

    sf = fn_body(src, "stream_from_code")
    arms = re.findall(r"(\d+|_)\s*=>\s*ProcessStream::(Stdout|Stderr)", sf)
    if not arms or arms[-1][0] != "_":
        raise TranslatorError("stream_from_code: expected literal arms followed by `_ =>`")
    from_arms = [(int(k), v) for k, v in arms[:-1]]
    from_default = arms[-1][1]

    # ---------------------------------------------------------------- wait loop
    wf = fn_body(src, "wait_for_child")
    mloop = re.search(r"\bloop\s*\{", wf)
    if not mloop:
        raise TranslatorError("wait_for_child: loop not found")
    lp = wf[mloop.end():]
    pos = {
        "WFlagCheck": lp.find("overflow.load("),
        "WTryWait": lp.find("child.try_wait()"),
        "WDeadlineCheck": lp.find("start.elapsed()"),
        "WSleepStep": lp.find("thread::sleep("),
    }
    if min(pos.values()) < 0:
        raise TranslatorError("wait_for_child: loop steps not all found: %r" % pos)
    order = [k for k, _ in sorted(pos.items(), key=lambda kv: kv[1])]
    m = re.search(r"start\.elapsed\(\)\s*(>=|>)\s*timeout", lp)
    if not m:
        raise TranslatorError("wait_for_child: deadline comparison not found")
    deadline_ge = m.group(1) == ">="
    m = re.search(r"wait_poll_ms\.max\(\s*(\d+)\s*\)", wf)
    poll_min = int(m.group(1)) if m else 0
    m = re.search(r"if\s+overflow_code\s*!=\s*0\s*\{(.*?)\}", lp, flags=re.S)
    if not m:
        raise TranslatorError("wait_for_child: `if overflow_code != 0` not found")
    flag_exit_kills = "terminate_child(child)" in m.group(1) and "OutputLimitExceeded(stream_from_code(overflow_code))" in re.sub(r"\s+", "", m.group(1))
    m = re.search(r"if\s+start\.elapsed\(\)\s*(?:>=|>)\s*timeout\s*\{(.*?)\}", lp, flags=re.S)
    timeout_exit_kills = bool(m) and "terminate_child(child)" in m.group(1) and "ProcessError::Timeout" in m.group(1)
    tc = fn_body(src, "terminate_child")
    kill_then_wait = 0 <= tc.find("child.kill()") < tc.find("child.wait()")

    # ---------------------------------------------------------------- join
    jc = fn_body(src, "join_capture")
    p_join = jc.find(".join()")
    p_utf = jc.find("String::from_utf8(")
    if p_join < 0 or p_utf < 0:
        raise TranslatorError("join_capture: join / from_utf8 not found")
    between = jc[p_join:p_utf]
    # (a) only the joined stream's own code fails the join
    m_own = re.search(r"if\s+overflow\.load\([^)]*\)\s*==\s*stream_code\(stream\)\s*\{\s*return\s+Err\(ProcessError::OutputLimitExceeded\(stream\)\)", between)
    # (b) any recorded overflow fails the join, reported for the recorded stream
    m_any = re.search(r"let\s+(\w+)\s*=\s*overflow\.load\([^)]*\)\s*;\s*if\s+\1\s*!=\s*0\s*\{\s*return\s+Err\(\s*ProcessError::OutputLimitExceeded\(\s*stream_from_code\(\1\)\s*\)\s*\)", between)
    if m_own and not m_any:
        join_recheck = "RecheckOwn"
    elif m_any and not m_own:
        join_recheck = "RecheckAny"
    elif "overflow" not in between:
        join_recheck = "RecheckNone"
    else:
        raise TranslatorError("join_capture: the overflow re-check between join and from_utf8 has a shape I do not know")
    if not re.search(r"let\s+Some\(handle\)\s*=\s*reader\s+else\s*\{\s*return\s+Ok\(None\)", jc):
        raise TranslatorError("join_capture: `None reader => Ok(None)` not found")
    utf8_err = bool(re.search(r"String::from_utf8\(bytes\)\.map_err\(\|_\|\s*ProcessError::InvalidUtf8\(stream\)\)", jc))

    # ---------------------------------------------------------------- run_host_process
    rh = fn_body(src, "run_host_process")
    mm = re.search(r"Err\(err\)\s*=>\s*\{(.*?)return\s+Err\(err\)", rh, flags=re.S)
    if not mm:
        raise TranslatorError("run_host_process: error arm of wait_for_child not found")
    err_arm = mm.group(1)
    err_joins = re.findall(r"join_capture\(\s*(stdout|stderr)\b", err_arm)
    rest = rh[mm.end():]
    ok_joins = re.findall(r"join_capture\(\s*(stdout|stderr)\s*,[^;]*\)\s*\?", rest)
    if not re.search(r"exit_code:\s*status\.code\(\)", rest):
        raise TranslatorError("run_host_process: exit_code: status.code() not found")

    # ---------------------------------------------------------------- which cap feeds what
    # run_host_process: the limit handed to each reader, the poll interval and the deadline handed to the wait loop
    rd_caps = {}
    for mm2 in re.finditer(r"spawn_capture_reader\(\s*&mut\s+child\s*,\s*spec\.(stdout|stderr)\s*,\s*caps\.(\w+)\s*,\s*ProcessStream::(Stdout|Stderr)", rh):
        if mm2.group(1).lower() != mm2.group(3).lower():
            raise TranslatorError("run_host_process: reader for %s is given policy %s" % (mm2.group(3), mm2.group(1)))
        rd_caps[mm2.group(3)] = mm2.group(2)
    if set(rd_caps) != {"Stdout", "Stderr"}:
        raise TranslatorError("run_host_process: the two spawn_capture_reader calls were not both found")
    mw = re.search(r"wait_for_child\(\s*&mut\s+child\s*,\s*caps\.(\w+)\s*,\s*spec\.(\w+)\s*,\s*&overflow\s*\)", rh)
    if not mw:
        raise TranslatorError("run_host_process: wait_for_child(&mut child, caps.<poll>, spec.<timeout>, &overflow) not found")
    poll_field, wait_timeout_src = mw.group(1), mw.group(2)
    # src/process.rs: the field list of ProcessCaps and how validate() derives the deadline
    with open(os.path.join(REPO, "src", "process.rs"), encoding="utf-8") as f:
        psrc = strip_comments(f.read())
    ms = re.search(r"pub\s+struct\s+ProcessCaps\s*\{(.*?)\}", psrc, flags=re.S)
    if not ms:
        raise TranslatorError("process.rs: struct ProcessCaps not found")
    cap_fields = re.findall(r"pub\s+(\w+)\s*:\s*\w+", ms.group(1))
    if not cap_fields:
        raise TranslatorError("process.rs: ProcessCaps has no fields?")
    vb = fn_body(psrc, "validate")
    mt = re.search(r"let\s+timeout_ms\s*=\s*self\.timeout_ms\.unwrap_or\(\s*caps\.(\w+)\s*\)", vb)
    if not mt:
        raise TranslatorError("validate: `let timeout_ms = self.timeout_ms.unwrap_or(caps.<field>)` not found")
    fallback_field = mt.group(1)
    zero_rejected = bool(re.search(r"if\s+timeout_ms\s*==\s*0\s*\{\s*return\s+Err", vb))
    mu = re.search(r"if\s+timeout_ms\s*(>=|>)\s*caps\.(\w+)\s*\{\s*return\s+Err", vb)
    if not mu:
        raise TranslatorError("validate: upper bound test on timeout_ms not found")
    upper_strict, upper_field = mu.group(1) == ">", mu.group(2)
    if not re.search(r"\btimeout_ms\s*,?\s*\}\)", vb) and not re.search(r"timeout_ms\s*,\s*\n?\s*\}\)", vb):
        raise TranslatorError("validate: ProcessSpec { .. timeout_ms } not found")
    for fld in [rd_caps["Stdout"], rd_caps["Stderr"], poll_field, fallback_field, upper_field]:
        if fld not in cap_fields:
            raise TranslatorError("caps.%s is not a field of ProcessCaps" % fld)

    def strm(x):
        return {"stdout": "S1", "stderr": "S2", "Stdout": "S1", "Stderr": "S2"}[x]

    L = []
    A = L.append
    A("(* GENERATED by translator/gen_capture.py from %s/src/sys/process_common.rs — do not edit. *)" % "<repo>")
    A("From Coq Require Import ZArith List Bool.")
    A("Import ListNotations.")
    A("Open Scope Z_scope.")
    A("")
    A("Inductive stream := S1 | S2.            (* S1 = stdout, S2 = stderr *)")
    A("Inductive flag_update_kind := FlagCas | FlagStore | FlagOr | FlagNone.")
    A("Inductive wait_step := WFlagCheck | WTryWait | WDeadlineCheck | WSleepStep.")
    A("Inductive recheck_mode := RecheckNone | RecheckOwn | RecheckAny.")
    A("")
    A("(* read_captured_stream *)")
    A("Definition read_chunk : Z := %d." % read_chunk)
    A("Definition ovf_strict : bool := %s.       (* overflow test is  len + n > cap  (true) or >= (false) *)" % b(ovf_strict))
    A("Definition flag_update : flag_update_kind := %s." % flag_update)
    A("Definition cas_expected : Z := %d." % cas_expected)
    A("Definition ovf_breaks : bool := %s." % b(ovf_breaks))
    A("(* spawn_capture_reader: code handed to each reader thread *)")
    A("Definition reader_code (s : stream) : Z := match s with S1 => %d | S2 => %d end." % (rc1, rc2))
    A("(* stream_code: code join_capture compares the flag with *)")
    A("Definition join_code (s : stream) : Z := match s with S1 => %d | S2 => %d end." % (jc1, jc2))
    A("(* stream_from_code: decoding used by the wait loop *)")
    body = " else ".join("if z =? %d then %s" % (k, strm(v)) for k, v in from_arms)
    A("Definition from_code (z : Z) : stream := %s else %s." % (body, strm(from_default)) if from_arms
      else "Definition from_code (z : Z) : stream := %s." % strm(from_default))
    A("(* wait_for_child *)")
    A("Definition wait_loop_order : list wait_step := [%s]." % "; ".join(order))
    A("Definition deadline_ge : bool := %s.      (* elapsed >= timeout (true) or > (false) *)" % b(deadline_ge))
    A("Definition poll_min : Z := %d." % poll_min)
    A("Definition flag_exit_kills : bool := %s." % b(flag_exit_kills))
    A("Definition timeout_exit_kills : bool := %s." % b(timeout_exit_kills))
    A("Definition kill_then_wait : bool := %s." % b(kill_then_wait))
    A("(* join_capture *)")
    A("(* flag re-read after the join and before UTF-8 validation: not at all / fails only on the joined")
    A("   stream's own code / fails on any recorded overflow (reported for the recorded stream) *)")
    A("Definition join_recheck_mode : recheck_mode := %s." % join_recheck)
    A("Definition utf8_checked : bool := %s." % b(utf8_err))
    A("(* run_host_process *)")
    A("Definition err_join_order : list stream := [%s]." % "; ".join(strm(x) for x in err_joins))
    A("Definition ok_join_order : list stream := [%s]." % "; ".join(strm(x) for x in ok_joins))
    A("")
    A("(* ProcessCaps (src/process.rs), in declaration order, and which field feeds what *)")
    A("Inductive cap_field := %s." % " | ".join("F_" + f for f in cap_fields))
    A("Definition all_cap_fields : list cap_field := [%s]." % "; ".join("F_" + f for f in cap_fields))
    A("Definition cap_field_index (f : cap_field) : nat :=\n  match f with %s end." %
      " | ".join("F_%s => %d" % (f, i) for i, f in enumerate(cap_fields)))
    A("(* run_host_process: limit handed to each reader thread, poll interval handed to the wait loop *)")
    A("Definition reader_cap_field (s : stream) : cap_field := match s with S1 => F_%s | S2 => F_%s end." %
      (rd_caps["Stdout"], rd_caps["Stderr"]))
    A("Definition poll_field : cap_field := F_%s." % poll_field)
    A("Definition wait_deadline_is_spec_timeout : bool := %s." % b(wait_timeout_src == "timeout_ms"))
    A("(* ProcessCommand::validate: timeout_ms.unwrap_or(caps.<fallback>); rejected when 0 or above caps.<upper> *)")
    A("Definition timeout_fallback_field : cap_field := F_%s." % fallback_field)
    A("Definition timeout_upper_field : cap_field := F_%s." % upper_field)
    A("Definition timeout_upper_strict : bool := %s.   (* rejected iff timeout > upper (true) or >= (false) *)" % b(upper_strict))
    A("Definition timeout_zero_rejected : bool := %s." % b(zero_rejected))
    A("")
    return "\n".join(L)


def main():
    try:
        text = generate()
    except (TranslatorError, OSError) as e:
        print("gen_capture: %s" % e)
        sys.exit(2)
    old = open(OUT, encoding="utf-8").read() if os.path.exists(OUT) else None
    if old != text:
        with open(OUT, "w", encoding="utf-8") as f:
            f.write(text)
        print("gen_capture: GenCapture.v rewritten")


if __name__ == "__main__":
    main()
