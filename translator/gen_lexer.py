#!/usr/bin/env python3
"""Regenerates coq/theories/GenLexer.v from /repo/src/syntax/{token,scanner}.rs.

What is read (regex over the source text, no Rust parser):
  * `enum Token` variants, in declaration order            -> Inductive tok, tok_index, tok_name
  * `enum LexError` variants + `as_str` messages            -> Inductive lexerr, lexerr_index, lexerr_name
  * `scan_identifier_or_keyword`: the one-word keyword arms -> keyword_table
      and the multi-word blocks (`if word == "if" { try_consume_word.. }`) -> multi_table
  * `scan_punctuation` arms                                 -> punct_table
  * `scan_string` escape arms                               -> escapes_plain / escapes_quote
  * `Token::is_reserved_keyword`                            -> reserved_toks
  * two behaviour switches of the lexer that matter for C07 (DESIGN section 7 row 10 and the
    multi-byte escape): whether scan_number skips one more byte after `1.<non-digit>` and whether
    an unknown escape advances by exactly two bytes                       -> variant_of_source
The file is rewritten only when its content changes.  Exit status 2 with a message when the
source no longer has the shape parsed here.
"""
import os
import re
import sys

REPO = os.environ.get("VERIF_REPO", "/repo")
VERIF = os.path.dirname(os.path.dirname(os.path.abspath(__file__)))
OUT = os.path.join(VERIF, "coq", "theories", "GenLexer.v")


class TranslatorError(Exception):
    pass


def read(rel):
    with open(os.path.join(REPO, rel), encoding="utf-8") as f:
        return f.read()


def strip_comments(src):
    return re.sub(r"//[^\n]*", "", src)


def fn_body(src, name):
    """Text of `fn name(...) ... { body }` by brace matching (string/char literals respected)."""
    m = re.search(r"\bfn\s+%s\s*[(<]" % re.escape(name), src)
    if not m:
        raise TranslatorError("fn %s not found" % name)
    i = src.index("{", m.end())
    depth, j, n = 0, i, len(src)
    while j < n:
        c = src[j]
        if c == '"':
            j += 1
            while src[j] != '"':
                j += 2 if src[j] == "\\" else 1
        elif c == "'" and re.match(r"'(\\.|[^\\'])'", src[j:j + 4]):
            j += len(re.match(r"'(\\.|[^\\'])'", src[j:j + 4]).group(0)) - 1
        elif c == "{":
            depth += 1
        elif c == "}":
            depth -= 1
            if depth == 0:
                return src[i + 1:j]
        j += 1
    raise TranslatorError("unbalanced braces in fn %s" % name)


def block_after(src, header_re):
    m = re.search(header_re, src)
    if not m:
        raise TranslatorError("block %s not found" % header_re)
    i = src.index("{", m.end() - 1)
    depth = 0
    for j in range(i, len(src)):
        if src[j] == "{":
            depth += 1
        elif src[j] == "}":
            depth -= 1
            if depth == 0:
                return src[i + 1:j]
    raise TranslatorError("unbalanced braces after %s" % header_re)


def byte_of_lit(lit):
    """b'x' / 'x' literal body (without quotes) -> int"""
    esc = {"\\n": 10, "\\t": 9, "\\r": 13, "\\\\": 92, "\\'": 39, '\\"': 34, "\\0": 0}
    if lit in esc:
        return esc[lit]
    if len(lit) == 1:
        return ord(lit)
    raise TranslatorError("unsupported byte literal %r" % lit)


def zbytes(s):
    return "[" + "; ".join(str(b) for b in s.encode()) + "]"


def generate():
    token_rs = strip_comments(read("src/syntax/token.rs"))
    scanner_rs_raw = read("src/syntax/scanner.rs")
    scanner_rs = strip_comments(scanner_rs_raw)

    # ---- enum Token
    body = block_after(token_rs, r"pub\s+enum\s+Token\s*<[^>]*>\s*\{")
    variants = []
    for line in body.splitlines():
        line = line.strip()
        if not line or line.startswith("#["):
            continue
        m = re.match(r"([A-Z]\w*)\s*(\(.*\))?\s*,$", line)
        if not m:
            raise TranslatorError("enum Token: cannot read line %r" % line)
        variants.append(m.group(1))
    for need in ("String", "Identifier", "Number", "EOF"):
        if need not in variants:
            raise TranslatorError("enum Token lacks %s" % need)

    # ---- enum LexError + messages
    body = block_after(scanner_rs, r"pub\s+enum\s+LexError\s*\{")
    lexerrs = [v for v in re.findall(r"\b([A-Z]\w*)\s*,", body)]
    msgs = dict(re.findall(r"LexError::(\w+)\s*=>\s*\"([^\"]*)\"", scanner_rs))
    if not lexerrs or set(lexerrs) != set(msgs):
        raise TranslatorError("LexError variants and as_str arms differ: %s vs %s" % (lexerrs, sorted(msgs)))

    # ---- keywords
    ident = fn_body(scanner_rs, "scan_identifier_or_keyword")
    mm = re.search(r"match\s+word\s*\{(.*)", ident, re.S)
    if not mm:
        raise TranslatorError("scan_identifier_or_keyword: `match word` not found")
    kw = re.findall(r"\"(\w+)\"\s*=>\s*Token::(\w+)\s*,", mm.group(1))
    if len(kw) < 5:
        raise TranslatorError("keyword arms not found")
    pre = ident[:mm.start()]
    multi = []
    for bm in re.finditer(r"if\s+word\s*==\s*\"(\w+)\"\s*\{", pre):
        blk = block_after(pre[bm.start():], r"if\s+word\s*==\s*\"\w+\"\s*\{")
        alts = []
        for am in re.finditer(r"if\s+((?:self\.try_consume_word\(\"\w+\"\)\s*(?:&&\s*)?)+)\{\s*return\s+Token::(\w+)\s*;", blk):
            words = re.findall(r"try_consume_word\(\"(\w+)\"\)", am.group(1))
            alts.append((words, am.group(2)))
        fb = re.search(r"self\.pos\s*=\s*save\s*;\s*return\s+Token::Identifier\(\"(\w+)\"\)\s*;", blk)
        if not alts or not fb or fb.group(1) != bm.group(1):
            raise TranslatorError("multi-word block for %r has an unexpected shape" % bm.group(1))
        if len(re.findall(r"try_consume_word", blk)) != sum(len(w) for w, _ in alts):
            raise TranslatorError("multi-word block for %r: unparsed try_consume_word" % bm.group(1))
        multi.append((bm.group(1), alts))
    if len(re.findall(r"word\s*==", ident)) != len(multi):
        raise TranslatorError("scan_identifier_or_keyword: unparsed `word ==` test")
    for _, k in kw:
        if k not in variants:
            raise TranslatorError("keyword maps to unknown token %s" % k)

    # ---- punctuation
    punct_body = fn_body(scanner_rs_raw, "scan_punctuation")
    punct = re.findall(r"b'(\\?.)'\s*=>\s*\{\s*self\.pos\s*\+=\s*1;\s*Some\(Token::(\w+)\)\s*\}", punct_body)
    arms = len(re.findall(r"=>", punct_body))
    if not punct or arms != len(punct) + 1:
        raise TranslatorError("scan_punctuation: %d arms, %d parsed" % (arms, len(punct)))

    # ---- escapes
    sbody = fn_body(scanner_rs_raw, "scan_string")
    em = re.search(r"match\s+esc\s*\{(.*?)\n\s*_\s*=>", sbody, re.S)
    if not em:
        raise TranslatorError("scan_string: `match esc` not found")
    esc_plain, esc_quote = [], []
    n_arms = 0
    for line in em.group(1).splitlines():
        line = line.strip()
        if not line:
            continue
        n_arms += 1
        m1 = re.match(r"b'(\\?.)'\s*=>\s*buffer\.push\('(\\?.)'\),$", line)
        m2 = re.match(r"b'(\\?.)'\s+if\s+quote\s*==\s*b'(\\?.)'\s*=>\s*buffer\.push\('(\\?.)'\),$", line)
        if m1:
            esc_plain.append((byte_of_lit(m1.group(1)), byte_of_lit(m1.group(2))))
        elif m2:
            if byte_of_lit(m2.group(1)) != byte_of_lit(m2.group(3)):
                raise TranslatorError("quote escape pushes a different character: %r" % line)
            esc_quote.append((byte_of_lit(m2.group(1)), byte_of_lit(m2.group(2))))
        else:
            raise TranslatorError("scan_string: cannot read escape arm %r" % line)
    quotes = re.search(r"if\s+b\s*==\s*b'(\\?.)'\s*\|\|\s*b\s*==\s*b'(\\?.)'\s*\{\s*let\s+token\s*=\s*self\.scan_string", scanner_rs_raw)
    if not quotes:
        raise TranslatorError("next_token: string quote test not found")
    quote_bytes = [byte_of_lit(quotes.group(1)), byte_of_lit(quotes.group(2))]

    # ---- behaviour switches
    nbody = fn_body(scanner_rs, "scan_number")
    m = re.search(r"LexError::InvalidNumber(.*?)return\s+self\.next_token\(\)\.token\s*;", nbody, re.S)
    if not m:
        raise TranslatorError("scan_number: bad-dot branch not found")
    tail = m.group(1)
    tail = tail[tail.rindex(");") + 2:] if ");" in tail else tail
    tail = tail.strip()
    if tail == "":
        skip_after_dot = False
    elif re.fullmatch(r"self\.pos\s*\+=\s*1\s*;", tail):
        skip_after_dot = True
    else:
        raise TranslatorError("scan_number: unexpected statements after the InvalidNumber diagnostic: %r" % tail)
    sb = strip_comments(sbody)
    if re.search(r"self\.pos\s*=\s*pos\s*\+\s*2\s*;", sb) and "esc_len" not in sb:
        escape_bytewise = True
    elif re.search(r"self\.pos\s*=\s*pos\s*\+\s*1\s*\+\s*esc_len\s*;", sb) and re.search(r"esc_len\s*=\s*\w+\.len_utf8\(\)", sb):
        escape_bytewise = False
    else:
        raise TranslatorError("scan_string: cannot tell how far an escape advances the cursor")

    # ---- diagnostics.rs: TAB_WIDTH
    diag_rs = strip_comments(read("src/diagnostics.rs"))
    tm = re.search(r"const\s+TAB_WIDTH\s*:\s*usize\s*=\s*(\d+)\s*;", diag_rs)
    if not tm or int(tm.group(1)) < 1:
        raise TranslatorError("diagnostics.rs: TAB_WIDTH not found")
    tab_width = int(tm.group(1))

    # ---- reserved keywords
    rbody = fn_body(token_rs, "is_reserved_keyword")
    reserved = re.findall(r"Token::(\w+)", rbody)

    L = []
    A = L.append
    A("(* GENERATED by translator/gen_lexer.py from %s/src/syntax/{token,scanner}.rs — do not edit. *)" % REPO)
    A("From Coq Require Import ZArith List Bool.")
    A("Import ListNotations.")
    A("Open Scope Z_scope.")
    A("")
    A("(* enum Token (payloads dropped: the lexer model carries the payload separately) *)")
    A("Inductive tok : Set :=\n" + "\n".join("  | T%s" % v for v in variants) + ".")
    A("Definition tok_index (k : tok) : Z :=\n  match k with\n" +
      "\n".join("  | T%s => %d" % (v, i) for i, v in enumerate(variants)) + "\n  end.")
    A("Definition tok_eqb (a b : tok) : bool := Z.eqb (tok_index a) (tok_index b).")
    A("Definition tok_name (k : tok) : list Z :=\n  match k with\n" +
      "\n".join("  | T%s => %s" % (v, zbytes(v)) for v in variants) + "\n  end.")
    A("Definition all_toks : list tok := [" + "; ".join("T" + v for v in variants) + "].")
    A("")
    A("(* enum LexError and LexError::as_str *)")
    A("Inductive lexerr : Set :=\n" + "\n".join("  | E%s" % v for v in lexerrs) + ".")
    A("Definition lexerr_index (e : lexerr) : Z :=\n  match e with\n" +
      "\n".join("  | E%s => %d" % (v, i) for i, v in enumerate(lexerrs)) + "\n  end.")
    A("Definition lexerr_msg (e : lexerr) : list Z :=\n  match e with\n" +
      "\n".join("  | E%s => %s" % (v, zbytes(msgs[v])) for v in lexerrs) + "\n  end.")
    A("")
    A("(* scan_identifier_or_keyword: `match word { \"make\" => Token::Make, ... }` *)")
    A("Definition keyword_table : list (list Z * tok) :=\n  [ " +
      ";\n    ".join("(%s, T%s) (* %s *)" % (zbytes(w), k, w) for w, k in kw) + " ].")
    A("")
    A("(* multi-word keywords: first word, then the alternatives tried in source order; each")
    A("   alternative is the list of words handed to try_consume_word joined by && *)")
    A("Definition multi_table : list (list Z * list (list (list Z) * tok)) :=\n  [ " +
      ";\n    ".join("(%s, [%s]) (* %s *)" % (
          zbytes(w), "; ".join("([%s], T%s)" % ("; ".join(zbytes(x) for x in ws), k) for ws, k in alts),
          w + ": " + " | ".join(" ".join(ws) for ws, _ in alts)) for w, alts in multi) + " ].")
    A("")
    A("(* scan_punctuation *)")
    A("Definition punct_table : list (Z * tok) := [" +
      "; ".join("(%d, T%s)" % (byte_of_lit(c), k) for c, k in punct) + "].")
    A("")
    A("(* next_token: bytes that open a string literal *)")
    A("Definition quote_bytes : list Z := [%s]." % "; ".join(str(q) for q in quote_bytes))
    A("(* scan_string: `match esc`: (escape byte, pushed byte) and (escape byte, required quote) *)")
    A("Definition escapes_plain : list (Z * Z) := [" + "; ".join("(%d, %d)" % p for p in esc_plain) + "].")
    A("Definition escapes_quote : list (Z * Z) := [" + "; ".join("(%d, %d)" % p for p in esc_quote) + "].")
    A("")
    A("(* Token::is_reserved_keyword *)")
    A("Definition reserved_toks : list tok := [" + "; ".join("T" + r for r in reserved) + "].")
    A("")
    A("(* src/diagnostics.rs *)")
    A("Definition tab_width : nat := %d%%nat." % tab_width)
    A("")
    A("(* Behaviour switches read off the source (see Lexer.v, Record variant):")
    A("   src_skip_byte_after_bad_dot: scan_number executes `self.pos += 1` after reporting `1.<non-digit>`;")
    A("   src_escape_two_bytes: an unknown escape `\\c` advances the cursor by exactly two bytes, whatever")
    A("   the width of c. *)")
    A("Definition src_skip_byte_after_bad_dot : bool := %s." % ("true" if skip_after_dot else "false"))
    A("Definition src_escape_two_bytes : bool := %s." % ("true" if escape_bytewise else "false"))
    A("")
    return "\n".join(L) + "\n"


def main():
    text = generate()
    old = None
    if os.path.exists(OUT):
        with open(OUT, encoding="utf-8") as f:
            old = f.read()
    if old != text:
        with open(OUT, "w", encoding="utf-8") as f:
            f.write(text)
        print("translator: GenLexer.v rewritten")
    else:
        print("translator: GenLexer.v unchanged")


if __name__ == "__main__":
    try:
        main()
    except TranslatorError as e:
        print("translator: ERROR (gen_lexer) %s" % e)
        sys.exit(2)
