#!/usr/bin/env python3
"""Regenerates coq/theories/GenMem.v from the current source of src/runtime.rs,
src/arena/cow.rs and src/process.rs (property C02): WHERE the evaluator copies or promotes a value before it is
stored, and in which ORDER relocate_return_value stages, resets and rebuilds.

Read out of the function bodies (regex over the text, comments stripped):
  src_clone_copies      Value::clone_into, `Str(ArenaCow::Owned(s))` arm: builds a fresh
                        `ArenaString::from_str(arena, ...)` (true) or a Borrowed alias
                        (`as_arena_str` / `.clone()`) of the same bytes (false)
  src_var_read_clones   eval_expr, Var arm: lookup_local / lookup_var, which clone_into(frame)
  src_args_evaluated    eval_function_call / eval_builtin_call: every argument value is `self.eval_expr(arg_expr)?`
                        (no shortcut that borrows a variable's storage until the parameters are bound)
  src_clone_rebuilds    Value::clone_into, Array arm: a new Vec in the target arena, every element cloned
  src_promote_rebuilds  Value::promote, Array arm: a new Vec in the persistent arena and EVERY element
                        promoted recursively, without a shortcut that moves a nested value as it is
                        (an empty nested Vec has no buffer but still carries its allocator)
  src_bind_promotes     eval_function_call: the argument bound as a parameter slot goes through
                        `.promote(&self.pool, self.frame)` when a frame arena is in use
  src_relocate_stages   relocate_return_value, frame-string branch: the copy to the persistent
                        arena is taken BEFORE `self.frame.reset(frame_offset)` and the rebuild on
                        the frame AFTER it, and the staging mark is reset last
  src_relocate_arrays   relocate_return_value: arrays (possibly together with other heap-backed kinds) are
                        promoted before the frame reset
  src_stores_promote    every other store site promotes: define_var, define_bound_local,
                        overwrite_slot (after returning the old slot), assign_index, push, shout
  src_promote_copies    ArenaCow::promote: a Borrowed string inside the frame or a pool slot, and an
                        Owned string of another arena than the persistent one, are copied with
                        `pool.alloc_str`
  src_host_discipline   host values (process builders / results) are boxed records; HostHandle::promote looks at the
                        HANDLE's address only, so every string stored inside a record must already be persistent:
                        eval_process_command_call_mut builds arg / env value / stdin text with
                        `GlobalBuiltin::to_string(self.arena, ..)`, cwd / env key with eval_required_string, which copies
                        with `ArenaString::from_str(self.arena, &text)`, and never mentions `self.frame`;
                        eval_process_command_call runs the child with `self.arena` as the capture arena and boxes the
                        result in `self.arena`; Value::clone_into / Value::promote delegate to HostHandle::clone_into /
                        promote; relocate_return_value promotes `Value::Host(_)` before the reset; in src/process.rs
                        HostHandle::promote copies a frame handle with `clone_into(pool.arena())`, and
                        ProcessCommand / EnvPair / ProcessResult::clone_into copy every string with
                        `ArenaString::from_str(arena, ..)`
The file is rewritten only when its content changes.  Exit status 2 with a message when a
function no longer has a shape this script can read (neither the expected form nor a known
variant)."""
import os
import re
import sys

REPO = os.environ.get("VERIF_REPO", "/repo")
VERIF = os.path.dirname(os.path.dirname(os.path.abspath(__file__)))
OUT = os.path.join(VERIF, "coq", "theories", "GenMem.v")


class TranslatorError(Exception):
    pass


def strip_comments(src):
    src = re.sub(r"/\*.*?\*/", "", src, flags=re.S)
    return re.sub(r"//[^\n]*", "", src)


def body_from(src, start, what):
    i = src.find("{", start)
    if i < 0:
        raise TranslatorError("%s: no body" % what)
    depth = 0
    for j in range(i, len(src)):
        if src[j] == "{":
            depth += 1
        elif src[j] == "}":
            depth -= 1
            if depth == 0:
                return src[i:j + 1]
    raise TranslatorError("%s: unbalanced braces" % what)


def fn_body(src, name):
    m = re.search(r"\bfn\s+%s\s*(?:<[^>]*>)?\s*\(" % re.escape(name), src)
    if not m:
        raise TranslatorError("function %s not found" % name)
    return body_from(src, m.end(), name)


def squash(s):
    return re.sub(r"\s+", "", s)


def generate():
    rt = strip_comments(open(os.path.join(REPO, "src", "runtime.rs"), encoding="utf-8").read())
    cow = strip_comments(open(os.path.join(REPO, "src", "arena", "cow.rs"), encoding="utf-8").read())
    flags = {}

    # ---- Value::clone_into
    b = squash(fn_body(rt, "clone_into"))
    m = re.search(r"Value::Str\(ArenaCow::Owned\(s\)\)=>(.*?)Value::Number", b)
    if not m:
        raise TranslatorError("clone_into: the Owned-string arm was not found")
    arm = m.group(1)
    if "ArenaString::from_str(arena,s.as_str())" in arm and "Borrowed" not in arm:
        flags["src_clone_copies"] = True
    elif "Borrowed" in arm or ".clone()" in arm or "as_arena_str" in arm:
        flags["src_clone_copies"] = False
    else:
        raise TranslatorError("clone_into: the Owned-string arm neither copies with ArenaString::from_str nor aliases")

    # ---- Value::clone_into / Value::promote, Array arms: every nested value is rebuilt unconditionally
    flags["src_clone_rebuilds"] = (
        "Value::Array(items)=>{letmutnew=Vec::with_capacity_in(items.len(),arena);"
        "foriteminitems{new.push(item.clone_into(arena));}Value::Array(new)}" in b)
    pb = squash(fn_body(rt, "promote"))
    if "Value::Array(items)=>" not in pb:
        raise TranslatorError("Value::promote: the Array arm was not found")
    flags["src_promote_rebuilds"] = (
        "Value::Array(items)=>{letmutpromoted=Vec::with_capacity_in(items.len(),pool.arena());"
        "foriteminitems{promoted.push(item.promote(pool,frame));}Value::Array(promoted)}" in pb
        and "Value::Str(cow)=>Value::Str(cow.promote(pool,frame))" in pb)

    # ---- every value an expression yields for a variable goes through clone_into
    ev = squash(fn_body(rt, "eval_expr"))
    flags["src_var_read_clones"] = (
        "Expr::Var(v,..)=>{letframe=self.frame;letval=ifletSome(local)=self.bound_expr_local(expr)"
        "{self.lookup_local(local,frame)}else{self.lookup_var(v,frame)}" in ev
        and "self.lookup_local_env(local).map(|value|value.clone_into(clone_arena))" in squash(fn_body(rt, "lookup_local"))
        and "self.lookup_env(name).map(|v|v.clone_into(clone_arena))" in squash(fn_body(rt, "lookup_var")))

    # ---- parameter binding in eval_function_call
    b = squash(fn_body(rt, "eval_function_call"))
    # every argument value comes from eval_expr (no borrowed / by-reference shortcut for some argument shapes)
    flags["src_args_evaluated"] = (
        "forarg_exprinargs.args{arg_values.push(self.eval_expr(arg_expr)?);}" in b
        and "forarg_exprinargs.args{arg_values.push(self.eval_expr(arg_expr)?);}" in squash(fn_body(rt, "eval_builtin_call")))
    m = re.search(r"for\(\(param,maybe_local\),arg\)in.*?param_scope\.push\(LocalSlot\{[^}]*\}\);", b)
    if not m:
        raise TranslatorError("eval_function_call: the parameter-binding loop was not found")
    loop = m.group(0)
    flags["src_bind_promotes"] = bool(re.search(r"letarg=if\w+\{arg\.promote\(&self\.pool,self\.frame\)\}else\{arg\};", loop)
                                      and re.search(r"value:arg\b", loop))
    if not re.search(r"iflet Some\(offset\)=frame_offset\{returnOk\(self\.relocate_return_value\(val,offset\)\);\}".replace(" ", ""), b):
        raise TranslatorError("eval_function_call: the return value no longer goes through relocate_return_value")

    # ---- relocate_return_value
    b = squash(fn_body(rt, "relocate_return_value"))
    b = re.sub(r"#\[cfg\(naijascript_verif\)\]verif_counters::\w+\(\);", "", b)
    i_stage = b.find("ArenaString::from_str(self.arena,s.as_str())")
    i_reset = b.find("unsafe{self.frame.reset(frame_offset)};")
    i_build = b.find("ArenaString::from_str(self.frame,staged.as_str())")
    i_unstage = b.find("unsafe{self.arena.reset(stage_mark)};")
    i_mark = b.find("letstage_mark=self.arena.offset();")
    if i_reset < 0:
        raise TranslatorError("relocate_return_value: no frame reset found")
    flags["src_relocate_stages"] = (0 <= i_mark < i_stage < i_reset < i_build < i_unstage)
    flags["src_relocate_arrays"] = bool(re.search(
        r"ifmatches!\(val,(?:Value::\w+\(_\)\|)*Value::Array\(_\)(?:\|Value::\w+\(_\))*\)"
        r"\{letpromoted=val\.promote\(&self\.pool,self\.frame\);unsafe\{self\.frame\.reset\(frame_offset\)\};returnpromoted;\}", b))

    # ---- the other store sites
    ok = True
    for fn in ("define_var", "define_bound_local"):
        bb = squash(fn_body(rt, fn))
        ok &= "letvalue=ifhas_frame{val.promote(&self.pool,self.frame)}else{val};" in bb
        ok &= "Self::overwrite_slot(&mutslot.value,val,has_frame,&self.pool,self.frame);" in bb
    for fn in ("assign_var", "assign_bound_local"):
        bb = squash(fn_body(rt, fn))
        ok &= "Self::overwrite_slot(&mutslot.value,val,has_frame,pool,frame);" in bb
    bb = squash(fn_body(rt, "overwrite_slot"))
    i_ret = bb.find("old.return_to_pool(pool)")
    i_pro = bb.find("*slot=val.promote(pool,frame);")
    ok &= 0 <= i_ret < i_pro
    bb = squash(fn_body(rt, "assign_index"))
    i_pro = bb.find("letvalue=ifself.has_frame_arena(){value.promote(&self.pool,self.frame)}else{value};")
    i_rep = bb.find("letold=mem::replace(&mutitems[*idx],value);")
    ok &= 0 <= i_pro < i_rep and "old.return_to_pool(&self.pool)" in bb
    bb = squash(fn_body(rt, "eval_array_member_call_mut"))
    i_pro = bb.find("letvalue=ifself.has_frame_arena(){value.promote(&self.pool,self.frame)}else{value};")
    i_push = bb.find("ArrayBuiltin::push(array,value);")
    ok &= 0 <= i_pro < i_push
    bb = squash(fn_body(rt, "eval_builtin_call"))
    i_pro = bb.find("letargv=ifself.has_frame_arena(){argv.promote(&self.pool,self.frame)}else{argv};")
    i_out = bb.find("self.output.push(argv);")
    ok &= 0 <= i_pro < i_out
    flags["src_stores_promote"] = bool(ok)

    # ---- ArenaCow::promote
    bb = squash(fn_body(cow, "promote"))
    bb = re.sub(r"#\[cfg\(naijascript_verif\)\]crate::runtime::verif_counters::\w+\(\);", "", bb)
    flags["src_promote_copies"] = (
        "ifframe.contains_ptr(s.as_ptr())||pool.contains(s.as_ptr()){ArenaCow::Owned(pool.alloc_str(s))}else{ArenaCow::Borrowed(s)}" in bb
        and "ifstd::ptr::eq(s.arena(),persistent){returnArenaCow::Owned(s);}" in bb
        and "ArenaCow::Owned(pool.alloc_str(s.as_str()))" in bb)

    # ---- host values: every string inside a boxed record is persistent
    proc = strip_comments(open(os.path.join(REPO, "src", "process.rs"), encoding="utf-8").read())
    mb = squash(fn_body(rt, "eval_process_command_call_mut"))
    rb = squash(fn_body(rt, "eval_process_command_call"))
    qb = squash(fn_body(rt, "eval_required_string"))
    vb_clone = squash(fn_body(rt, "clone_into"))
    vb_prom = squash(fn_body(rt, "promote"))
    rel = squash(fn_body(rt, "relocate_return_value"))
    def impl_body(name):
        mm = re.search(r"impl<'a>\s*%s<'a>\s*\{" % name, proc)
        if not mm:
            raise TranslatorError("process.rs: impl %s not found" % name)
        return squash(body_from(proc, mm.start(), "impl " + name))
    hh = impl_body("HostHandle")
    pc = impl_body("ProcessCommand")
    i = pc.find("pubfnclone_into<'b>(&self,arena:&'bArena)->ProcessCommand<'b>")
    pc_clone = pc[i:] if i >= 0 else ""
    m = re.search(r"pubfnclone_into<'b>\(&self,arena:&'bArena\)->ProcessResult<'b>\{.*?\}\}", squash(proc))
    pr_clone = m.group(0) if m else ""
    m = re.search(r"pubfnclone_into<'b>\(&self,arena:&'bArena\)->EnvPair<'b>\{.*?\}\}", squash(proc))
    ep_clone = m.group(0) if m else ""
    flags["src_host_discipline"] = bool(
        mb.count("GlobalBuiltin::to_string(self.arena,&value)") == 3
        and "letarg=GlobalBuiltin::to_string(self.arena,&value);" in mb
        and "lettext=GlobalBuiltin::to_string(self.arena,&value);" in mb
        and "letpath=self.eval_required_string(args.args[0],span)?;" in mb
        and "letkey=self.eval_required_string(args.args[0],span)?;" in mb
        and "self.frame" not in mb and "to_string(self.frame" not in mb
        and qb.endswith("Ok(ArenaString::from_str(self.arena,&text))}") and "into_owned" not in qb and "self.frame" not in qb
        and "sys::process::run(&spec,&self.host_policy.process,self.arena)" in rb
        and "HostHandle::new_in(self.arena,HostValue::ProcessResult(result))" in rb and "self.frame" not in rb
        and "Value::Host(host)=>Value::Host(host.clone_into(arena))" in vb_clone
        and "Value::Host(host)=>Value::Host(host.promote(pool,frame))" in vb_prom
        and re.search(r"ifmatches!\(val,(?:Value::\w+\(_\)\|)*Value::Host\(_\)(?:\|Value::\w+\(_\))*\)"
                      r"\{letpromoted=val\.promote\(&self\.pool,self\.frame\);", rel) is not None
        and "if!frame.contains_ptr(self.0.as_ptr().cast::<u8>().cast_const()){returnself;}"
            "HostHandle::new_in(pool.arena(),self.get().clone_into(pool.arena()))" in hh
        and "HostHandle::new_in(arena,self.get().clone_into(arena))" in hh
        and "args.push(ArenaString::from_str(arena,arg.as_str()));" in pc_clone
        and "env.push(pair.clone_into(arena));" in pc_clone
        and "program:ArenaString::from_str(arena,self.program.as_str())" in pc_clone
        and "ArenaString::from_str(arena,cwd" in pc_clone
        and "StdinPolicy::Text(text)=>StdinPolicy::Text(ArenaString::from_str(arena,text))" in pc_clone
        and "key:ArenaString::from_str(arena,self.key.as_str())" in ep_clone
        and "value:ArenaString::from_str(arena,self.value.as_str())" in ep_clone
        and "stdout:self.stdout.as_ref().map(|stdout|ArenaString::from_str(arena,stdout))" in pr_clone
        and "stderr:self.stderr.as_ref().map(|stderr|ArenaString::from_str(arena,stderr))" in pr_clone)

    lines = ["(* GENERATED by translator/gen_mem.py from src/runtime.rs and src/arena/cow.rs — do not edit. *)",
             "(* Where the evaluator copies/promotes before storing, and the order of the staging in",
             "   relocate_return_value.  Properties/C02.v requires all of them to be true. *)"]
    for k in ("src_var_read_clones", "src_args_evaluated", "src_clone_copies", "src_clone_rebuilds", "src_promote_rebuilds", "src_bind_promotes",
              "src_relocate_stages", "src_relocate_arrays", "src_stores_promote", "src_promote_copies", "src_host_discipline"):
        lines.append("Definition %s : bool := %s." % (k, "true" if flags[k] else "false"))
    return "\n".join(lines) + "\n"


def main():
    try:
        text = generate()
    except (TranslatorError, OSError) as e:
        sys.stderr.write("gen_mem.py: %s\n" % e)
        sys.exit(2)
    if os.path.exists(OUT) and open(OUT).read() == text:
        print("translator: GenMem.v unchanged")
    else:
        open(OUT, "w").write(text)
        print("translator: GenMem.v rewritten")


if __name__ == "__main__":
    main()
