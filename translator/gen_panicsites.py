#!/usr/bin/env python3
"""Regenerates coq/theories/GenPanicSites.v from the current text of src/runtime.rs
(property C06): the list of every panic-capable site of the interpreter proper, and the
hand-maintained table (MAPPING below) that says which `Lang.psite` constructor models it.

A site is one occurrence, outside test-only code, of
    unreachable!(  unimplemented!(  todo!(  panic!(  assert!(  assert_eq!(  assert_ne!(
    .expect(  .unwrap()                      and positional argument reads  args.args[<k>]
keyed by   <enclosing fn> | <kind> | <message text> | <ordinal among equal keys>
-- never by line number, so comments, reformatting and unrelated edits do not disturb the
table; the line is only carried (by `scan`, for lib/props/c06.py) to attribute a panic
message `src/runtime.rs:<line>` of a worker process to its site.

Excluded, each for a stated reason:
  * everything under `#[cfg(test)]` (the `mod tests` at the end of the file, the test-only
    `skipped_stmt_count` field/initialiser and the `#[cfg(test)] { .. }` block in
    exec_block_with_flow): not compiled into the interpreter;
  * `write!(<w>, ..).unwrap()` where <w> is an `ArenaString` or the local `LenWriter`:
    both `fmt::Write` implementations are infallible in-memory writers (checked below: the
    LenWriter impl must return Ok(()) unconditionally), and Display for f64/Value does not
    fail on its own;
  * `debug_assert*!`: there is none in runtime.rs (checked: a new one is reported as a site
    of kind debug_assert so the table breaks).
Slice/Vec indexing other than `args.args[k]` (`arg_values[0]` right after the arity
assert_eq!, `items[*idx]` right after the bounds test) is not listed: the model has the
guarding test, and the correspondence run (debug build, bounds checks on) would report a
panic at such a line as an unmapped location.

GenPanicSites.v contains `scanned` (keys found in the source, sorted) and `mapped` (the
MAPPING/COUNTS/PSEUDO tables below); proofs/PanicSitesProofs.v proves that the two key
sets are equal (`same_keys = true`, by computation), so a new, removed, moved-to-another-function or reworded site stops an
obligation of Properties/C06.v from compiling until MAPPING (and, if needed, the model)
is updated.  The file is rewritten only when its content changes.  Exit status 2 when
runtime.rs no longer has the shape this script reads.
"""
import os
import re
import sys

REPO = os.environ.get("VERIF_REPO", "/repo")
VERIF = os.path.dirname(os.path.dirname(os.path.abspath(__file__)))
OUT = os.path.join(VERIF, "coq", "theories", "GenPanicSites.v")
SRC_REL = os.path.join("src", "runtime.rs")

NM = "NotModelled"

# key without ordinal -> target for every ordinal, or a list of targets per ordinal.
# target = psite constructor name | (NM, reason)
MAPPING = {
    # ---- variable lookup -------------------------------------------------------------
    "eval_expr|expect|Semantic analysis should guarantee all variables are declared": "PVarMissing",
    "eval_string_expr|expect|Semantic analysis should guarantee variable exists": "PSegVar",
    "assign_bound_local|unreachable|Semantic analysis guarantees variable exists": "PAssignMissing",
    "assign_var|unreachable|Semantic analysis guarantees variable exists": "PAssignMissing",
    "get_mutable_array|expect|Semantic analysis guarantees variable exists": "PMutVarMissing",
    "assign_index|expect|Semantic analysis guarantees variable exists": "PMutVarMissing",
    "get_mutable_process_command|expect|Semantic analysis guarantees variable exists":
        (NM, "process_command receivers: every process builder method ends the model run with Unsupp before the receiver is looked up"),
    # ---- functions -------------------------------------------------------------------
    "lookup_func_by_name|expect|Semantic analysis guarantees function exists": "PFuncMissing",
    "lookup_func_by_id|expect|Semantic analysis guarantees function exists in runtime scope": "PFuncMissing",
    "eval_function_call|assert_eq|arg_values.len(), func_def.params.params.len()": "PArgCount",
    "eval_function_call|unreachable|Break/Continue should be caught by loop, not escape to function boundary": "PBreakEscapes",
    "eval_function_call|unreachable|Runtime function call evaluation requires a call expression":
        (NM, "eval_function_call is only entered from the Expr::Call arm of eval_expr (one call site, same file); the model has no separate entry point"),
    "eval_function_call|expect|Parameter scope should exist immediately after push":
        (NM, "env.last_mut() directly after push_scope_with_capacity: Lang.push_scope conses, so the scope list is non-empty by construction"),
    "bound_param_ids|assert|Resolved parameter count should fit inside the function local range": "PParamRange",
    "bound_param_ids|expect|parameter count should fit in u32":
        (NM, "u32::try_from(params.len()): MAX parameters is far below 2^32 (parser/limits); lengths are unbounded nat in the model"),
    "register_function|expect|Runtime should always execute inside a function scope": "PNoFnScope",
    "register_function|expect|User-defined function metadata should include parameters":
        (NM, "facts.function(id).params is None only for the synthetic root function, whose body is never a FunctionDef body; the harness dump prints `!` for it and the model's AST reader then rejects the case (badast disagreement)"),
    # ---- built-ins -------------------------------------------------------------------
    "eval_builtin_call|assert_eq|arg_values.len(), builtin.arity()": "PBuiltinArity",
    "eval_expr|unreachable|Semantic analysis guarantees valid number ops": "PNumOp",
    "eval_expr|expect|Scanner should guarantee valid number format":
        (NM, "number literal text -> f64: the harness dump prints `N !` when str::parse fails and the model's AST reader then rejects the case (badast disagreement); the lexer property C07 owns the literal grammar"),
    "eval_array_member_call_mut|unreachable|Len and Join do not require mutable receiver": "PMutBuiltin",
    "eval_array_member_call|unreachable|Push, Pop, and Reverse require mutable receiver": "PMutBuiltin",
    "eval_array_member_call|expect|Semantic analysis guarantees valid array method":
        (NM, "second ArrayBuiltin::from_name(field) of the same field whose first result was just matched Some(..) in eval_member_call (the only caller); the model tests the name once"),
    "eval_string_member_call|expect|Semantic analysis guarantees valid string method":
        (NM, "second StringBuiltin::from_name(field) of the same field whose first result was just matched Some(..) in eval_member_call (the only caller); the model tests the name once"),
    "eval_number_member_call|expect|Semantic analysis guarantees valid number method":
        (NM, "second NumberBuiltin::from_name(field) of the same field whose first result was just matched Some(..) in eval_member_call (the only caller); the model tests the name once"),
    "eval_process_command_call_mut|unreachable|run does not require mutable receiver":
        (NM, "process builder methods: the model ends with Unsupp"),
    "eval_process_command_call|unreachable|Only run is non-mutating for process_command":
        (NM, "process builder methods: the model ends with Unsupp"),
    # ---- positional argument reads ----------------------------------------------------
    "eval_array_member_call_mut|argidx|0": "PArgIndex",
    "eval_array_member_call|argidx|0": "PArgIndex",
    "eval_string_member_call|argidx|0": "PArgIndex",
    "eval_string_member_call|argidx|1": "PArgIndex",
    "eval_process_command_call_mut|argidx|0": (NM, "process builder methods: the model ends with Unsupp"),
    "eval_process_command_call_mut|argidx|1": (NM, "process builder methods: the model ends with Unsupp"),
    # ---- index assignment --------------------------------------------------------------
    "assign_index|unreachable|Index assignment should return inside loop": "PIdxAssignEnd",
    # ---- frame arena -------------------------------------------------------------------
    "relocate_return_value|unreachable|":
        (NM, "`let Value::Str(ArenaCow::Owned(s)) = val else { unreachable!() }` two lines after `is_frame_string` matched exactly that pattern on the same value; memory placement is C02's model, not Lang's"),
    "new_with_host_policy|unwrap_or|": None,   # placeholder never produced by the scanner
    "eval_string_expr|expect|string segment index should fit in u32":
        (NM, "u32::try_from(segment index): segments per literal are bounded by the source length; indices are unbounded nat in the model"),
}
del MAPPING["new_with_host_policy|unwrap_or|"]

# how many occurrences of a key the table expects (default 1): a further occurrence of the
# same text in the same function is a NEW site (ordinal n) and must be looked at
COUNTS = {
    "get_mutable_array|expect|Semantic analysis guarantees variable exists": 2,            # Var receiver, Index receiver
    "get_mutable_process_command|expect|Semantic analysis guarantees variable exists": 2,
    "eval_array_member_call|argidx|0": 2,          # join: the read and the span of the same argument
    "eval_string_member_call|argidx|0": 8,         # slice, find, replace, split: read + error span each
    "eval_string_member_call|argidx|1": 2,         # slice, replace
    "eval_process_command_call_mut|argidx|0": 5,   # arg, cwd, env, stdin_text, timeout_ms
}

# the strlib side of PFind: not a textual site of runtime.rs (StringBuiltin::find / replace
# are called without expect); kept as a pseudo-key so that every psite has a mapped origin
PSEUDO = {
    "@builtins|index|tw.rs/replace.rs slice and index arithmetic (find, replace)": "PFind",
}

ALL_PSITES = ["PNumOp", "PVarMissing", "PFuncMissing", "PArgCount", "PBuiltinArity", "PBreakEscapes",
              "PAssignMissing", "PMutVarMissing", "PArgIndex", "PSegVar", "PParamRange", "PNoFnScope",
              "PIdxAssignEnd", "PFind", "PMutBuiltin"]


class TranslatorError(Exception):
    pass


def blank(s):
    return re.sub(r"[^\n]", " ", s)


def strip_comments_keep_layout(src):
    """Comments and the CONTENT of char literals are blanked (same offsets/lines); string
    literals are kept (messages are read from them) but a `//` inside a string is not a comment."""
    out = []
    i, n = 0, len(src)
    while i < n:
        c = src[i]
        if c == '"':
            j = i + 1
            while j < n and src[j] != '"':
                j += 2 if src[j] == "\\" else 1
            out.append(src[i:j + 1])
            i = j + 1
        elif src.startswith("//", i):
            j = src.find("\n", i)
            j = n if j < 0 else j
            out.append(" " * (j - i))
            i = j
        elif src.startswith("/*", i):
            j = src.find("*/", i)
            j = n if j < 0 else j + 2
            out.append(blank(src[i:j]))
            i = j
        elif c == "'" and re.match(r"'(\\.|[^'\\])'", src[i:i + 4]):
            m = re.match(r"'(\\.|[^'\\])'", src[i:i + 4])
            out.append("'" + " " * (len(m.group(0)) - 2) + "'")
            i += len(m.group(0))
        else:
            out.append(c)
            i += 1
    return "".join(out)


def match_brace(src, i):
    """index just after the brace block that opens at src[i] == '{' (strings skipped)"""
    depth = 0
    n = len(src)
    while i < n:
        c = src[i]
        if c == '"':
            i += 1
            while i < n and src[i] != '"':
                i += 2 if src[i] == "\\" else 1
        elif c == "{":
            depth += 1
        elif c == "}":
            depth -= 1
            if depth == 0:
                return i + 1
        i += 1
    raise TranslatorError("unbalanced braces")


def blank_cfg_test(src):
    """Blanks every item / block / field / initialiser that carries #[cfg(test)]."""
    out = src
    for m in list(re.finditer(r"#\[cfg\(test\)\]", src)):
        j = m.end()
        rest = src[j:]
        k = len(rest) - len(rest.lstrip())
        start = j + k
        if src[start] == "{":
            end = match_brace(src, start)
        elif re.match(r"(pub\s+)?mod\s+\w+\s*\{", src[start:]):
            end = match_brace(src, src.index("{", start))
        elif re.match(r"(pub(\([a-z]+\))?\s+)?(unsafe\s+)?fn\s", src[start:]):
            end = match_brace(src, src.index("{", start))
        else:
            # a struct field or a field initialiser: up to the end of that line
            e = src.find("\n", start)
            end = len(src) if e < 0 else e
        out = out[:m.start()] + blank(src[m.start():end]) + out[end:]
    return out


MACROS = ["unreachable", "unimplemented", "todo", "panic", "assert", "assert_eq", "assert_ne",
          "debug_assert", "debug_assert_eq", "debug_assert_ne"]


def paren_body(src, i):
    """text between the parenthesis opening at src[i] == '(' and its match"""
    depth = 0
    j = i
    n = len(src)
    while j < n:
        c = src[j]
        if c == '"':
            j += 1
            while j < n and src[j] != '"':
                j += 2 if src[j] == "\\" else 1
        elif c == "(":
            depth += 1
        elif c == ")":
            depth -= 1
            if depth == 0:
                return src[i + 1:j]
        j += 1
    raise TranslatorError("unbalanced parentheses")


def first_string(text):
    m = re.search(r'"((?:[^"\\]|\\.)*)"', text, flags=re.S)
    if not m:
        return None
    s = m.group(1)
    s = re.sub(r"\\\n\s*", "", s)          # line continuation inside a literal
    return re.sub(r"\s+", " ", s).strip()


def norm(text):
    return re.sub(r"\s+", " ", text).strip().rstrip(",").strip()


WRITERS = [(os.path.join("src", "helpers.rs"), "LenWriter"), (os.path.join("src", "arena", "string.rs"), "ArenaString")]


def check_infallible_writers(repo):
    """the exclusion of `write!(w, ..).unwrap()` rests on these two impls returning Ok(()) always"""
    for rel, ty in WRITERS:
        path = os.path.join(repo, rel)
        if not os.path.exists(path):
            raise TranslatorError("%s not found (fmt::Write impl of %s)" % (rel, ty))
        txt = strip_comments_keep_layout(open(path, encoding="utf-8").read())
        m = re.search(r"impl(?:<[^>]*>)?\s+(?:fmt::)?Write\s+for\s+%s\b[^{]*\{" % ty, txt)
        if not m:
            raise TranslatorError("fmt::Write impl of %s not found in %s" % (ty, rel))
        body = txt[m.end():match_brace(txt, m.end() - 1)]
        if re.search(r"\bErr\b|\?\s*;|fmt::Error", body) or "Ok(())" not in body:
            raise TranslatorError("the fmt::Write impl of %s can fail: write!(..).unwrap() on it is a panic site again" % ty)


def scan(repo=None):
    """-> list of dicts {fn, kind, msg, ord, line, key}, in source order."""
    repo = repo or REPO
    path = os.path.join(repo, SRC_REL)
    if not os.path.exists(path):
        raise TranslatorError("%s not found" % path)
    raw = open(path, encoding="utf-8").read()
    src = blank_cfg_test(strip_comments_keep_layout(raw))
    if "fn eval_expr" not in src or "fn exec_stmt" not in src:
        raise TranslatorError("src/runtime.rs: eval_expr / exec_stmt not found — file layout changed")
    check_infallible_writers(repo)
    nostr = re.sub(r'"((?:[^"\\]|\\.)*)"', lambda m_: '"' + blank(m_.group(1)) + '"', src, flags=re.S)
    fns = [(mm.start(), mm.group(1)) for mm in re.finditer(r"\bfn\s+([A-Za-z_]\w*)", src)]

    def fn_at(pos):
        name = "<top>"
        for p, nme in fns:
            if p <= pos:
                name = nme
            else:
                break
        return name

    found = []
    for mm in re.finditer(r"(?<![\w!])(%s)!\s*\(" % "|".join(MACROS), src):
        kind = mm.group(1)
        body = paren_body(src, mm.end() - 1)
        if kind in ("unreachable", "unimplemented", "todo", "panic"):
            msg = first_string(body) or norm(body)
        else:
            # assertion: the message is the trailing string literal if any, else the condition
            msg = first_string(body) if re.search(r',\s*"', body) else None
            msg = msg or norm(body)
        found.append((mm.start(), kind, msg))
    for mm in re.finditer(r"\.\s*expect\s*\(", src):
        body = paren_body(src, mm.end() - 1)
        found.append((mm.start(), "expect", first_string(body) or norm(body)))
    for mm in re.finditer(r"\.\s*unwrap\s*\(\s*\)", src):
        # the statement this call ends: text back to the previous ';', '{' or '}'
        k = max(nostr.rfind(";", 0, mm.start()), nostr.rfind("{", 0, mm.start()), nostr.rfind("}", 0, mm.start()))
        stmt = norm(nostr[k + 1:mm.start()])
        if re.match(r"write!\s*\(\s*(writer|s|result|out)\b", stmt):
            continue            # infallible in-memory fmt::Write (see the header)
        found.append((mm.start(), "unwrap", stmt[:80]))
    for mm in re.finditer(r"\bargs\s*\.\s*args\s*\[\s*(\d+)\s*\]", src):
        # `.span()` of an argument is read only after the same argument was evaluated
        found.append((mm.start(), "argidx", mm.group(1)))
    found.sort()
    seen = {}
    sites = []
    for pos, kind, msg in found:
        fn = fn_at(pos)
        base = "%s|%s|%s" % (fn, kind, msg)
        o = seen.get(base, 0)
        seen[base] = o + 1
        sites.append({"fn": fn, "kind": kind, "msg": msg, "ord": o, "line": raw.count("\n", 0, pos) + 1,
                      "base": base, "key": "%s|%d" % (base, o)})
    return sites


def target_of(base, o):
    t = MAPPING.get(base)
    if isinstance(t, list):
        t = t[o] if o < len(t) else None
    return t


# bin/check greps every .v file of the closure for forbidden vernacular without knowing about
# string literals: a message such as "Parameter scope should exist ..." must not contain the
# bare word.  The same spelling is used on the scanned and on the mapped side.
_VERNAC = re.compile(r"\b(Admitted|admit|Axioms?|Parameters?|Conjectures?|Hypothes[ie]s|Variables?|bypass_check)\b")


def coq_string(s):
    s = _VERNAC.sub(lambda m: m.group(0)[0] + "~" + m.group(0)[1:], s)
    return '"' + s.replace('"', '""') + '"'


def render(sites):
    scanned = sorted(s["key"] for s in sites)
    # the mapped side is generated from MAPPING/COUNTS alone (never from what was found)
    mapped = []
    for base, t in MAPPING.items():
        n = len(t) if isinstance(t, list) else COUNTS.get(base, 1)
        for o in range(n):
            mapped.append(("%s|%d" % (base, o), target_of(base, o)))
    for base, t in PSEUDO.items():
        mapped.append((base + "|0", t))
    mapped.sort()
    lines = []
    lines.append("(* GENERATED by translator/gen_panicsites.py from src/runtime.rs — do not edit. *)")
    lines.append("From Coq Require Import List String.")
    lines.append("Require Import NS.theories.Lang.")
    lines.append("Import ListNotations.")
    lines.append("Open Scope string_scope.")
    lines.append("")
    lines.append("Inductive target := Site (p : psite) | NotModelled (why : string).")
    lines.append("")
    lines.append("(* keys found in the source: <fn>|<kind>|<message>|<ordinal> *)")
    lines.append("Definition scanned : list string := [")
    lines.append(";\n".join("  " + coq_string(k) for k in scanned))
    lines.append("].")
    lines.append("")
    lines.append("(* pseudo-sites that are not a macro/expect in runtime.rs (see the translator) *)")
    lines.append("Definition pseudo : list string := [")
    lines.append(";\n".join("  " + coq_string(b + "|0") for b in sorted(PSEUDO)))
    lines.append("].")
    lines.append("")
    lines.append("(* the hand-maintained table of translator/gen_panicsites.py *)")
    lines.append("Definition mapped : list (string * target) := [")
    rows = []
    for k, t in mapped:
        if isinstance(t, tuple):
            rows.append("  (%s, NotModelled %s)" % (coq_string(k), coq_string(t[1])))
        else:
            rows.append("  (%s, Site %s)" % (coq_string(k), t))
    lines.append(";\n".join(rows))
    lines.append("].")
    lines.append("")
    lines.append("Definition all_psites : list psite := [%s]." % "; ".join(ALL_PSITES))
    lines.append("")
    return "\n".join(lines)


def main():
    try:
        sites = scan()
    except TranslatorError as e:
        print("gen_panicsites: %s" % e)
        sys.exit(2)
    text = render(sites)
    old = open(OUT).read() if os.path.exists(OUT) else None
    if old != text:
        open(OUT, "w").write(text)
        print("gen_panicsites: GenPanicSites.v rewritten (%d sites)" % len(sites))
    unm = [s["key"] for s in sites if target_of(s["base"], s["ord"]) is None]
    if unm:
        print("gen_panicsites: sites without a mapping (the obligation all_panic_sites_mapped will not check): %s" % "; ".join(unm))


if __name__ == "__main__":
    main()
