#!/usr/bin/env python3
"""Regenerates coq/theories/GenParser.v from /repo/src/syntax/{parser,token}.rs (parser model,
used by the PARSER check and through it by C01/C07/C10).

What is read (regex over the source text, comments stripped, no Rust parser):
  * `enum SyntaxError` variants + `as_str` messages   -> Inductive synerr, synerr_index, synerr_msg
  * the token sets that steer statement parsing and error recovery
      - parse_program_body: `while matches!(self.cur.token, A | B | ...)`     -> stmt_start_toks
      - parse_block_body:   `while !matches!(self.cur.token, A | B)`          -> block_stop_toks
      - synchronize:        `while !matches!(self.cur.token, A | B | ...)`    -> sync_toks
      - parse_return:       `Token::A | Token::B => None`                     -> return_stop_toks
  * `impl Display for Token` (token.rs): the spelling used inside the "reserved keyword" label;
    variants without an arm print their Debug name                          -> tok_display
  * the label texts of the syntax diagnostics (each must occur verbatim in parser.rs) -> lbl_*
  * the placeholder name "_" pushed for a missing / reserved name           -> placeholder_name
  * the binding power handed to parse_expression by the statement forms (condition of
    `if to say` / `jasi`, value of `make` / assignment / `return`)         -> cond_bp, value_bp
  * two behaviours that decide what error recovery sees:
      - parse_expression takes the current token by `mem::take(&mut self.cur.token)`, so in its
        error arm the current token is already EOF                          -> src_expr_takes_token
      - the default arm of parse_statement bumps before it synchronizes     -> src_stmt_error_bumps
The binding powers of the operators themselves are in GenPratt.v (translator/gen_pratt.py).
The file is rewritten only when its content changes.  Exit status 2 with a message when the
source no longer has the shape parsed here.
"""
import os
import re
import sys

REPO = os.environ.get("VERIF_REPO", "/repo")
VERIF = os.path.dirname(os.path.dirname(os.path.abspath(__file__)))
OUT = os.path.join(VERIF, "coq", "theories", "GenParser.v")


class TranslatorError(Exception):
    pass


def read(rel):
    with open(os.path.join(REPO, rel), encoding="utf-8") as f:
        return f.read()


def strip_comments(src):
    return re.sub(r"//[^\n]*", "", src)


def fn_body(src, name):
    m = re.search(r"\bfn\s+%s\s*[(<]" % re.escape(name), src)
    if not m:
        raise TranslatorError("fn %s not found" % name)
    i = src.index("{", m.end())
    depth, j, n = 0, i, len(src)
    while j < n:
        c = src[j]
        if c == '"':
            j += 1
            while src[j] != '"':
                j += 2 if src[j] == "\\" else 1
        elif c == "'" and re.match(r"'(\\.|[^\\'])'", src[j:j + 4]):
            j += len(re.match(r"'(\\.|[^\\'])'", src[j:j + 4]).group(0)) - 1
        elif c == "{":
            depth += 1
        elif c == "}":
            depth -= 1
            if depth == 0:
                return src[i + 1:j]
        j += 1
    raise TranslatorError("unbalanced braces in fn %s" % name)


def zbytes(s):
    return "[" + "; ".join(str(b) for b in s.encode("utf-8")) + "]"


def token_set(text, what):
    names = re.findall(r"Token::(\w+)", text)
    if not names:
        raise TranslatorError("no Token:: alternatives in %s" % what)
    seen = []
    for n in names:
        if n not in seen:
            seen.append(n)
    return seen


LABELS = [
    ("lbl_statement", "I dey expect statement"),
    ("lbl_end_block", "I dey expect `end` block"),
    ("lbl_assign_target", "I dey expect variable or index on left side of assignment"),
    ("lbl_fn_name", "I dey expect function name after `do`"),
    ("lbl_lparen_fn", "I dey expect `(` after function name"),
    ("lbl_rparen", "I dey expect `)`"),
    ("lbl_start_after_rparen", "I dey expect `start` block after `)`"),
    ("lbl_var_name", "I dey expect variable name after `make`"),
    ("lbl_lparen_if", "I dey expect `(` after `if to say`"),
    ("lbl_start_after_else", "I dey expect `start` block after `if not so`"),
    ("lbl_lparen_jasi", "I dey expect `(` after `jasi`"),
    ("lbl_expression", "I dey expect expression"),
    ("lbl_rbracket", "I dey expect `]`"),
    ("lbl_ident_after_dot", "I dey expect identifier after `.`"),
]


def generate():
    raw_parser = read("src/syntax/parser.rs")
    parser = strip_comments(raw_parser)
    token_rs = strip_comments(read("src/syntax/token.rs"))

    # ---- Token variants (to validate names)
    m = re.search(r"pub enum Token<'a>\s*\{(.*?)\n\}", token_rs, re.S)
    if not m:
        raise TranslatorError("enum Token not found")
    variants = re.findall(r"^\s*(?:#\[default\]\s*)?([A-Z]\w*)\s*(?:\([^)]*\))?\s*,", m.group(1), re.M)
    if "EOF" not in variants or "Identifier" not in variants:
        raise TranslatorError("enum Token: unexpected variants %r" % variants)

    def check(names, what):
        for n in names:
            if n not in variants:
                raise TranslatorError("%s mentions unknown token %s" % (what, n))
        return names

    # ---- SyntaxError
    m = re.search(r"pub enum SyntaxError\s*\{(.*?)\}", parser, re.S)
    if not m:
        raise TranslatorError("enum SyntaxError not found")
    errs = re.findall(r"([A-Z]\w*)\s*,", m.group(1))
    m = re.search(r"impl AsStr for SyntaxError\s*\{(.*?)\n\}", parser, re.S)
    if not m:
        raise TranslatorError("impl AsStr for SyntaxError not found")
    msgs = dict(re.findall(r"SyntaxError::(\w+)\s*=>\s*\{?\s*\"([^\"]*)\"", m.group(1)))
    for e in errs:
        if e not in msgs:
            raise TranslatorError("no as_str message for SyntaxError::%s" % e)

    # ---- token sets
    body = fn_body(parser, "parse_program_body")
    m = re.search(r"while\s+matches!\s*\(\s*self\.cur\.token\s*,(.*?)\)\s*\{", body, re.S)
    if not m:
        raise TranslatorError("parse_program_body: `while matches!(self.cur.token, ...)` not found")
    stmt_start = check(token_set(m.group(1), "parse_program_body"), "parse_program_body")

    body = fn_body(parser, "parse_block_body")
    m = re.search(r"while\s+!\s*matches!\s*\(\s*self\.cur\.token\s*,(.*?)\)\s*\{", body, re.S)
    if not m:
        raise TranslatorError("parse_block_body: `while !matches!(self.cur.token, ...)` not found")
    block_stop = check(token_set(m.group(1), "parse_block_body"), "parse_block_body")

    body = fn_body(parser, "synchronize")
    m = re.search(r"while\s+!\s*matches!\s*\(\s*self\.cur\.token\s*,(.*?)\)\s*\{\s*self\.bump\(\)\s*;\s*\}", body, re.S)
    if not m:
        raise TranslatorError("synchronize: `while !matches!(self.cur.token, ...) { self.bump(); }` not found")
    sync = check(token_set(m.group(1), "synchronize"), "synchronize")

    body = fn_body(parser, "parse_return")
    m = re.search(r"match\s+&self\.cur\.token\s*\{\s*((?:Token::\w+\s*\|?\s*)+)=>\s*None\s*,\s*_\s*=>\s*Some\(self\.parse_expression\((\d+)\)\)", body, re.S)
    if not m:
        raise TranslatorError("parse_return: `Token::A | Token::B => None, _ => Some(self.parse_expression(N))` not found")
    ret_stop = check(token_set(m.group(1), "parse_return"), "parse_return")
    return_bp = int(m.group(2))

    # ---- binding powers handed over by the statement forms
    def bps(fn):
        return [int(x) for x in re.findall(r"self\.parse_expression\((\d+)\)", fn_body(parser, fn))]
    if_bp, loop_bp, assign_bp = bps("parse_if"), bps("parse_loop"), bps("parse_assignment")
    if len(if_bp) != 1 or len(loop_bp) != 1 or len(assign_bp) != 1:
        raise TranslatorError("parse_if / parse_loop / parse_assignment: expected exactly one parse_expression(N) each")
    stmt_body = fn_body(parser, "parse_statement")
    m = re.search(r"if let Token::Get = self\.cur\.token\s*\{\s*self\.bump\(\);\s*let value_expr = self\.parse_expression\((\d+)\)", stmt_body)
    if not m:
        raise TranslatorError("parse_statement: assignment value `self.parse_expression(N)` not found")
    set_bp = int(m.group(1))
    if if_bp[0] != loop_bp[0]:
        raise TranslatorError("parse_if and parse_loop use different binding powers for the condition")
    if not (assign_bp[0] == set_bp == return_bp):
        raise TranslatorError("make / assignment / return use different binding powers for the value")

    # ---- recovery behaviours
    pe = fn_body(parser, "parse_expression")
    takes = bool(re.search(r"match\s+mem::take\(&mut self\.cur\.token\)", pe))
    if not takes and not re.search(r"match\s+&?self\.cur\.token", pe):
        raise TranslatorError("parse_expression: the scrutinee of the primary match is neither mem::take(&mut self.cur.token) nor self.cur.token")
    m = re.search(r"_\s*=>\s*\{\s*let span = self\.cur\.span;\s*self\.emit_error\(\s*span,\s*SyntaxError::ExpectedStatement.*?\);\s*(.*?)let expr", stmt_body, re.S)
    if not m:
        raise TranslatorError("parse_statement: default arm (ExpectedStatement) not found")
    tail = re.sub(r"\s+", "", m.group(1))
    if tail == "self.bump();self.synchronize();":
        stmt_bumps = True
    elif tail == "self.synchronize();":
        stmt_bumps = False
    else:
        raise TranslatorError("parse_statement: unexpected recovery sequence %r" % tail)

    # ---- Display for Token
    m = re.search(r"impl std::fmt::Display for Token<'_>\s*\{(.*?)\n\}", token_rs, re.S)
    if not m:
        raise TranslatorError("impl Display for Token not found")
    disp = dict(re.findall(r"Token::(\w+)\s*=>\s*write!\(f,\s*\"([^\"]*)\"\)", m.group(1)))
    if not re.search(r"_\s*=>\s*write!\(f,\s*\"\{self:\?\}\"\)", m.group(1)):
        raise TranslatorError("Display for Token: the fallback arm is not the Debug name")
    for k in disp:
        if k not in variants:
            raise TranslatorError("Display for Token mentions unknown token %s" % k)

    # ---- labels / placeholder
    for name, text in LABELS:
        if ('"%s"' % text) not in raw_parser:
            raise TranslatorError("label text %r no longer occurs in parser.rs" % text)
    if not re.search(r'"`\{t\}` na reserved keyword"', raw_parser):
        raise TranslatorError("reserved-keyword label no longer has the form \"`{t}` na reserved keyword\"")
    if raw_parser.count('("_", ') < 3 or 'params.push("_")' not in raw_parser:
        raise TranslatorError("placeholder name \"_\" not found where expected")

    L = []
    A = L.append
    A("(* GENERATED by translator/gen_parser.py from src/syntax/{parser,token}.rs — do not edit. *)")
    A("From Coq Require Import ZArith List Bool.")
    A("Require Import NS.theories.GenLexer.")
    A("Import ListNotations.")
    A("Open Scope Z_scope.")
    A("")
    A("(* enum SyntaxError and SyntaxError::as_str *)")
    A("Inductive synerr : Set :=")
    for e in errs:
        A("  | S%s" % e)
    L[-1] += "."
    A("Definition synerr_index (e : synerr) : Z :=")
    A("  match e with")
    for i, e in enumerate(errs):
        A("  | S%s => %d" % (e, i))
    A("  end.")
    A("Definition synerr_msg (e : synerr) : list Z :=")
    A("  match e with")
    for e in errs:
        A("  | S%s => %s (* %s *)" % (e, zbytes(msgs[e]), msgs[e]))
    A("  end.")
    A("")

    def tset(name, names, comment):
        A("(* %s *)" % comment)
        A("Definition %s : list tok := [%s]." % (name, "; ".join("T" + n for n in names)))

    tset("stmt_start_toks", stmt_start, "parse_program_body: the loop runs while the current token is one of these")
    tset("block_stop_toks", block_stop, "parse_block_body: the loop runs until the current token is one of these")
    tset("sync_toks", sync, "synchronize: bumps until the current token is one of these")
    tset("return_stop_toks", ret_stop, "parse_return: no value expression when the current token is one of these")
    A("")
    A("(* binding power handed to parse_expression for a condition (if to say / jasi) and for a value")
    A("   (make / assignment / return) *)")
    A("Definition cond_bp : Z := %d." % if_bp[0])
    A("Definition value_bp : Z := %d." % set_bp)
    A("")
    A("(* impl Display for Token: variants without an arm print their Debug name *)")
    A("Definition tok_display (k : tok) : list Z :=")
    A("  match k with")
    for v in variants:
        if v in disp:
            A("  | T%s => %s (* %s *)" % (v, zbytes(disp[v]), disp[v]))
    if len(disp) < len(variants):
        A("  | other => tok_name other")
    A("  end.")
    A("")
    A("(* label texts of the syntax diagnostics *)")
    for name, text in LABELS:
        A("Definition %s : list Z := %s. (* %s *)" % (name, zbytes(text), text))
    A("Definition lbl_reserved (k : tok) : list Z := [96] ++ tok_display k ++ %s. (* `{t}` na reserved keyword *)"
      % zbytes("` na reserved keyword"))
    A("Definition placeholder_name : list Z := %s." % zbytes("_"))
    A("")
    A("(* src_expr_takes_token: parse_expression matches on mem::take(&mut self.cur.token), so while its")
    A("   arms run (in particular the error arm and its synchronize()) the current token is EOF;")
    A("   src_stmt_error_bumps: the default arm of parse_statement bumps once before it synchronizes. *)")
    A("Definition src_expr_takes_token : bool := %s." % ("true" if takes else "false"))
    A("Definition src_stmt_error_bumps : bool := %s." % ("true" if stmt_bumps else "false"))
    A("")
    return "\n".join(L) + "\n"


def main():
    text = generate()
    old = None
    if os.path.exists(OUT):
        with open(OUT, encoding="utf-8") as f:
            old = f.read()
    if old != text:
        with open(OUT, "w", encoding="utf-8") as f:
            f.write(text)
        print("translator: GenParser.v rewritten")
    else:
        print("translator: GenParser.v unchanged")


if __name__ == "__main__":
    try:
        main()
    except TranslatorError as e:
        print("translator: ERROR (gen_parser) %s" % e)
        sys.exit(2)
