#!/usr/bin/env python3
"""Regenerates coq/theories/GenPoolStr.v from /repo's src/arena/pool.rs (property C12).

What is read (regex / brace matching over the Rust text, no rustc):
  * the body of `PoolSet::alloc_str`: the size it requests from `self.alloc(..)`, the length of
    the one `copy_nonoverlapping` into the granted buffer, every further store through the
    buffer pointer (`ptr.as_ptr().add(E).write(V)`, conditional or not: over-approximated as
    always executed), and the length handed to `ArenaString::from_raw_parts`;
  * the list of `pub` / `pub(crate)` functions of pool.rs outside the test and verif modules
    (written to .build/pool_api.json: the check lists which stream exercises each of them).
Expressions are over `len` (= s.len()) with + and - of integer literals; anything else, or any
other statement that could write memory, makes this translator exit 1 with a message.
The file is rewritten only when its content changes.
"""
import json
import os
import re
import sys

REPO = os.environ.get("VERIF_REPO", "/repo")
VERIF = os.path.dirname(os.path.dirname(os.path.abspath(__file__)))
OUT = os.path.join(VERIF, "coq", "theories", "GenPoolStr.v")
API = os.path.join(VERIF, ".build", "pool_api.json")


def die(msg):
    sys.stderr.write("gen_poolstr: %s\n" % msg)
    print("gen_poolstr: %s" % msg)
    sys.exit(1)


def strip_comments(t):
    t = re.sub(r"/\*.*?\*/", " ", t, flags=re.S)
    return re.sub(r"//[^\n]*", " ", t)


def body_at(src, start):
    i = src.index("{", start)
    depth = 0
    for j in range(i, len(src)):
        if src[j] == "{":
            depth += 1
        elif src[j] == "}":
            depth -= 1
            if depth == 0:
                return src[i + 1:j], j + 1
    die("unbalanced braces")


def expr(e):
    """`len`, integer literals, + and - only (casts `as u32/usize` dropped) -> Coq Z term."""
    e = re.sub(r"\bas\s+(u32|usize|u64|isize)\b", "", e)
    e = e.replace("(", " ").replace(")", " ").strip()
    toks = re.findall(r"[A-Za-z_]\w*|\d[\d_]*|[+\-]|\S", e)
    if not toks:
        die("empty expression")
    out = []
    for k, t in enumerate(toks):
        if k % 2 == 0:
            if t == "len":
                out.append("len")
            elif re.fullmatch(r"\d[\d_]*", t):
                out.append(t.replace("_", ""))
            else:
                die("unsupported operand %r in %r" % (t, e))
        else:
            if t not in "+-":
                die("unsupported operator %r in %r" % (t, e))
            out.append(t)
    if len(toks) % 2 == 0:
        die("dangling operator in %r" % e)
    return "(" + " ".join(out) + ")"


def main():
    p = os.path.join(REPO, "src", "arena", "pool.rs")
    if not os.path.exists(p):
        die("missing src/arena/pool.rs")
    full = open(p, encoding="utf-8").read()
    # cut test / verif modules
    cut = len(full)
    for m in re.finditer(r"#\[cfg\((test|naijascript_verif)\)\]\s*(pub\s+)?mod\s+\w+", full):
        cut = min(cut, m.start())
    src = strip_comments(full[:cut])

    # ---- API inventory
    api = []
    for m in re.finditer(r"^\s*(pub(?:\(crate\))?)\s+(?:const\s+)?(?:unsafe\s+)?fn\s+(\w+)", src, flags=re.M):
        owner = None
        for im in re.finditer(r"^impl(?:<[^>]*>)?\s+(\w+)", src[:m.start()], flags=re.M):
            owner = im.group(1)
        api.append({"vis": m.group(1), "name": "%s::%s" % (owner, m.group(2)) if owner else m.group(2)})
    all_fns = []
    for m in re.finditer(r"^\s*(?:pub(?:\(crate\))?\s+)?(?:const\s+)?(?:unsafe\s+)?fn\s+(\w+)", src, flags=re.M):
        owner = None
        for im in re.finditer(r"^impl(?:<[^>]*>)?\s+(\w+)", src[:m.start()], flags=re.M):
            owner = im.group(1)
        all_fns.append("%s::%s" % (owner, m.group(1)) if owner else m.group(1))

    # ---- alloc_str
    m = re.search(r"fn\s+alloc_str\s*\(\s*&self\s*,\s*(\w+)\s*:\s*&str\s*\)\s*->\s*ArenaString<'a>", src)
    if not m:
        die("PoolSet::alloc_str(&self, s: &str) -> ArenaString<'a> not found")
    sname = m.group(1)
    body, _ = body_at(src, m.end())
    flat = " ".join(body.split())
    m1 = re.search(r"let\s+len\s*=\s*%s\.len\(\)\s*;" % sname, flat)
    if not m1:
        die("alloc_str: `let len = s.len();` not found")
    m2 = re.findall(r"let\s+(\w+)\s*=\s*self\.alloc\(([^;]*)\)\s*;", flat)
    if len(m2) != 1:
        die("alloc_str: exactly one `let slot = self.alloc(..);` expected, found %d" % len(m2))
    slot, req = m2[0]
    m3 = re.findall(r"let\s+(\w+)\s*=\s*%s\.cast(?:::<u8>)?\(\)\s*;" % slot, flat)
    if len(m3) != 1:
        die("alloc_str: `let ptr = slot.cast();` not found")
    ptr = m3[0]
    copies = re.findall(r"(?:std::)?ptr::copy(?:_nonoverlapping)?\(\s*%s\.as_ptr\(\)\s*,\s*%s\.as_ptr\(\)\s*,\s*([^;]*?)\)\s*;"
                        % (sname, ptr), flat)
    if len(copies) != 1:
        die("alloc_str: exactly one copy of the string bytes into the buffer expected, found %d" % len(copies))
    stores = re.findall(r"%s\.as_ptr\(\)\.add\(([^;]*?)\)\.write\(([^;]*?)\)\s*;" % ptr, flat)
    res = re.findall(r"ArenaString::from_raw_parts\(\s*%s\s*,\s*([^,]*?)\s*,\s*self\.arena\s*\)" % ptr, flat)
    if len(res) != 1:
        die("alloc_str: `ArenaString::from_raw_parts(ptr, len, self.arena)` not found")
    # everything that could write must have been recognised: remove what was parsed and look for leftovers
    rest = flat
    for pat in (r"let\s+len\s*=\s*%s\.len\(\)\s*;" % sname,
                r"let\s+\w+\s*=\s*self\.alloc\([^;]*\)\s*;",
                r"let\s+\w+\s*=\s*%s\.cast(?:::<u8>)?\(\)\s*;" % slot,
                r"(?:std::)?ptr::copy(?:_nonoverlapping)?\([^;]*\)\s*;",
                r"%s\.as_ptr\(\)\.add\([^;]*?\)\.write\([^;]*?\)\s*;" % ptr,
                r"ArenaString::from_raw_parts\([^;{}]*\)"):
        rest = re.sub(pat, " ", rest)
    # allowed leftovers: `unsafe { }`, `if <pure condition> { }`
    rest = re.sub(r"\bif\b[^{};]*\{", "{", rest)
    rest = re.sub(r"\bunsafe\b", " ", rest)
    rest = re.sub(r"[{}\s]", "", rest)
    if rest:
        die("alloc_str: statements not understood (could write memory): %r" % rest[:120])

    lines = [
        "(* GENERATED by translator/gen_poolstr.py from src/arena/pool.rs (PoolSet::alloc_str) — do not edit. *)",
        "From Coq Require Import ZArith List.",
        "Import ListNotations.",
        "Open Scope Z_scope.",
        "",
        "(* size passed to self.alloc(..) for a string of `len` bytes *)",
        "Definition alloc_str_request (len : Z) : Z := %s." % expr(req),
        "(* number of bytes copied to the start of the granted buffer *)",
        "Definition alloc_str_copy_len (len : Z) : Z := %s." % expr(copies[0]),
        "(* offsets of every further store through the buffer pointer (conditional stores included) *)",
        "Definition alloc_str_store_offsets (len : Z) : list Z := [%s]." % "; ".join(expr(o) for o, _ in stores),
        "(* length (= capacity) of the ArenaString built over the buffer *)",
        "Definition alloc_str_result_len (len : Z) : Z := %s." % expr(res[0]),
        "(* one past the highest byte offset alloc_str may write *)",
        "Definition alloc_str_extent (len : Z) : Z :=",
        "  fold_right Z.max (alloc_str_copy_len len) (map Z.succ (alloc_str_store_offsets len)).",
        "",
    ]
    text = "\n".join(lines)
    if not os.path.exists(OUT) or open(OUT).read() != text:
        open(OUT, "w").write(text)
        print("gen_poolstr: wrote %s" % OUT)
    os.makedirs(os.path.dirname(API), exist_ok=True)
    json.dump({"pub": api, "all": all_fns, "alloc_str_extra_stores": len(stores)}, open(API, "w"))


if __name__ == "__main__":
    main()
