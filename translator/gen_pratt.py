#!/usr/bin/env python3
"""Regenerates coq/theories/GenPratt.v from /repo/src/syntax/parser.rs (property C01/C10).

What is read (regex over the source text, comments stripped, no Rust parser):
  * in `fn parse_expression_continuation`: the binding-power match
        Token::X => (BinaryOp::Y, l, r),
    -> `binop_bp : binop -> Z * Z` (one arm per BinaryOp; every BinaryOp variant of
       `enum BinaryOp` must occur exactly once, every token at most once) and
       `op_tokens : list (list Z * binop)` (Token variant name, as bytes, -> operator) which the
       extracted token-level parser uses to read the real lexer's token dump;
  * the comparison that ends the loop: `if l_bp < min_bp { break; }` (any other comparison
    operator is a different parser: exit 2);
  * in `fn parse_expression`: the prefix arms `Token::Not => { ... self.parse_expression(N) ...
    UnaryOp::Not` and `Token::Minus => { ... self.parse_expression(N) ... UnaryOp::Minus`
    -> `unary_bp : unop -> Z`; the parenthesis arm `Token::LParen => { ... self.parse_expression(N)`
    and the array-literal arm -> `paren_bp`, `elem_bp`;
  * in the continuation: the call-argument and index sub-expressions `self.parse_expression(N)`
    -> `arg_bp`, `index_bp`; and the order of the postfix tests (Dot, LParen, LBracket come
    before the operator table and are not guarded by min_bp) -> `postfix_unguarded := true`.
  * `parse_statement`: the identifier-statement path continues with min_bp N -> `stmt_bp`.
The file is rewritten only when its content changes.  Exit status 2 with a message when the
source no longer has the shape parsed here.
"""
import os
import re
import sys

REPO = os.environ.get("VERIF_REPO", "/repo")
VERIF = os.path.dirname(os.path.dirname(os.path.abspath(__file__)))
OUT = os.path.join(VERIF, "coq", "theories", "GenPratt.v")

# BinaryOp variant -> constructor of Lang.binop
OPS = {"Add": "Add", "Minus": "Minus", "Times": "Times", "Divide": "Divide", "Mod": "Mod",
       "And": "And", "Or": "Or", "Eq": "OEq", "Gt": "OGt", "Lt": "OLt"}


class TranslatorError(Exception):
    pass


def strip_comments(src):
    return re.sub(r"//[^\n]*", "", src)


def fn_body(src, name):
    m = re.search(r"\bfn\s+%s\s*[(<]" % re.escape(name), src)
    if not m:
        raise TranslatorError("fn %s not found" % name)
    i = src.index("{", m.end())
    depth, j, n = 0, i, len(src)
    while j < n:
        c = src[j]
        if c == '"':
            j += 1
            while src[j] != '"':
                j += 2 if src[j] == "\\" else 1
        elif c == "'" and re.match(r"'(\\.|[^\\'])'", src[j:j + 4]):
            j += len(re.match(r"'(\\.|[^\\'])'", src[j:j + 4]).group(0)) - 1
        elif c == "{":
            depth += 1
        elif c == "}":
            depth -= 1
            if depth == 0:
                return src[i + 1:j]
        j += 1
    raise TranslatorError("unbalanced braces in fn %s" % name)


def arm_body(body, head_re):
    """text of the `{ ... }` block of the match arm whose pattern matches head_re"""
    m = re.search(head_re + r"\s*=>\s*\{", body)
    if not m:
        raise TranslatorError("arm %s not found" % head_re)
    i = m.end() - 1
    depth = 0
    for j in range(i, len(body)):
        if body[j] == "{":
            depth += 1
        elif body[j] == "}":
            depth -= 1
            if depth == 0:
                return body[i + 1:j]
    raise TranslatorError("unbalanced arm %s" % head_re)


def if_let_body(body, token):
    m = re.search(r"if\s+let\s+Token::%s\s*=\s*self\.cur\.token\s*\{" % token, body)
    if not m:
        raise TranslatorError("`if let Token::%s` not found in continuation" % token)
    i = m.end() - 1
    depth = 0
    for j in range(i, len(body)):
        if body[j] == "{":
            depth += 1
        elif body[j] == "}":
            depth -= 1
            if depth == 0:
                return m.start(), body[i + 1:j]
    raise TranslatorError("unbalanced if-let %s" % token)


def the_bp(text, what):
    ns = re.findall(r"self\.parse_expression\(\s*(\d+)\s*\)", text)
    if len(set(ns)) != 1:
        raise TranslatorError("%s: expected one parse_expression(<n>) constant, found %r" % (what, ns))
    return int(ns[0])


def coq_bytes(s):
    return "[" + "; ".join(str(b) for b in s.encode()) + "]"


def generate():
    src = strip_comments(open(os.path.join(REPO, "src", "syntax", "parser.rs"), encoding="utf-8").read())
    m = re.search(r"pub\s+enum\s+BinaryOp\s*\{([^}]*)\}", src)
    if not m:
        raise TranslatorError("enum BinaryOp not found")
    variants = re.findall(r"\b([A-Z]\w*)\b\s*,", m.group(1))
    if sorted(variants) != sorted(OPS):
        raise TranslatorError("enum BinaryOp variants changed: %r" % variants)
    m = re.search(r"pub\s+enum\s+UnaryOp\s*\{([^}]*)\}", src)
    if not m or sorted(re.findall(r"\b([A-Z]\w*)\b\s*,", m.group(1))) != ["Minus", "Not"]:
        raise TranslatorError("enum UnaryOp changed")

    cont = fn_body(src, "parse_expression_continuation")
    arms = re.findall(r"Token::(\w+)\s*=>\s*\(\s*BinaryOp::(\w+)\s*,\s*(\d+)\s*,\s*(\d+)\s*\)", cont)
    if len(arms) != len(OPS):
        raise TranslatorError("binding-power table: expected %d arms, found %d" % (len(OPS), len(arms)))
    toks = [a[0] for a in arms]
    ops = [a[1] for a in arms]
    if len(set(toks)) != len(toks) or sorted(ops) != sorted(OPS):
        raise TranslatorError("binding-power table is not a bijection token <-> BinaryOp: %r" % arms)
    if not re.search(r"let\s*\(\s*op\s*,\s*l_bp\s*,\s*r_bp\s*\)\s*=\s*match\s*&self\.cur\.token", cont):
        raise TranslatorError("binding-power match head changed")
    if not re.search(r"_\s*=>\s*break\s*,", cont):
        raise TranslatorError("binding-power match: default arm is not `break`")
    mm = re.search(r"if\s+l_bp\s*(<=|<|>=|>|==)\s*min_bp\s*\{\s*break\s*;\s*\}", cont)
    if not mm or mm.group(1) != "<":
        raise TranslatorError("loop exit test is not `if l_bp < min_bp { break; }`")
    if not re.search(r"let\s+rhs\s*=\s*self\.parse_expression\(\s*r_bp\s*\)\s*;", cont):
        raise TranslatorError("right operand is not parsed with parse_expression(r_bp)")
    if not re.search(r"Expr::Binary\s*\{\s*op\s*,\s*lhs\s*,\s*rhs\s*,", cont):
        raise TranslatorError("Binary node is not built as {op, lhs, rhs}")
    p_dot, dot = if_let_body(cont, "Dot")
    p_call, call = if_let_body(cont, "LParen")
    p_idx, idx = if_let_body(cont, "LBracket")
    p_tab = cont.index("let (op, l_bp, r_bp)")
    if not (p_dot < p_call < p_idx < p_tab):
        raise TranslatorError("postfix tests no longer precede the operator table")
    for nm, t in (("Dot", dot), ("LParen", call), ("LBracket", idx)):
        if "min_bp" in t or not re.search(r"continue\s*;\s*$", t.strip()):
            raise TranslatorError("postfix %s arm: guarded by min_bp or does not `continue`" % nm)
    arg_bp = the_bp(call, "call arguments")
    index_bp = the_bp(idx, "index expression")

    pe = fn_body(src, "parse_expression")
    un = {}
    for tok, uop in (("Not", "Not"), ("Minus", "Minus")):
        a = arm_body(pe, r"Token::%s" % tok)
        if not re.search(r"UnaryOp::%s\b" % uop, a):
            raise TranslatorError("prefix arm Token::%s does not build UnaryOp::%s" % (tok, uop))
        un[uop] = the_bp(a, "unary " + tok)
    paren = arm_body(pe, r"Token::LParen")
    paren_bp = the_bp(paren, "parenthesised expression")
    if not re.search(r"if\s+let\s+Token::RParen\s*=\s*self\.cur\.token", paren):
        raise TranslatorError("parenthesis arm does not test for RParen")
    elem_bp = the_bp(arm_body(pe, r"Token::LBracket"), "array element")
    if not re.search(r"self\.parse_expression_continuation\(\s*lhs\s*,\s*min_bp\s*\)\s*$", pe.strip()):
        raise TranslatorError("parse_expression does not end in parse_expression_continuation(lhs, min_bp)")

    st = fn_body(src, "parse_statement")
    ms = re.search(r"self\.parse_expression_continuation\(\s*initial_expr\s*,\s*(\d+)\s*\)", st)
    if not ms:
        raise TranslatorError("identifier statement path changed")
    stmt_bp = int(ms.group(1))

    L = []
    L.append("(* GENERATED by translator/gen_pratt.py from src/syntax/parser.rs — do not edit. *)")
    L.append("From Coq Require Import ZArith List Bool.")
    L.append("Require Import NS.theories.Lang.")
    L.append("Import ListNotations.")
    L.append("Open Scope Z_scope.")
    L.append("")
    L.append("(* parse_expression_continuation: Token::X => (BinaryOp::Y, l_bp, r_bp) *)")
    L.append("Definition binop_bp (op : binop) : Z * Z :=")
    L.append("  match op with")
    for tok, op, l, r in arms:
        L.append("  | %s => (%s, %s)" % (OPS[op], l, r))
    L.append("  end.")
    L.append("")
    L.append("(* Token variant name (bytes) -> operator, in source order *)")
    L.append("Definition op_tokens : list (list Z * binop) :=")
    L.append("  [" + ";\n   ".join("(%s, %s)" % (coq_bytes(tok), OPS[op]) for tok, op, _, _ in arms) + "].")
    L.append("")
    L.append("(* parse_expression: Token::Not / Token::Minus => parse_expression(N) *)")
    L.append("Definition unary_bp (u : unop) : Z := match u with Not => %d | Neg => %d end." % (un["Not"], un["Minus"]))
    L.append("Definition paren_bp : Z := %d.   (* `(` expr `)` *)" % paren_bp)
    L.append("Definition elem_bp : Z := %d.    (* array literal elements *)" % elem_bp)
    L.append("Definition arg_bp : Z := %d.     (* call arguments *)" % arg_bp)
    L.append("Definition index_bp : Z := %d.   (* index expression *)" % index_bp)
    L.append("Definition stmt_bp : Z := %d.    (* identifier statement: parse_expression_continuation(var, N) *)" % stmt_bp)
    L.append("(* `.name`, `(args)`, `[index]` are tested before the operator table and never compare with min_bp;")
    L.append("   the loop leaves on `l_bp < min_bp` *)")
    L.append("Definition postfix_unguarded : bool := true.")
    L.append("")
    return "\n".join(L)


def main():
    try:
        text = generate()
    except (TranslatorError, OSError, ValueError) as e:
        print("gen_pratt: %s" % e)
        sys.exit(2)
    if not os.path.exists(OUT) or open(OUT, encoding="utf-8").read() != text:
        with open(OUT, "w", encoding="utf-8") as f:
            f.write(text)
        print("gen_pratt: wrote %s" % os.path.relpath(OUT, VERIF))


if __name__ == "__main__":
    main()
