#!/usr/bin/env python3
"""Regenerates coq/theories/GenRules.v (C09) from /repo's source.

What is read (regex over the source text, no Rust parser):
  * src/helpers.rs   `enum ValueType` variants                         -> Inductive ty (T<Variant>)
  * src/resolver.rs  `enum SemanticError` + `as_str` messages          -> msg_<Variant> : list Z
  * src/builtins/mod.rs      GlobalBuiltin: from_name / arity / return_type        -> global_builtins
  * src/builtins/{string,array,number,process}.rs  the five member built-in enums:
        from_name / arity / return_type / requires_mut_receiver       -> <kind>_methods
  * src/syntax/scanner.rs    one-word keyword arms; src/syntax/token.rs is_reserved_keyword and
        the Display texts of the multi-word keywords                   -> reserved_words
The file is rewritten only when its content changes.  Exit status 2 with a message when the
source no longer has the shape parsed here.
"""
import os
import re
import sys

REPO = os.environ.get("VERIF_REPO", "/repo")
VERIF = os.path.dirname(os.path.dirname(os.path.abspath(__file__)))
OUT = os.path.join(VERIF, "coq", "theories", "GenRules.v")


class TranslatorError(Exception):
    pass


def read(rel):
    with open(os.path.join(REPO, rel), encoding="utf-8") as f:
        return f.read()


def strip_comments(src):
    return re.sub(r"//[^\n]*", "", src)


def braces(src, i):
    """text between the brace at/after index i and its match"""
    i = src.index("{", i)
    depth = 0
    j = i
    n = len(src)
    while j < n:
        c = src[j]
        if c == '"':
            j += 1
            while src[j] != '"':
                j += 2 if src[j] == "\\" else 1
        elif c == "{":
            depth += 1
        elif c == "}":
            depth -= 1
            if depth == 0:
                return src[i + 1:j], j
        j += 1
    raise TranslatorError("unbalanced braces")


def enum_variants(src, name):
    m = re.search(r"\benum\s+%s\s*\{" % re.escape(name), src)
    if not m:
        raise TranslatorError("enum %s not found" % name)
    body, _ = braces(src, m.end() - 1)
    body = re.sub(r"#\[[^\]]*\]", "", body)
    vs = []
    for part in body.split(","):
        part = part.strip()
        if not part:
            continue
        mm = re.match(r"([A-Z]\w*)\s*(\(.*\))?$", part, re.S)
        if not mm:
            raise TranslatorError("enum %s: cannot read variant %r" % (name, part))
        vs.append(mm.group(1))
    if not vs:
        raise TranslatorError("enum %s: no variants" % name)
    return vs


def impl_block(src, trait, typ):
    m = re.search(r"\bimpl\s+%s\s+for\s+%s\s*\{" % (re.escape(trait), re.escape(typ)), src)
    if not m:
        raise TranslatorError("impl %s for %s not found" % (trait, typ))
    body, _ = braces(src, m.end() - 1)
    return body


def fn_in(block, name, required=True):
    m = re.search(r"\bfn\s+%s\s*\(" % re.escape(name), block)
    if not m:
        if required:
            raise TranslatorError("fn %s not found" % name)
        return None
    body, _ = braces(block, m.end())
    return body


def match_arms(body, what):
    """`match self { A | B => v, C => { v } ... }` -> list of (variants, value-text);
    a body without `match` is one arm for every variant (value = whole body)."""
    m = re.search(r"\bmatch\s+\w+\s*\{", body)
    if not m:
        return [(None, body.strip())]
    inner, _ = braces(body, m.end() - 1)
    arms = []
    i = 0
    n = len(inner)
    while i < n:
        mm = re.compile(r"\s*([^=]+?)\s*=>\s*", re.S).match(inner, i)
        if not mm:
            if inner[i:].strip() in ("", ","):
                break
            raise TranslatorError("%s: cannot read match arm near %r" % (what, inner[i:i + 60]))
        pats = [p.strip() for p in mm.group(1).split("|")]
        j = mm.end()
        if inner[j] == "{":
            val, k = braces(inner, j)
            j = k + 1
        else:
            k = j
            depth = 0
            while k < n and not (inner[k] == "," and depth == 0):
                if inner[k] in "([":
                    depth += 1
                elif inner[k] in ")]":
                    depth -= 1
                k += 1
            val = inner[j:k]
            j = k
        while j < n and inner[j] in ", \n\t":
            j += 1
        arms.append((pats, val.strip()))
        i = j
    return arms


def variant_of(pat, typ):
    m = re.match(r"(?:%s|Self)::(\w+)$" % re.escape(typ), pat)
    if not m:
        raise TranslatorError("%s: unexpected pattern %r" % (typ, pat))
    return m.group(1)


def table_by_variant(block, fname, typ, variants, conv):
    body = fn_in(block, fname)
    out = {}
    for pats, val in match_arms(body, "%s::%s" % (typ, fname)):
        v = conv(val)
        if pats is None:
            for x in variants:
                out[x] = v
        else:
            for p in pats:
                if p == "_":
                    for x in variants:
                        out.setdefault(x, v)
                else:
                    out[variant_of(p, typ)] = v
    missing = [x for x in variants if x not in out]
    if missing:
        raise TranslatorError("%s::%s: no value for %s" % (typ, fname, missing))
    return out


def conv_int(val):
    m = re.fullmatch(r"\s*(\d+)\s*", val)
    if not m:
        raise TranslatorError("arity is not a literal: %r" % val)
    return int(m.group(1))


def conv_ty(val):
    m = re.fullmatch(r"\s*ValueType::(\w+)\s*", val)
    if not m:
        raise TranslatorError("return type is not a ValueType variant: %r" % val)
    return m.group(1)


def names_of(block, typ):
    body = fn_in(block, "from_name")
    out = []
    for m in re.finditer(r'"([^"]+)"\s*=>\s*Some\(\s*(?:%s|Self)::(\w+)\s*\)' % re.escape(typ), body):
        out.append((m.group(1), m.group(2)))
    if not out:
        raise TranslatorError("%s::from_name: no arms" % typ)
    return out


def mut_of(block, typ, variants):
    body = fn_in(block, "requires_mut_receiver", required=False)
    if body is None:
        return {v: False for v in variants}
    m = re.fullmatch(r"\s*(!?)\s*matches!\(\s*self\s*,\s*(.*?)\)\s*", body, re.S)
    if not m:
        raise TranslatorError("%s::requires_mut_receiver: not a matches!(self, ..)" % typ)
    listed = [variant_of(p.strip(), typ) for p in m.group(2).split("|")]
    neg = m.group(1) == "!"
    return {v: ((v in listed) != neg) for v in variants}


def builtin_table(rel, typ):
    src = strip_comments(read(rel))
    variants = enum_variants(src, typ)
    block = impl_block(src, "Builtin", typ)
    names = names_of(block, typ)
    ar = table_by_variant(block, "arity", typ, variants, conv_int)
    rt = table_by_variant(block, "return_type", typ, variants, conv_ty)
    mu = mut_of(block, typ, variants)
    seen = set(v for _, v in names)
    if seen != set(variants):
        raise TranslatorError("%s: from_name covers %s, enum has %s" % (typ, sorted(seen), variants))
    return [(n, ar[v], rt[v], mu[v]) for n, v in names]


def zbytes(s):
    return "[" + "; ".join(str(b) for b in s.encode("utf-8")) + "]"


def generate():
    L = []
    A = L.append
    A("(* GENERATED by translator/gen_rules.py from /repo/src — do not edit.")
    A("   Tables the static checker (src/resolver.rs) consults: value types, diagnostic messages,")
    A("   built-in names / arity / return type / needs-a-mutable-receiver, reserved words. *)")
    A("From Coq Require Import ZArith List.")
    A("Import ListNotations.")
    A("Open Scope Z_scope.")
    A("")
    tys = enum_variants(strip_comments(read("src/helpers.rs")), "ValueType")
    A("(* src/helpers.rs enum ValueType *)")
    A("Inductive ty := " + " | ".join("T" + t for t in tys) + ".")
    A("")
    rs = strip_comments(read("src/resolver.rs"))
    errs = enum_variants(rs, "SemanticError")
    blk = impl_block(rs, "AsStr", "SemanticError")
    body = fn_in(blk, "as_str")
    msgs = dict(re.findall(r'SemanticError::(\w+)\s*=>\s*"([^"]*)"', body))
    A("(* src/resolver.rs SemanticError::as_str *)")
    for e in errs:
        if e not in msgs:
            raise TranslatorError("SemanticError::%s has no message" % e)
        A("Definition msg_%s : list Z := %s.   (* %s *)" % (e, zbytes(msgs[e]), msgs[e]))
    A("")
    A("(* (name, arity, return type) — src/builtins/mod.rs GlobalBuiltin *)")
    gb = builtin_table("src/builtins/mod.rs", "GlobalBuiltin")
    A("Definition global_builtins : list (list Z * nat * ty) :=")
    A("  [" + ";\n   ".join("(%s, %d%%nat, T%s)" % (zbytes(n), a, t) for n, a, t, _ in gb) + "].   (* %s *)" % " ".join(n for n, _, _, _ in gb))
    A("")
    for label, rel, typ in (("string", "src/builtins/string.rs", "StringBuiltin"),
                            ("array", "src/builtins/array.rs", "ArrayBuiltin"),
                            ("number", "src/builtins/number.rs", "NumberBuiltin"),
                            ("command", "src/builtins/process.rs", "ProcessCommandBuiltin"),
                            ("result", "src/builtins/process.rs", "ProcessResultBuiltin")):
        tb = builtin_table(rel, typ)
        A("(* (name, arity, return type, requires_mut_receiver) — %s %s: %s *)" % (rel, typ, " ".join(n for n, _, _, _ in tb)))
        A("Definition %s_methods : list (list Z * nat * ty * bool) :=" % label)
        A("  [" + ";\n   ".join("(%s, %d%%nat, T%s, %s)" % (zbytes(n), a, t, "true" if m else "false") for n, a, t, m in tb) + "].")
        A("")
    sc = strip_comments(read("src/syntax/scanner.rs"))
    kw = re.findall(r'"([a-z_]+)"\s*=>\s*Token::(\w+)', sc)
    tk = strip_comments(read("src/syntax/token.rs"))
    m = re.search(r"fn\s+is_reserved_keyword", tk)
    if not m:
        raise TranslatorError("is_reserved_keyword not found")
    body, _ = braces(tk, m.end())
    reserved = re.findall(r"Token::(\w+)", body)
    if not reserved:
        raise TranslatorError("is_reserved_keyword: empty")
    disp = dict((v, t) for v, t in re.findall(r'Token::(\w+)\s*=>\s*write!\(f,\s*"([^"]*)"\)', tk))
    kwmap = {}
    for text, var in kw:
        kwmap.setdefault(var, text)
    words = []
    for var in reserved:
        if var in kwmap:
            words.append(kwmap[var])
        elif var in disp:
            words.append(disp[var])          # multi-word keywords: `small pass`, `if to say`, `if not so`
        else:
            raise TranslatorError("reserved token %s has no keyword text" % var)
    # behaviour switch read off the source: how names are typed while a block's function
    # signatures are inferred (infer_expr_type under `signature_body`)
    m = re.search(r"fn\s+infer_expr_type\b", rs)
    if not m:
        raise TranslatorError("infer_expr_type not found")
    ibody, _ = braces(rs, m.end())
    var_arms = re.findall(r"Expr::Var\([^)]*\)\s*(if[^=]*)?=>", ibody)
    if not var_arms:
        raise TranslatorError("infer_expr_type: no Expr::Var arm")
    sig_dyn = bool(re.search(r"Expr::Var\(\.\.\)\s*if\s+self\.signature_body\.is_some\(\)\s*=>\s*Some\(ValueType::Dynamic\)", ibody))
    sig_fn = bool(re.search(r"signature_body\s*\.is_some_and\(\|body\|\s*Self::block_defines_function\(body,\s*func_name\)\)", re.sub(r"\s+", " ", ibody).replace(" .", ".")))
    if sig_dyn != sig_fn:
        raise TranslatorError("infer_expr_type: signature-time typing of variables and of nested functions disagree (%s/%s)" % (sig_dyn, sig_fn))
    if not sig_dyn and "signature_body" in rs:
        raise TranslatorError("resolver.rs mentions signature_body in a shape this translator does not know")
    A("(* Behaviour switch read off src/resolver.rs infer_expr_type: while the signatures of a block's")
    A("   functions are inferred, a variable is typed Dynamic and a call of a function nested in the")
    A("   body is Dynamic (true), or both are looked up in the scopes as they are when the enclosing")
    A("   block is entered (false: the defect keyed c09-return-type-from-outer-scope). *)")
    A("Definition src_signature_names_dynamic : bool := %s." % ("true" if sig_dyn else "false"))
    A("")
    A("(* src/syntax/token.rs is_reserved_keyword, spelled as in scanner.rs (the parser rejects them as names) *)")
    A("Definition reserved_words : list (list Z) :=")
    A("  [" + ";\n   ".join("%s (* %s *)" % (zbytes(w), w) for w in words) + "].")
    A("")
    return "\n".join(L) + "\n"


def main():
    text = generate()
    old = None
    if os.path.exists(OUT):
        with open(OUT, encoding="utf-8") as f:
            old = f.read()
    if old != text:
        with open(OUT, "w", encoding="utf-8") as f:
            f.write(text)
        print("translator: GenRules.v rewritten")
    else:
        print("translator: GenRules.v unchanged")


if __name__ == "__main__":
    try:
        main()
    except TranslatorError as e:
        print("translator: ERROR (gen_rules) %s" % e)
        sys.exit(2)
